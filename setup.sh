#!/bin/bash
# Build the verification framework from files on disk only (offline).
cd "$(dirname "$0")"
export PIP_NO_INDEX=1
mkdir -p coq/Gen coq/Corr work replays evidence
# 1. regenerate the translated definitions from /repo's current working tree
/venv/bin/python -m lib.py2coq.main all 2>&1 | grep -v "conda.cli" || true
# 2. build every library, proof and property file (-k: one broken file must not hide the others; each check rebuilds what it needs)
/venv/bin/python -c "
from lib import common
common.ensure_makefile()
ok, log = common.coq_make(['-k', 'all'], timeout=3000)
print(log[-3000:])
print('setup: build', 'ok' if ok else 'INCOMPLETE (see above)')
"
exit 0
