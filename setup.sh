#!/bin/bash
# Build the verification framework from files on disk only (offline).
set -e
cd "$(dirname "$0")"
export PIP_NO_INDEX=1
mkdir -p coq/Gen coq/Corr work replays evidence
# 1. regenerate the translated definitions from /repo's current working tree
/venv/bin/python -m lib.py2coq.main all || { echo "translator failed at setup (checks will report it)"; }
# 2. build every library, proof and property file
cd coq
coq_makefile -f _CoqProject -o Makefile > /dev/null
timeout 3000 make -j16 -k 2>&1 | grep -v "conda.cli" | tail -40
echo "setup done"
