"""C19 translator self-check, dynamic part.  Standalone script (subprocess):

    python lib/c19_trace.py --seed S

Before synapgrad is imported, every legacy global function of numpy.random, every public function of `random`, the generator
constructors (default_rng, RandomState, Generator, bit generators, random.Random, SystemRandom), os.urandom, the clock
functions of `time`, uuid.uuid1/uuid4, secrets.*, and the builtins id / hash are replaced by recording wrappers
(caller's file, line and qualified name via sys._getframe).  Then the seeded program lib/c19_program.py (which exercises
every random-consuming API of the package) is run, and the observed call sites that lie inside REPO/synapgrad are printed
as JSON: {"sites": [[relfile, line, qualname, module, fn, count], ...]}.
"""
import argparse, builtins, json, os, sys

os.environ.setdefault("OMP_NUM_THREADS", "1")
REPO = os.environ.get("VERIF_REPO", "/repo")
PKG = os.path.join(os.path.abspath(REPO), "synapgrad") + os.sep
SITES = {}


def note(module, fn, depth=2):
    try:
        fr = sys._getframe(depth)
    except ValueError:
        return
    fname = fr.f_code.co_filename
    if not fname.startswith(PKG):
        # a comprehension / generator frame of the package calling through? only direct callers count
        return
    rel = fname[len(PKG):].replace(os.sep, "/")
    qual = getattr(fr.f_code, "co_qualname", fr.f_code.co_name).replace(".<locals>", "")
    for junk in (".<listcomp>", ".<genexpr>", ".<setcomp>", ".<dictcomp>", ".<lambda>"):
        qual = qual.replace(junk, "")
    key = (rel, fr.f_lineno, qual, module, fn)
    SITES[key] = SITES.get(key, 0) + 1


def wrap_fn(module, modname, fn):
    orig = getattr(module, fn)

    def w(*a, **k):
        note(modname, fn)
        return orig(*a, **k)
    w.__name__ = fn
    w.__wrapped__ = orig
    setattr(module, fn, w)


def wrap_cls(module, modname, fn):
    orig = getattr(module, fn)
    try:
        class W(orig):
            def __init__(self, *a, **k):
                note(modname, fn)
                try:
                    super().__init__(*a, **k)
                except TypeError:
                    pass
        W.__name__ = fn
        W.__qualname__ = fn
        setattr(module, fn, W)
    except TypeError:
        wrap_fn(module, modname, fn)


def install():
    import random as pyrandom, time, uuid, secrets
    import numpy as np
    ROOT = os.path.dirname(os.path.dirname(os.path.abspath(__file__)))
    if ROOT not in sys.path:
        sys.path.insert(0, ROOT)
    from lib.py2coq import gen_census as G
    for n in np.random.__all__:
        obj = getattr(np.random, n)
        if isinstance(obj, type):
            wrap_cls(np.random, "numpy.random", n)
        else:
            wrap_fn(np.random, "numpy.random", n)
    for n in pyrandom.__all__:
        obj = getattr(pyrandom, n)
        if isinstance(obj, type):
            wrap_cls(pyrandom, "random", n)
        else:
            wrap_fn(pyrandom, "random", n)
    for n in ("time", "time_ns", "perf_counter", "perf_counter_ns", "monotonic", "monotonic_ns", "process_time", "process_time_ns",
              "clock_gettime", "ctime", "localtime", "gmtime", "strftime", "asctime"):
        if hasattr(time, n):
            wrap_fn(time, "time", n)
    wrap_fn(os, "os", "urandom")
    for n in ("uuid1", "uuid4"):
        wrap_fn(uuid, "uuid", n)
    for n in ("token_bytes", "token_hex", "token_urlsafe", "randbelow", "randbits", "choice"):
        if hasattr(secrets, n):
            wrap_fn(secrets, "secrets", n)
    # builtins id / hash
    oid, ohash = builtins.id, builtins.hash

    def rid(x):
        note("builtin", "id")
        return oid(x)

    def rhash(x):
        note("builtin", "hash")
        return ohash(x)
    builtins.id = rid
    builtins.hash = rhash


if __name__ == "__main__":
    ap = argparse.ArgumentParser()
    ap.add_argument("--seed", type=int, default=0)
    a = ap.parse_args()
    install()
    ROOT = os.path.dirname(os.path.dirname(os.path.abspath(__file__)))
    sys.path.insert(0, os.path.join(ROOT, "lib"))
    import c19_program  # noqa: E402  (imports synapgrad after the wrappers are in place)
    import synapgrad as _sg
    wrap_fn(_sg, "synapgrad", "empty")          # layers call synapgrad.empty(...) through the package attribute at call time
    res = c19_program.run(a.seed, 0, 1, 0)
    out = {"sites": [list(k) + [v] for k, v in sorted(SITES.items())], "n_items": len(res["items"])}
    sys.stdout.write("\n@@TRACE@@" + json.dumps(out) + "\n")
