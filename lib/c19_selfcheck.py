"""C19 translator self-checks: detections of the census facts that do NOT go through lib/py2coq/gen_census.py's AST walk.

  token_scan(root, files)      `tokenize`-based scan of the sources for the watched spellings; returns hits per category.
  compare_tokens(census, hits) every hit must be explained by a census row on the same file+line, and every census row of a
                               syntactic category must be seen by the scan (both directions).
  table_check()                the translator's classification tables against the installed numpy / random modules:
                               every public name is classified, and every name classified Global* really is bound to the
                               module-level generator object.
  unit_cases()                 synthetic snippets (aliases, shadowing, closures, escapes) with the expected rows.
The dynamic call-site tracer is lib/c19_trace.py (runs in a subprocess).
"""
import io, os, token, tokenize

WATCH_WORDS = {"random", "urandom", "getrandom", "secrets", "uuid", "default_rng", "RandomState", "Generator", "SystemRandom",
               "SeedSequence", "PCG64", "MT19937", "Philox", "SFC64"}
CLOCK_MODULES = {"time", "datetime"}


def _logical_lines(toks):
    """split the token stream into logical lines (lists of significant tokens)"""
    cur = []
    for t in toks:
        if t.type in (token.COMMENT, token.NL, token.INDENT, token.DEDENT, token.ENCODING, token.ENDMARKER):
            continue
        if t.type == token.NEWLINE:
            if cur:
                yield cur
            cur = []
        else:
            cur.append(t)
    if cur:
        yield cur


def scan_source(src):
    """-> dict category -> list of (line, text)"""
    toks = list(tokenize.generate_tokens(io.StringIO(src).readline))
    hits = {"draw": [], "hash": [], "set_new": [], "dict_new": [], "sort": [], "hash_def": [], "order_def": [], "import": [], "uninit": [], "empty_use": []}
    aliases = set()
    lines = list(_logical_lines(toks))
    # pass 1: import lines -> extra watch words (names bound from a watched module)
    for ln in lines:
        if ln[0].type == token.NAME and ln[0].string in ("import", "from"):
            names = [t.string for t in ln if t.type == token.NAME]
            if any(n in WATCH_WORDS or n in CLOCK_MODULES for n in names):
                hits["import"].append((ln[0].start[0], " ".join(t.string for t in ln)))
                # bound names: the token after `as`, or imported names (after `import`) without `as`
                after_import = False
                for i, t in enumerate(ln):
                    if t.type == token.NAME and t.string == "import":
                        after_import = True
                        continue
                    if not after_import or t.type != token.NAME or t.string == "as":
                        continue
                    nxt = ln[i + 1] if i + 1 < len(ln) else None
                    prv = ln[i - 1]
                    if nxt is not None and nxt.type == token.NAME and nxt.string == "as":
                        continue                      # the name before `as` is not bound
                    if prv.type == token.OP and prv.string == ".":
                        continue                      # import a.b binds a
                    if t.string not in ("numpy", "np", "os"):
                        aliases.add(t.string)
    # pass 2: everything else
    for ln in lines:
        if ln[0].type == token.NAME and ln[0].string in ("import", "from"):
            continue
        fdepth = 0        # inside an f-string
        braces = []       # stack of open '{' : [index, is_fstring_field]
        for i, t in enumerate(ln):
            prv = ln[i - 1] if i > 0 else None
            nxt = ln[i + 1] if i + 1 < len(ln) else None
            if t.type == getattr(token, "FSTRING_START", -1):
                fdepth += 1
            elif t.type == getattr(token, "FSTRING_END", -1):
                fdepth -= 1
            if t.type == token.OP and t.string == "{":
                is_field = _directly_in_fstring(ln, i)
                braces.append([i, is_field])
            elif t.type == token.OP and t.string == "}":
                if braces:
                    start, is_field = braces.pop()
                    if not is_field:
                        kind = _brace_kind(ln[start + 1:i])
                        hits["dict_new" if kind == "dict" else "set_new"].append((ln[start].start[0], kind))
            if t.type != token.NAME:
                continue
            s = t.string
            dotted_before = prv is not None and prv.type == token.OP and prv.string == "."
            is_def = prv is not None and prv.type == token.NAME and prv.string in ("def", "class")
            called = nxt is not None and nxt.type == token.OP and nxt.string == "("
            is_kwarg = nxt is not None and nxt.type == token.OP and nxt.string == "=" and prv is not None and prv.type == token.OP and prv.string in ("(", ",")
            if is_def:
                if s in ("__hash__", "__eq__"):
                    hits["hash_def"].append((t.start[0], s))
                if s in ("__lt__", "__le__", "__gt__", "__ge__", "__cmp__"):
                    hits["order_def"].append((t.start[0], s))
                continue
            if s in WATCH_WORDS or (s in aliases and not dotted_before and not is_kwarg):
                # the module word itself inside a chain (np.random.rand) or a bound alias
                hits["draw"].append((t.start[0], s))
            elif s in CLOCK_MODULES and not dotted_before and nxt is not None and nxt.type == token.OP and nxt.string == ".":
                hits["draw"].append((t.start[0], s))
            elif s in ("hash", "id") and called and not dotted_before:
                hits["hash"].append((t.start[0], s))
            elif s == "__hash__" and called:
                hits["hash"].append((t.start[0], s))
            elif s in ("set", "frozenset") and called and not dotted_before:
                hits["set_new"].append((t.start[0], s))
            elif s in ("dict", "OrderedDict", "defaultdict", "Counter") and called and not dotted_before:
                hits["dict_new"].append((t.start[0], s))
            elif s == "sorted" and called and not dotted_before:
                hits["sort"].append((t.start[0], s))
            elif s == "sort" and called and dotted_before:
                if not (i >= 2 and ln[i - 2].type == token.NAME and ln[i - 2].string in ("np", "numpy")):
                    hits["sort"].append((t.start[0], ".sort"))
            elif s in ("empty", "empty_like", "ndarray") and called and dotted_before and i >= 2 and ln[i - 2].string in ("np", "numpy"):
                hits["uninit"].append((t.start[0], s))
            elif s in ("empty", "empty_like") and called and (not dotted_before or (i >= 2 and ln[i - 2].string in ("synapgrad", "sg", "tensor"))):
                hits["empty_use"].append((t.start[0], s))
    return hits


def _directly_in_fstring(ln, i):
    """is the '{' at index i a replacement field of an f-string (3.12 tokenizer), i.e. is the nearest enclosing
    unclosed construct an FSTRING_START rather than a bracket?"""
    depth = 0
    FS, FE = getattr(token, "FSTRING_START", -1), getattr(token, "FSTRING_END", -1)
    for j in range(i - 1, -1, -1):
        t = ln[j]
        if t.type == FE:
            depth += 1
        elif t.type == FS:
            if depth == 0:
                return True
            depth -= 1
        elif t.type == token.OP and t.string in ")]}":
            depth += 1
        elif t.type == token.OP and t.string in "([{":
            if depth == 0:
                return False
            depth -= 1
    return False


def _brace_kind(inner):
    """dict or set, from the tokens between the braces"""
    if not inner:
        return "dict"
    if inner[0].type == token.OP and inner[0].string == "**":
        return "dict"
    depth = 0
    lam = 0
    for t in inner:
        if t.type == token.OP and t.string in "([{":
            depth += 1
        elif t.type == token.OP and t.string in ")]}":
            depth -= 1
        elif t.type == token.NAME and t.string == "lambda" and depth == 0:
            lam += 1
        elif t.type == token.OP and t.string == ":" and depth == 0:
            if lam:
                lam -= 1
            else:
                return "dict"
    return "set"


def token_scan(root, files):
    res = {}
    for rel in files:
        src = open(os.path.join(root, rel), encoding="utf8").read()
        res[rel.replace(os.sep, "/")] = scan_source(src)
    return res


def compare_tokens(census, hits):
    """-> (n_cases, n_nontrivial, mismatches).  A case = one token hit or one census row."""
    from collections import Counter
    mism = []
    cases = 0
    nontrivial = 0
    rows = {
        "draw": Counter((r["file"], r["line"]) for r in census["draws"] if r["class"] != "AddressOrHash"),
        "hash": Counter((r["file"], r["line"]) for r in census["draws"] if r["class"] == "AddressOrHash"),
        "set_new": Counter((r["file"], r["line"]) for r in census["set_news"] if r["ctor"] in ("CtorDisplay", "CtorCall", "CtorComp", "CtorFrozen")),
        "dict_new": Counter((r["file"], r["line"]) for r in census["dicts"]),
        "sort": Counter((r["file"], r["line"]) for r in census["sorts"]),
        "hash_def": Counter((r["file"], r["line"]) for r in census["hash_defs"] if r["method"] != "@dataclass"),
        "order_def": Counter((r["file"], r["line"]) for r in census.get("order_defs", []) if not r["method"].startswith("@")),
        "uninit": Counter((r["file"], r["line"]) for r in census["uninits"]),
        "empty_use": Counter((r["file"], r["line"]) for r in census.get("empty_uses", [])),
    }
    for cat, rc in rows.items():
        hc = Counter()
        for f, h in hits.items():
            for line, _ in h[cat]:
                hc[(f, line)] += 1
        for key in set(hc) | set(rc):
            cases += 1
            if hc[key] and rc[key]:
                nontrivial += 1
            if cat == "draw":
                ok = (hc[key] > 0) == (rc[key] > 0)        # `random` may occur several times in one chain/line
            else:
                ok = hc[key] == rc[key]
            if not ok:
                mism.append({"category": cat, "file": key[0], "line": key[1], "token_hits": hc[key], "census_rows": rc[key],
                             "meaning": "token scan sees it, census does not" if hc[key] > rc[key] else "census row without a token hit"})
    return cases, nontrivial, mism


# ---------------------------------------------------------------------------------------------- tables vs runtime
def table_check():
    import random as pyrandom
    import numpy as np
    from lib.py2coq import gen_census as G
    mism = []
    cases = 0
    glob = np.random.mtrand._rand
    for n in np.random.__all__:
        cases += 1
        if n in G.NP_GLOBAL:
            f = getattr(np.random, n)
            if getattr(f, "__self__", None) is not glob and n not in ("seed", "ranf", "sample"):
                mism.append({"numpy.random": n, "problem": "classified GlobalNumpy but not a method of the global RandomState"})
        elif n in G.NP_LOCAL:
            f = getattr(np.random, n)
            if getattr(f, "__self__", None) is glob:
                mism.append({"numpy.random": n, "problem": "classified LocalGenerator but bound to the global RandomState"})
        else:
            mism.append({"numpy.random": n, "problem": "public name not classified by the translator"})
    for n in G.NP_GLOBAL:
        cases += 1
        if not hasattr(np.random, n) and n not in ("random_integers",):
            mism.append({"numpy.random": n, "problem": "classified name does not exist"})
    for n in pyrandom.__all__:
        cases += 1
        f = getattr(pyrandom, n)
        if n in G.PY_GLOBAL:
            if getattr(f, "__self__", None) is not pyrandom._inst:
                mism.append({"random": n, "problem": "classified GlobalPython but not a method of random._inst"})
        elif n in G.PY_LOCAL:
            if not isinstance(f, type):
                mism.append({"random": n, "problem": "classified LocalGenerator but not a class"})
        else:
            mism.append({"random": n, "problem": "public name not classified by the translator"})
    # manual_seed's two calls act on exactly those two objects
    cases += 2
    if getattr(pyrandom.seed, "__self__", None) is not pyrandom._inst:
        mism.append({"random.seed": "not bound to random._inst"})
    st0 = glob.get_state()[1][:4].tolist()
    np.random.seed(12345)
    st1 = glob.get_state()[1][:4].tolist()
    np.random.seed(12345)
    st2 = glob.get_state()[1][:4].tolist()
    if st1 != st2 or st0 == st1:
        mism.append({"numpy.random.seed": "does not set the state of the global RandomState deterministically"})
    return cases, cases, mism


# ---------------------------------------------------------------------------------------------- unit snippets
UNIT = [
    # (name, source, expected draws [(fn, class, use)], expected set uses [(var, kind)])
    ("plain", "import numpy as np\ndef f():\n    return np.random.rand(3)\n", [("rand", "GlobalNumpy", "NotHash")], []),
    ("alias-module", "import numpy.random as npr\ndef f():\n    return npr.randn(3)\n", [("randn", "GlobalNumpy", "NotHash")], []),
    ("from-numpy-import-random", "from numpy import random as R\nx = R.normal(0, 1)\n", [("normal", "GlobalNumpy", "NotHash")], []),
    ("from-import-fn-alias", "from numpy.random import shuffle as sh\ndef f(a):\n    sh(a)\n", [("shuffle", "GlobalNumpy", "NotHash")], []),
    ("assigned-alias", "import numpy as np\nrs = np.random\ndef f():\n    return rs.uniform()\n", [("uniform", "GlobalNumpy", "NotHash")], []),
    ("local-import", "def f(a):\n    import random\n    random.shuffle(a)\n", [("shuffle", "GlobalPython", "NotHash")], []),
    ("py-from-import", "from random import shuffle\ndef f(a):\n    shuffle(a)\n", [("shuffle", "GlobalPython", "NotHash")], []),
    ("param-shadows-module", "import random\ndef f(random, a):\n    random.shuffle(a)\n    return random.random()\n", [], []),
    ("local-shadows-module", "import random\ndef f(a):\n    random = a\n    return random.random()\n", [], []),
    ("attribute-named-random", "class A:\n    def f(self):\n        return self.random.rand(3) + self.time.time()\n", [], []),
    ("variable-named-random_data", "import numpy as np\ndef f(x):\n    random_data = np.where(x, 0, 1)\n    return random_data\n", [], []),
    ("default_rng", "import numpy as np\ndef f():\n    return np.random.default_rng().random(3)\n", [("default_rng", "LocalGenerator", "NotHash")], []),
    ("default_rng-from", "from numpy.random import default_rng\ng = default_rng(0)\n", [("default_rng", "LocalGenerator", "NotHash")], []),
    ("RandomState", "import numpy as np\nr = np.random.RandomState(1)\n", [("RandomState", "LocalGenerator", "NotHash")], []),
    ("random.Random", "import random\nr = random.Random()\nr.shuffle([1])\n", [("Random", "LocalGenerator", "NotHash")], []),
    ("urandom", "import os\nb = os.urandom(4)\n", [("urandom", "OsEntropy", "NotHash")], []),
    ("urandom-from", "from os import urandom as u\nb = u(4)\n", [("urandom", "OsEntropy", "NotHash")], []),
    ("os-other", "import os\nb = os.getcwd()\n", [], []),
    ("time.time", "import time\nt = int(time.time())\n", [("time", "Clock", "NotHash")], []),
    ("from-time", "from time import time as now\nt = now()\n", [("time", "Clock", "NotHash")], []),
    ("datetime.now", "from datetime import datetime\nt = datetime.now()\n", [("now", "Clock", "NotHash")], []),
    ("datetime-pure", "import datetime\nd = datetime.timedelta(1)\n", [], []),
    ("uuid", "import uuid\nu = uuid.uuid4()\n", [("uuid4", "OsEntropy", "NotHash")], []),
    ("secrets", "import secrets\nu = secrets.token_bytes(4)\n", [("token_bytes", "OsEntropy", "NotHash")], []),
    ("importlib-const", "import importlib\nR = importlib.import_module('random')\ndef f():\n    return R.random()\n", [("random", "GlobalPython", "NotHash")], []),
    ("reference-not-call", "import numpy as np\ndef f(n):\n    return list(map(np.random.rand, range(n)))\n", [("rand", "GlobalNumpy", "NotHash")], []),
    ("id-dedup", "def f(ps):\n    seen = set()\n    return [p for p in ps if not (id(p) in seen or seen.add(id(p)))]\n",
     [("id", "AddressOrHash", "DedupKey"), ("id", "AddressOrHash", "DedupKey")], [("seen", "Membership"), ("seen", "Add")]),
    ("id-label", "def f(n):\n    return str(id(n)) + f'{id(n)}'\n", [("id", "AddressOrHash", "Label"), ("id", "AddressOrHash", "Label")], []),
    ("id-value", "def f(xs):\n    return sorted(xs, key=lambda t: id(t))\n", [("id", "AddressOrHash", "Value")], []),
    ("id-as-key-function", "def f(xs):\n    xs.sort(key=id)\n", [("id", "AddressOrHash", "Value")], []),
    ("hash-value", "def f(x):\n    return hash(x) % 7\n", [("hash", "AddressOrHash", "Value")], []),
    ("id-shadowed", "def id(x):\n    return 0\ndef f(x):\n    return id(x)\n", [], []),
    ("set-iterate-for", "def f(a):\n    s = {a}\n    s.add(1)\n    for x in s:\n        print(x)\n", [], [("s", "Add"), ("s", "Iterate")]),
    ("set-list", "def f(ps):\n    return list(set(ps))\n", [], [("<anon>", "Iterate")]),
    ("set-return", "def f():\n    s = set()\n    return s\n", [], [("s", "Escape")]),
    ("set-tuple-return-and-caller", "def t():\n    a, b = set(), set()\n    a.add(1)\n    return a, b\ndef d():\n    n, e = t()\n    for x in n:\n        pass\n",
     [], [("a", "Add"), ("a", "Escape"), ("b", "Escape"), ("n", "Iterate")]),
    ("set-closure", "def t(r):\n    seen = set()\n    def go(n):\n        if n not in seen:\n            seen.add(n)\n    go(r)\n",
     [], [("seen", "Membership"), ("seen", "Add")]),
    ("set-attr", "class A:\n    def __init__(self):\n        self.s = set()\n", [], [("<anon>", "Escape")]),
    ("set-pop", "def f():\n    s = {1, 2}\n    return s.pop()\n", [], [("s", "Iterate")]),
    ("set-len", "def f(x):\n    s = set(x)\n    if s:\n        return len(s)\n", [], [("s", "Size"), ("s", "Size")]),
    ("set-star", "def f(x):\n    s = frozenset(x)\n    return [*s]\n", [], [("s", "Iterate")]),
    ("set-comp-over", "def f(x):\n    s = {y for y in x}\n    return [z for z in s]\n", [], [("s", "Iterate")]),
    ("set-passed", "def f(x, g):\n    s = set(x)\n    g(s)\n", [], [("s", "Escape")]),
    ("set-np-array", "import numpy as np\ndef f(x):\n    s = set(x)\n    return np.array(list(s))\n", [], [("s", "Iterate")]),
    ("set-algebra", "def f(a, b):\n    s = set(a)\n    t = s | set(b)\n    return sum(t)\n", [], [("s", "OtherUse"), ("<anon>", "OtherUse"), ("t", "Iterate")]),
    ("set-membership-literal", "def f(x):\n    return x in {'a', 'b'}\n", [], [("<anon>", "Membership")]),
    ("dict-not-set", "def f():\n    d = {}\n    e = {'a': 1}\n    return d, e\n", [], []),
    ("set-shadow-builtin", "def set(x):\n    return x\ndef f(a):\n    s = set(a)\n    for x in s:\n        pass\n", [], []),
]

# (name, source, expected sort rows [(has_key, elems)], expected order_defs [method])
UNIT_SORTS = [
    ("sorted-guarded-axes", "def f(a, axes):\n    return sorted(ax + a.ndim if ax < 0 else ax for ax in axes)\n", [(False, "ElemsNumeric")], []),
    ("sorted-renamed", "def f(a, axes):\n    return sorted(d + a.ndim if d < 0 else d for d in axes)\n", [(False, "ElemsNumeric")], []),
    ("sorted-mod", "def f(n, dims):\n    return sorted([d % n for d in dims])\n", [(False, "ElemsUnknown")], []),     # str % x is formatting
    ("sorted-len-mod", "def f(x, dims):\n    return sorted([len(x) % d for d in dims])\n", [(False, "ElemsNumeric")], []),
    ("sorted-plus-ndim", "def f(a, dims):\n    return sorted(d + a.ndim for d in dims)\n", [(False, "ElemsNumeric")], []),
    ("sorted-times-int", "def f(dims):\n    return sorted(d * 2 for d in dims)\n", [(False, "ElemsUnknown")], []),          # list * 2 is a list
    ("sorted-range", "def f(n):\n    return sorted(range(n))\n", [(False, "ElemsNumeric")], []),
    ("sorted-literals", "def f(a):\n    return sorted([3, 1, len(a), a.shape[0]])\n", [(False, "ElemsNumeric")], []),
    ("sorted-bare-names", "def f(xs):\n    return sorted(x for x in xs)\n", [(False, "ElemsUnknown")], []),
    ("sorted-name", "def f(params):\n    return sorted(params)\n", [(False, "ElemsUnknown")], []),
    ("sorted-guard-not-first", "def f(xs, g):\n    return sorted(x if g and x < 0 else x for x in xs)\n", [(False, "ElemsUnknown")], []),
    ("sorted-guard-eq", "def f(xs):\n    return sorted(x if x == 0 else x for x in xs)\n", [(False, "ElemsUnknown")], []),  # == never raises
    ("sorted-guard-chain", "def f(xs, y):\n    return sorted(x if y < x < 0 else x for x in xs)\n", [(False, "ElemsUnknown")], []),
    ("sorted-one-branch", "def f(a, xs):\n    return sorted(x + a.ndim if a else x for x in xs)\n", [(False, "ElemsUnknown")], []),
    ("sorted-walrus", "def f(xs, o):\n    return sorted((x if x < 0 else (x := o)) for x in xs)\n", [(False, "ElemsUnknown")], []),
    ("sorted-key", "def f(ps):\n    return sorted(ps, key=lambda p: p.name)\n", [(True, "ElemsUnknown")], []),
    ("sorted-key-none", "def f(ps):\n    return sorted(ps, key=None)\n", [(False, "ElemsUnknown")], []),
    ("list-sort", "def f(ps):\n    ps.sort()\n", [(False, "ElemsUnknown")], []),
    ("list-sort-key", "def f(ps):\n    ps.sort(key=len, reverse=True)\n", [(True, "ElemsUnknown")], []),
    ("np-sort", "import numpy as np\ndef f(a):\n    return np.sort(a)\n", [], []),
    ("class-lt", "class A:\n    def __lt__(self, o):\n        return id(self) < id(o)\n", [], ["__lt__"]),
    ("total-ordering", "from functools import total_ordering\n@total_ordering\nclass A:\n    def __le__(self, o):\n        return True\n", [], ["@total_ordering", "__le__"]),
]

# (name, source, expected empty_use rows [(attr, initialised)])
_HDR = "import synapgrad\nfrom synapgrad import nn\nfrom synapgrad.nn import init\n"
UNIT_EMPTY = [
    ("direct-param", _HDR + "class L(nn.Module):\n    def __init__(self, n):\n        super().__init__()\n        self.w = nn.Parameter(synapgrad.empty((n,)))\n        self.reset()\n    def reset(self):\n        init.ones_(self.w)\n", [("w", True)]),
    ("via-local", _HDR + "class L(nn.Module):\n    def __init__(self, n):\n        super().__init__()\n        w = synapgrad.empty((n,))\n        self.w = nn.Parameter(w)\n        init.zeros_(self.w)\n", [("w", True)]),
    ("bias-notnone", _HDR + "class L(nn.Module):\n    def __init__(self, n, bias=True):\n        super().__init__()\n        if bias:\n            bias = synapgrad.empty((n,))\n            self.bias = nn.Parameter(bias)\n        else:\n            self.bias = None\n        self.reset()\n    def reset(self):\n        if self.bias is not None:\n            nn.init.uniform_(self.bias, -1, 1)\n", [("bias", True)]),
    ("same-flag", _HDR + "class B(nn.Module):\n    def __init__(self, n, affine=True):\n        super().__init__()\n        self.affine = affine\n        if affine:\n            self.g = nn.Parameter(synapgrad.empty(n))\n            self.reset()\n    def reset(self):\n        if self.affine:\n            init.ones_(self.g)\n", [("g", True)]),
    ("same-flag-two-ifs", _HDR + "class B(nn.Module):\n    def __init__(self, n, affine=True):\n        super().__init__()\n        if affine:\n            self.g = synapgrad.empty(n)\n        if affine:\n            init.ones_(self.g)\n", [("g", True)]),
    ("r3m1-shape", _HDR + "class B(nn.Module):\n    def __init__(self, n, affine=True, track=True):\n        super().__init__()\n        self.affine = affine\n        self.track = track\n        if self.track:\n            self.rm = synapgrad.empty(n)\n        else:\n            self.rm = None\n        if affine:\n            self.g = nn.Parameter(synapgrad.empty(n))\n            self.reset()\n    def reset_stats(self):\n        if self.track:\n            init.zeros_(self.rm)\n    def reset(self):\n        self.reset_stats()\n        if self.affine:\n            init.ones_(self.g)\n", [("rm", False), ("g", True)]),
    ("r3m1-repaired", _HDR + "class B(nn.Module):\n    def __init__(self, n, affine=True, track=True):\n        super().__init__()\n        self.affine = affine\n        self.track = track\n        if self.track:\n            self.rm = synapgrad.empty(n)\n        else:\n            self.rm = None\n        if affine:\n            self.g = nn.Parameter(synapgrad.empty(n))\n        self.reset()\n    def reset_stats(self):\n        if self.track:\n            init.zeros_(self.rm)\n    def reset(self):\n        self.reset_stats()\n        if self.affine:\n            init.ones_(self.g)\n", [("rm", True), ("g", True)]),
    ("never-reset", _HDR + "class L(nn.Module):\n    def __init__(self, n):\n        super().__init__()\n        self.w = nn.Parameter(synapgrad.empty((n,)))\n", [("w", False)]),
    ("reset-before-alloc", _HDR + "class L(nn.Module):\n    def __init__(self, n):\n        super().__init__()\n        self.w = None\n        self.reset()\n        self.w = nn.Parameter(synapgrad.empty((n,)))\n    def reset(self):\n        init.ones_(self.w)\n", [("w", False)]),
    ("other-attr-reset", _HDR + "class L(nn.Module):\n    def __init__(self, n):\n        super().__init__()\n        self.w = synapgrad.empty((n,))\n        self.v = synapgrad.empty((n,))\n        init.ones_(self.w)\n", [("w", True), ("v", False)]),
    ("opaque-guard", _HDR + "class L(nn.Module):\n    def __init__(self, n, mode):\n        super().__init__()\n        self.w = synapgrad.empty((n,))\n        if mode == 'x':\n            init.ones_(self.w)\n", [("w", False)]),
    ("flag-rebound", _HDR + "class L(nn.Module):\n    def __init__(self, n, affine):\n        super().__init__()\n        if affine:\n            self.w = synapgrad.empty((n,))\n        affine = n > 3\n        if affine:\n            init.ones_(self.w)\n", [("w", False)]),
    ("flag-reassigned-elsewhere", _HDR + "class L(nn.Module):\n    def __init__(self, n, affine):\n        super().__init__()\n        self.affine = affine\n        if affine:\n            self.w = synapgrad.empty((n,))\n            self.fix()\n            self.reset()\n    def fix(self):\n        self.affine = False\n    def reset(self):\n        if self.affine:\n            init.ones_(self.w)\n", [("w", False)]),
    ("early-return", _HDR + "class L(nn.Module):\n    def __init__(self, n, lazy):\n        super().__init__()\n        self.w = synapgrad.empty((n,))\n        if lazy:\n            return\n        init.ones_(self.w)\n", [("w", False)]),
    ("overridden-reset", _HDR + "class L(nn.Module):\n    def __init__(self, n):\n        super().__init__()\n        self.w = synapgrad.empty((n,))\n        self.reset()\n    def reset(self):\n        init.ones_(self.w)\nclass M(L):\n    def reset(self):\n        pass\n", [("w", False)]),
    ("partial-init-fn", _HDR + "class L(nn.Module):\n    def __init__(self, n):\n        super().__init__()\n        self.w = synapgrad.empty((n,))\n        init._calculate_fan_in_and_fan_out(self.w)\n", [("w", False)]),
    ("data-assignment", _HDR + "import numpy as np\nclass L(nn.Module):\n    def __init__(self, n):\n        super().__init__()\n        self.w = synapgrad.empty((n,))\n        self.w.data = np.zeros((n,))\n", [("w", True)]),
    ("outside-constructor", _HDR + "def f(n):\n    return synapgrad.empty((n,)) * 2\n", [("", False)]),
    ("in-loop", _HDR + "class L(nn.Module):\n    def __init__(self, n):\n        super().__init__()\n        for i in range(2):\n            self.w = synapgrad.empty((n,))\n        init.ones_(self.w)\n", [("", False)]),
    ("aliased-import", "from synapgrad import empty as mk\nfrom synapgrad.nn import init\nclass L:\n    def __init__(self, n):\n        self.w = mk((n,))\n        init.ones_(self.w)\n", [("w", True)]),
    ("else-branch", _HDR + "class L(nn.Module):\n    def __init__(self, n, affine):\n        super().__init__()\n        if affine:\n            self.w = None\n        else:\n            self.w = synapgrad.empty((n,))\n        if not affine:\n            init.ones_(self.w)\n", [("w", True)]),
    ("wrong-polarity", _HDR + "class L(nn.Module):\n    def __init__(self, n, affine):\n        super().__init__()\n        if not affine:\n            self.w = synapgrad.empty((n,))\n        if affine:\n            init.ones_(self.w)\n", [("w", False)]),
]

UNIT_RAISES = [
    ("star-import", "from numpy.random import *\nx = rand(3)\n"),
    ("syntax-error", "def f(:\n"),
    ("module-as-value", "import numpy as np\ndef f(g):\n    return g(np.random)\n"),
    ("dynamic-import", "import importlib\ndef f(n):\n    m = importlib.import_module(n)\n    return m\nx = f('random')\n"),
    ("unknown-member", "import numpy as np\nx = np.random.frobnicate()\n"),
    ("getattr-on-module", "import random\nf = getattr(random, 'shuffle')\n"),
]


def unit_cases():
    from lib.py2coq import gen_census as G
    mism = []
    for name, src, exp_draws, exp_uses in UNIT:
        try:
            rows = G.FileCensus("unit.py", "synapgrad", src).run()
        except Exception as ex:
            mism.append({"unit": name, "raised": repr(ex)[:200]})
            continue
        got_d = sorted((r["fn"], r["class"], r["use"]) for r in rows["draws"])
        got_u = sorted((r["var"], r["kind"]) for r in rows["set_uses"])
        if got_d != sorted(exp_draws) or got_u != sorted(exp_uses):
            mism.append({"unit": name, "expected": [sorted(exp_draws), sorted(exp_uses)], "got": [got_d, got_u]})
    for name, src, exp_sorts, exp_orders in UNIT_SORTS:
        try:
            rows = G.FileCensus("unit.py", "synapgrad", src).run()
        except Exception as ex:
            mism.append({"unit": name, "raised": repr(ex)[:200]})
            continue
        got_s = sorted((r["has_key"], r["elems"]) for r in rows["sorts"])
        got_o = sorted(r["method"] for r in rows["order_defs"])
        if got_s != sorted(exp_sorts) or got_o != sorted(exp_orders):
            mism.append({"unit": name, "expected": [sorted(exp_sorts), sorted(exp_orders)], "got": [got_s, got_o]})
    saved = set(G.FULL_INITS)
    G.FULL_INITS.update("synapgrad.nn.init." + n for n in ("ones_", "zeros_", "uniform_", "normal_", "constant_"))
    for name, src, exp in UNIT_EMPTY:
        try:
            rows = G.FileCensus("unit.py", "synapgrad", src).run()
        except Exception as ex:
            mism.append({"unit": name, "raised": repr(ex)[:200]})
            continue
        got = sorted((r["attr"], r["initialised"]) for r in rows["empty_uses"])
        if got != sorted(exp):
            mism.append({"unit": name, "expected": sorted(exp), "got": got, "how": [r["how"] for r in rows["empty_uses"]]})
    G.FULL_INITS.clear(); G.FULL_INITS.update(saved)
    # full_inits on synthetic init modules
    import ast as _ast
    fi = G.full_inits(_ast.parse("def a_(t):\n    t.data = 1\n    return t\ndef b_(t, g=1):\n    if g < 0:\n        raise ValueError\n    return a_(t, g)\n"
                                 "def c_(t, g):\n    if g:\n        return t\n    t.data = 0\ndef d_(t):\n    t.data[0] = 1\ndef e_(t, u):\n    u.data = 1\ndef _f_(t):\n    t.data = 1\n"))
    if fi != {"synapgrad.nn.init.a_", "synapgrad.nn.init.b_"}:
        mism.append({"unit": "full_inits", "got": sorted(fi)})
    for name, src in UNIT_RAISES:
        try:
            G.FileCensus("unit.py", "synapgrad", src).run()
            mism.append({"unit": name, "expected": "Unclassifiable", "got": "accepted"})
        except G.Unclassifiable:
            pass
        except Exception as ex:
            mism.append({"unit": name, "expected": "Unclassifiable", "got": repr(ex)[:200]})
    # the token scan on the same snippets must find every non-alias draw the AST finds (and vice versa)
    n = len(UNIT) + len(UNIT_SORTS) + len(UNIT_EMPTY) + 1 + len(UNIT_RAISES)
    return n, n, mism
