"""Stand-alone probes run in subprocesses by checks/c17.py (a crash, a RecursionError or a run that never finishes must not
take the check down).  Every probe prints one line `PROBE <json>`.

  python -m lib.engine_probe chain <n> <variant>      deep chain, the chain carried by a given operand position
  python -m lib.engine_probe diamond <depth> <variant> reconvergent graph (stacked diamonds): work must stay linear
  python -m lib.engine_probe untracked <iters> <mode>  untracked update loop, weak references to earlier iterates
  python -m lib.engine_probe catalog                   every op of lib/opcatalog.py used without tracking keeps nothing
"""
import gc, json, sys, time, weakref


class WorkBound(Exception):
    pass


def instrument(impl, limit_factor=50):
    """Count, from outside, closure invocations, created closures and Tensor.zero_ calls.  `bound[0]` may be set to the
    linear bound; exceeding limit_factor * bound aborts the run (no need to wait for 2^60 steps)."""
    BF = impl.TF.BackwardFunction
    T = impl.synapgrad.Tensor
    st = {"calls": {}, "ncalls": 0, "created": 0, "zero": 0, "bound": None, "eq": 0, "hash": 0, "count_cmp": False}

    def t_eq(self, other):
        if st["count_cmp"]:
            st["eq"] += 1
            if st["bound"] is not None and st["eq"] > limit_factor * st["bound"]:
                raise WorkBound("more than %d x the linear bound %d tensor comparisons (==)" % (limit_factor, st["bound"]))
        return self is other

    def t_hash(self):
        if st["count_cmp"]:
            st["hash"] += 1
            if st["bound"] is not None and st["hash"] > limit_factor * st["bound"]:
                raise WorkBound("more than %d x the linear bound %d tensor hash calls" % (limit_factor, st["bound"]))
        return id(self) >> 4
    T.__eq__, T.__hash__ = t_eq, t_hash
    orig_call, orig_init, orig_zero = BF.__call__, BF.__init__, T.zero_

    def call(self):
        st["calls"][id(self)] = st["calls"].get(id(self), 0) + 1
        st["ncalls"] += 1
        if st["bound"] is not None and st["ncalls"] > limit_factor * st["bound"]:
            raise WorkBound("more than %d x the linear bound %d closure calls" % (limit_factor, st["bound"]))
        return orig_call(self)

    def init(self, *a, **k):
        st["created"] += 1
        return orig_init(self, *a, **k)

    def zero(self):
        st["zero"] += 1
        if st["bound"] is not None and st["zero"] > limit_factor * st["bound"]:
            raise WorkBound("more than %d x the linear bound %d calls of Tensor.zero_" % (limit_factor, st["bound"]))
        return orig_zero(self)
    BF.__call__, BF.__init__, T.zero_ = call, init, zero
    return st


def linear_bound(root):
    """sum over the tensors reachable from root of (1 + number of operands)  - the bound of theorems ordering_loop_linear /
    zero_calls_linear, computed by our own walk with a visited set."""
    seen, todo, total, fns = {id(root)}, [root], 0, 0
    while todo:
        n = todo.pop()
        total += 1 + len(n._children)
        fns += 1 if n.grad_fn is not None else 0
        for c in n._children:
            if id(c) not in seen:
                seen.add(id(c)); todo.append(c)
    return total, fns


def finish(res, st, root, x, expected, seed=None, fail_first=False, extra_leaves=None):
    from lib import impl
    sg, np = impl.synapgrad, impl.np
    bound, fns = linear_bound(root)
    st["bound"] = bound
    res.update(bound=bound, closures=fns)
    t1 = time.time()
    try:
        if fail_first:
            # a call that fails (gradient of the wrong shape) and is caught; the next, correct, call must behave as if it never happened
            for _ in range(2):
                try:
                    root.backward(sg.Tensor(np.ones(tuple(root.data.shape) + (2,))))
                except RuntimeError as ex:
                    if isinstance(ex, WorkBound):
                        raise
                else:
                    raise AssertionError("backward accepted a gradient of the wrong shape")
            st["calls"].clear(); st["ncalls"] = 0; st["zero"] = 0
            res["failed_calls_first"] = 2
        st["count_cmp"] = True
        if seed is None:
            root.backward()
        else:
            root.backward(sg.Tensor(seed))
        g = np.asarray(x._grad, dtype=np.float64).reshape(-1)
        e = np.asarray(expected, dtype=np.float64).reshape(-1)
        st["count_cmp"] = False
        exact = bool((g == e).all())
        if extra_leaves:
            exact = exact and all(p._grad is not None and bool((np.asarray(p._grad) == val).all()) for p, val in extra_leaves)
        res.update(tensor_eq_calls=st["eq"], tensor_hash_calls=st["hash"])
        res.update(ok=True, grad=[float(v) for v in g[:4]], expected=[float(v) for v in e[:4]], grad_exact=exact,
                   calls=len(st["calls"]), max_calls=max(st["calls"].values()) if st["calls"] else 0, zero_calls=st["zero"],
                   backward_s=round(time.time() - t1, 2))
    except BaseException as ex:
        st["count_cmp"] = False
        res.update(ok=False, error="%s: %s" % (type(ex).__name__, str(ex)[:200]), zero_calls=st["zero"], calls=len(st["calls"]),
                   tensor_eq_calls=st["eq"], tensor_hash_calls=st["hash"])
    return res


CHAIN_VARIANTS = ["first_mul", "second_mul", "second_add", "alternating", "unary", "matmul_right", "matmul_left",
                  "addmm_first", "addmm_second", "addmm_third", "concat_second", "concat_first", "stack_second", "tensor_scalar_mix"]


def chain(n, variant, fail_first=False):
    from lib import impl
    sg, np, TF = impl.synapgrad, impl.np, impl.TF
    st = instrument(impl)
    C = lambda a: sg.Tensor(np.array(a, dtype=np.float64))
    res = {"kind": "chain", "n": n, "variant": variant}
    t0 = time.time()
    if variant in ("matmul_right", "matmul_left", "addmm_first", "addmm_second", "addmm_third"):
        P = np.array([[0.0, 1.0], [1.0, 0.0]]); D = np.array([[1.0, 0.0], [0.0, -1.0]])
        Ws = [P, D]
        if variant in ("matmul_right", "addmm_third"):
            x = sg.Tensor(np.array([[1.0], [2.0]]), requires_grad=True)      # column state, h = W @ h
        else:
            x = sg.Tensor(np.array([[1.0, 2.0]]), requires_grad=True)        # row state, h = h @ W
        J = np.eye(2)                                                        # d vec(h) / d vec(x)
        h = x
        zero_col, zero_row = np.zeros((2, 1)), np.zeros((1, 2))
        for i in range(n):
            W = Ws[i % 2]
            if variant == "matmul_right":
                h = TF.matmul(C(W), h); J = W @ J
            elif variant == "matmul_left":
                h = TF.matmul(h, C(W)); J = W.T @ J
            elif variant == "addmm_third":
                h = TF.addmm(C(zero_col), C(W), h); J = W @ J
            elif variant == "addmm_second":
                h = TF.addmm(C(zero_row), h, C(W)); J = W.T @ J
            else:   # addmm_first: the state is the additive term
                h = TF.addmm(h, C(zero_row), C(W))
        seed = np.array([[1.0], [3.0]]) if h.data.shape == (2, 1) else np.array([[1.0, 3.0]])
        expected = (J.T @ seed.reshape(2, 1)).reshape(x.data.shape)
        res["build_s"] = round(time.time() - t0, 2)
        return finish(res, st, h, x, expected, seed, fail_first=fail_first)
    x = sg.Tensor(np.array([1.0]), requires_grad=True)
    y, d = x, 1.0
    for i in range(n):
        w = -1.0 if i % 2 else 1.0
        if variant == "first_mul":
            y = TF.mul(y, C([w])); d *= w
        elif variant == "second_mul":
            y = TF.mul(C([w]), y); d *= w
        elif variant == "second_add":
            y = TF.add(C([w]), y)
        elif variant == "alternating":
            y = TF.mul(C([w]), y) if i % 3 == 0 else (TF.add(y, C([w])) if i % 3 == 1 else TF.mul(y, C([w])))
            d *= 1.0 if i % 3 == 1 else w
        elif variant == "unary":
            y = TF.neg(y) if i % 2 else y.clone(); d *= -1.0 if i % 2 else 1.0
        elif variant == "concat_second":
            y = TF.concat([C([w]), y], 0)[1:]
        elif variant == "concat_first":
            y = TF.concat([y, C([w])], 0)[:1]
        elif variant == "stack_second":
            y = TF.stack([C([w]), y], 0)[1]
        elif variant == "tensor_scalar_mix":
            if i % 97 == 96:
                y = y + x; d += 1.0
            elif i % 2:
                y = -1.0 * y; d = -d
            else:
                y = 1.0 + y
        else:
            raise ValueError(variant)
    res["build_s"] = round(time.time() - t0, 2)
    res = finish(res, st, y, x, [d], fail_first=fail_first)
    if res.get("ok"):
        try:
            y.backward()          # a second call accumulates; every closure has now run exactly twice
            res["grad_after_second_call"] = float(x._grad[0])
            res["calls_after_second_call"] = sorted(set(st["calls"].values()))
        except BaseException as ex:
            res.update(ok=False, error="second call: %s: %s" % (type(ex).__name__, str(ex)[:200]))
    return res


DIAMOND_VARIANTS = ["const_w", "param_w", "triple", "matmul"]


def diamond(depth, variant, fail_first=False):
    """depth stacked blocks, every block uses the previous state twice (2^depth paths, 2*depth ops)."""
    from lib import impl
    sg, np, TF = impl.synapgrad, impl.np, impl.TF
    st = instrument(impl)
    res = {"kind": "diamond", "depth": depth, "variant": variant, "paths": "2^%d" % depth}
    if variant == "matmul":
        x = sg.Tensor(np.array([[1.0, 0.0], [0.0, 1.0]]), requires_grad=True)
        h = x
        for i in range(depth):
            h = TF.matmul(h, h)              # x^(2^depth) at x = I: d sum(h)/dx = 2^depth * ones
        return finish(res, st, h, x, (2.0 ** depth) * np.ones((2, 2)), np.ones((2, 2)), fail_first=fail_first)
    x = sg.Tensor(np.array([1.0]), requires_grad=True)
    w = sg.Tensor(np.array([1.0]), requires_grad=(variant == "param_w"))
    h = x
    for i in range(depth):
        if variant == "triple":
            h = h + h * w + h * 0.0          # the state is used three times; 3^depth paths, factor 2 per block
        else:
            h = h + h * w                    # the state is used twice
    return finish(res, st, h, x, [2.0 ** depth], fail_first=fail_first)


WIDE_VARIANTS = ["chain_params", "sum_leaves", "concat_leaves", "shared_params"]


def wide(n, variant):
    """graphs WIDE in distinct requires-grad leaves: the work of backward must stay linear in nodes + edges, in particular the
    number of tensor comparisons / hash calls (counted from outside through Tensor.__eq__ / __hash__)."""
    from lib import impl
    sg, np, TF = impl.synapgrad, impl.np, impl.TF
    st = instrument(impl)
    res = {"kind": "wide", "n": n, "variant": variant}
    x = sg.Tensor(np.array([1.0]), requires_grad=True)
    ps = [sg.Tensor(np.array([float(i % 3)]), requires_grad=True) for i in range(n)]
    a = sg.Tensor(np.array([1.0]))
    if variant == "chain_params":          # h = h*a + p_i
        h = x
        for p in ps:
            h = h * a + p
        extra = [(p, 1.0) for p in ps]
    elif variant == "sum_leaves":          # x + p_0 + p_1 + ...
        h = x
        for p in ps:
            h = h + p
        extra = [(p, 1.0) for p in ps]
    elif variant == "concat_leaves":       # one op with n+1 operands
        h = TF.concat([x] + ps, 0).sum()
        extra = [(p, 1.0) for p in ps]
    else:                                  # every parameter used twice, far apart
        h = x
        for p in ps:
            h = h + p
        for p in ps:
            h = h + p * a
        extra = [(p, 2.0) for p in ps]
    return finish(res, st, h, x, [1.0], extra_leaves=extra)


def untracked(iters, mode):
    """p <- p - lr * g repeated; mode 'no_grad': tracked operands inside no_grad; 'plain': operands that do not require grad;
    'tracked': control (history must be kept); 'concat_param' / 'stack_param' / 'unbind_param': list / multi-output ops under
    no_grad with an operand (a parameter) that itself requires grad."""
    from lib import impl
    sg, np, TF = impl.synapgrad, impl.np, impl.TF
    param = sg.Tensor(np.array([0.5, 0.25]), requires_grad=True)
    p = sg.Tensor(np.array([1.0, 2.0]), requires_grad=(mode not in ("plain",)))
    g = sg.Tensor(np.array([0.5, 0.25]), requires_grad=False)
    refs = []
    children_empty = True
    req_false = True
    for i in range(iters):
        if mode == "no_grad":
            with sg.no_grad():
                q = p - g * 0.5
        elif mode == "concat_param":
            with sg.no_grad():
                q = TF.concat([p, param], 0)[-2:]
        elif mode == "concat_traj":
            with sg.no_grad():
                q = TF.concat([p, param], 0)          # traj = concat([traj, param]): the trajectory grows, earlier ones must die
        elif mode == "stack_param":
            with sg.no_grad():
                q = TF.stack([p, param], 0)[1] + 0.0
        elif mode == "unbind_param":
            with sg.no_grad():
                q = TF.unbind(TF.stack([p, param], 0), 0)[0]
        else:
            q = p - g * 0.5
        refs.append(weakref.ref(p))
        children_empty = children_empty and q._children == ()
        req_false = req_false and (not q.requires_grad) and q.grad_fn is None
        p = q
    if mode.startswith("ctx_"):
        return context_loop(iters, mode)
    gc.collect()
    alive = sum(1 for r in refs if r() is not None)
    return {"kind": "untracked", "mode": mode, "iterations": iters, "earlier_operands_alive": alive, "children_empty": children_empty,
            "results_untracked": req_false}


CONTEXT_MODES = ["ctx_nested_distinct", "ctx_shared_reentered", "ctx_nograd_in_retain", "ctx_retain_in_nograd", "ctx_exception_inside",
                 "ctx_shared_reentered_exception"]


def context_loop(iters, mode):
    """acc = acc*0.5 + w (w requires grad) repeated inside a no_grad block that is combined with other context managers the way
    user code does: nested distinct instances, ONE shared instance re-entered by a helper while it is active, no_grad inside
    retain_grads and vice versa, an exception raised and caught inside the block.  Everything computed inside the OUTER block
    is untracked: results keep nothing, earlier iterates are collected, and the modes are restored afterwards."""
    from lib import impl
    sg, np = impl.synapgrad, impl.np
    impl.reset_modes()
    w = sg.Tensor(np.array([0.5, 0.25]), requires_grad=True)
    acc = sg.Tensor(np.array([1.0, 2.0]), requires_grad=True)
    refs, flags = [], {"children_empty": True, "untracked": True, "mode_inside_ok": True}

    def note(q, p):
        refs.append(weakref.ref(p))
        flags["children_empty"] = flags["children_empty"] and q._children == ()
        flags["untracked"] = flags["untracked"] and (not q.requires_grad) and q.grad_fn is None
        flags["mode_inside_ok"] = flags["mode_inside_ok"] and (impl.grad_mode() is False)

    guard = sg.no_grad()

    def helper_shared(x):
        with guard:                      # the same instance, already active in the caller
            return x * 0.5

    def helper_distinct(x):
        with sg.no_grad():
            return x * 0.5

    def body(step):
        nonlocal acc
        for i in range(iters):
            q = step(acc)
            note(q, acc)
            acc = q

    if mode == "ctx_nested_distinct":
        with sg.no_grad():
            body(lambda a: helper_distinct(a) + w)
    elif mode == "ctx_shared_reentered":
        with guard:
            body(lambda a: helper_shared(a) + w)
    elif mode == "ctx_nograd_in_retain":
        with sg.retain_grads():
            with sg.no_grad():
                body(lambda a: a * 0.5 + w)
    elif mode == "ctx_retain_in_nograd":
        with sg.no_grad():
            with sg.retain_grads():
                body(lambda a: helper_distinct(a) + w)
    elif mode in ("ctx_exception_inside", "ctx_shared_reentered_exception"):
        g2 = guard if mode == "ctx_shared_reentered_exception" else sg.no_grad()

        def step(a):
            try:
                with g2:
                    raise ValueError("inside the block")
            except ValueError:
                pass
            return a * 0.5 + w
        with guard:
            body(step)
    else:
        raise ValueError(mode)
    restored = impl.grad_mode() is True and impl.retain_mode() is False
    gc.collect()
    alive = sum(1 for r in refs[1:] if r() is not None)       # refs[0] is the caller's own first tensor
    impl.reset_modes()
    return {"kind": "untracked", "mode": mode, "iterations": iters, "earlier_operands_alive": alive, "children_empty": flags["children_empty"],
            "results_untracked": flags["untracked"], "tracking_off_inside_block": flags["mode_inside_ok"], "modes_restored_after": restored}


def catalog():
    """Every op of lib/opcatalog.py computed without tracking - (a) under no_grad() with operands that require grad,
    (b) with grad mode on from operands that do not require grad - yields results with _children == (), grad_fn None,
    requires_grad False, and does not keep its operands alive."""
    import random
    from lib import impl, opcatalog
    sg, np = impl.synapgrad, impl.np
    rng = random.Random(17)
    bad = []
    n = 0
    for op in opcatalog.catalog(impl):
        for mode in ("no_grad+requiring operands", "grad mode on, non-requiring operands"):
            n += 1
            try:
                arrs = [opcatalog.make_operand(impl, rng, spec, np.float64) for spec in op.operands]
                ops = [sg.Tensor(a, requires_grad=(mode.startswith("no_grad") and spec[2])) for a, spec in zip(arrs, op.operands)]
                if mode.startswith("no_grad"):
                    with sg.no_grad():
                        out = op.call(ops)
                else:
                    out = op.call(ops)
                outs = list(out) if isinstance(out, (tuple, list)) else [out]
                probs = []
                for o in outs:
                    if o._children != ():
                        probs.append("_children has %d entries" % len(o._children))
                    if o.grad_fn is not None:
                        probs.append("grad_fn is attached")
                    if o.requires_grad:
                        probs.append("requires_grad is True")
                refs = [weakref.ref(t) for t in ops]
                del ops, arrs, out
                gc.collect()
                alive = sum(1 for r in refs if r() is not None)
                if alive:
                    probs.append("%d of %d operands still alive after gc" % (alive, len(refs)))
                del outs
                if probs:
                    bad.append({"op": op.name, "wrapper": op.wrapper, "mode": mode, "problems": sorted(set(probs))})
            except BaseException as ex:
                bad.append({"op": op.name, "wrapper": op.wrapper, "mode": mode, "problems": ["raised %s: %s" % (type(ex).__name__, str(ex)[:120])]})
    impl.reset_modes()
    return {"kind": "catalog", "cases": n, "bad": bad}


if __name__ == "__main__":
    kind = sys.argv[1]
    ff = len(sys.argv) > 4 and sys.argv[4] == "fail_first"
    if kind == "chain":
        out = chain(int(sys.argv[2]), sys.argv[3] if len(sys.argv) > 3 else "tensor_scalar_mix", ff)
    elif kind == "diamond":
        out = diamond(int(sys.argv[2]), sys.argv[3] if len(sys.argv) > 3 else "const_w", ff)
    elif kind == "wide":
        out = wide(int(sys.argv[2]), sys.argv[3])
    elif kind == "catalog":
        out = catalog()
    else:
        out = untracked(int(sys.argv[2]), sys.argv[3])
    print("PROBE " + json.dumps(out))
