"""Stand-alone probes run in a subprocess by checks/c17.py (a crash or a RecursionError must not take the check down).
usage: python -m lib.engine_probe chain <n>  |  python -m lib.engine_probe untracked <iterations> <mode>
prints one JSON object."""
import gc, json, sys, time, weakref


def chain(n):
    from lib import impl
    sg, np = impl.synapgrad, impl.np
    BF = impl.TF.BackwardFunction
    counts = {}
    orig = BF.__call__

    def call(self):
        counts[id(self)] = counts.get(id(self), 0) + 1
        return orig(self)
    BF.__call__ = call
    t0 = time.time()
    x = sg.Tensor(np.array([1.0]), requires_grad=True)
    y = x
    d = 1            # exact derivative dy/dx
    keep = []
    nfn = 0
    for i in range(n):
        if i % 97 == 96:
            y = y + x; d += 1
        elif i % 2:
            y = y * -1.0; d = -d
        else:
            y = y * 1.0
        keep.append(y)
        nfn += 1
    t1 = time.time()
    res = {"n": n, "closures": nfn}
    try:
        y.backward()
        g = x._grad
        res.update(ok=True, grad=float(g[0]), expected=float(d), calls=len(counts), max_calls=max(counts.values()),
                   build_s=round(t1 - t0, 2), backward_s=round(time.time() - t1, 2),
                   intermediates_released=all(t._grad is None for t in keep[:-1]))
        # a second call accumulates
        y.backward()
        res["grad_after_second_call"] = float(x._grad[0])
        res["calls_after_second_call"] = sorted(set(counts.values()))
    except BaseException as ex:       # RecursionError is an Exception; MemoryError etc. too
        res.update(ok=False, error="%s: %s" % (type(ex).__name__, str(ex)[:200]))
    return res


def untracked(iters, mode):
    """p <- p - lr * g repeated; mode 'no_grad': tracked operands inside no_grad; 'plain': operands that do not require grad;
    'tracked': control (history must be kept)."""
    from lib import impl
    sg, np = impl.synapgrad, impl.np
    p = sg.Tensor(np.array([1.0, 2.0]), requires_grad=(mode != "plain"))
    g = sg.Tensor(np.array([0.5, 0.25]), requires_grad=False)
    refs = []
    children_empty = True
    req_false = True
    for i in range(iters):
        if mode == "no_grad":
            with sg.no_grad():
                q = p - g * 0.5
        else:
            q = p - g * 0.5
        refs.append(weakref.ref(p))
        children_empty = children_empty and q._children == ()
        req_false = req_false and (not q.requires_grad) and q.grad_fn is None
        p = q
    gc.collect()
    alive = sum(1 for r in refs if r() is not None)
    return {"mode": mode, "iterations": iters, "earlier_operands_alive": alive, "children_empty": children_empty,
            "results_untracked": req_false, "value": [float(v) for v in p.data]}


if __name__ == "__main__":
    kind = sys.argv[1]
    if kind == "chain":
        out = chain(int(sys.argv[2]))
    else:
        out = untracked(int(sys.argv[2]), sys.argv[3])
    print("PROBE " + json.dumps(out))
