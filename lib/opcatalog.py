"""Catalogue of the public differentiable operations of synapgrad with sample invocations.

Each entry: name, wrapper (module.function the call ends in), operand specs and a `call(ops)` closure.
Used by the wrapper-summary validation (C03/C07/C17), dtype/shape (C10), purity (C11) and hash-order (C19) checks.
Operand spec: (shape, domain, differentiable) with domain in
  'any' (both signs), 'pos' (>0), 'prob' (in (0,1)), 'labels:<k>' (int class ids < k), 'nonzero'.
"""
from dataclasses import dataclass, field
from typing import Callable, List, Tuple


@dataclass
class Op:
    name: str
    wrapper: str                 # e.g. 'functional.add', 'nn.functional.conv2d'
    operands: List[Tuple[tuple, str, bool]]
    call: Callable               # call(list_of_tensors) -> Tensor | tuple of Tensors
    multi: bool = False          # returns several tensors
    note: str = ""


def catalog(impl):
    sg = impl.synapgrad
    TF, NF, nn = impl.TF, impl.NF, impl.nn
    ops = []

    def add(name, wrapper, operands, call, multi=False, note=""):
        ops.append(Op(name, wrapper, operands, call, multi, note))

    A = 'any'
    # ---- tensor ops (functional.py) --------------------------------------------------------
    add('add', 'functional.add', [((2, 3), A, True), ((3,), A, True)], lambda o: TF.add(o[0], o[1]))
    add('add_scalar', 'functional.add', [((2, 3), A, True)], lambda o: o[0] + 2.0)
    add('radd', 'functional.add', [((2, 3), A, True)], lambda o: 2.0 + o[0])
    add('mul', 'functional.mul', [((2, 1, 3), A, True), ((4, 1), A, True)], lambda o: TF.mul(o[0], o[1]))
    add('rmul', 'functional.mul', [((2, 3), A, True)], lambda o: 3.0 * o[0])
    add('sub', 'functional.add', [((2, 3), A, True), ((2, 3), A, True)], lambda o: o[0] - o[1], note='composite')
    add('rsub', 'functional.add', [((2, 3), A, True)], lambda o: 2.0 - o[0], note='composite')
    add('neg', 'functional.mul', [((2, 3), A, True)], lambda o: -o[0])
    add('neg_fn', 'functional.neg', [((2, 3), A, True)], lambda o: TF.neg(o[0]))
    add('div', 'functional.mul', [((2, 3), A, True), ((2, 3), 'pos', True)], lambda o: o[0] / o[1], note='composite')
    add('rdiv', 'functional.mul', [((2, 3), 'pos', True)], lambda o: 2.0 / o[0], note='composite')
    add('matmul', 'functional.matmul', [((2, 3), A, True), ((3, 4), A, True)], lambda o: TF.matmul(o[0], o[1]))
    add('matmul_batched', 'functional.matmul', [((2, 1, 2, 3), A, True), ((4, 3, 2), A, True)], lambda o: o[0] @ o[1])
    add('addmm', 'functional.addmm', [((4,), A, True), ((2, 3), A, True), ((3, 4), A, True)], lambda o: TF.addmm(o[0], o[1], o[2]))
    add('pow2', 'functional.pow', [((2, 3), A, True)], lambda o: o[0] ** 2)
    add('pow_frac', 'functional.pow', [((2, 3), 'pos', True)], lambda o: o[0] ** 1.5)
    add('pow_neg', 'functional.pow', [((2, 3), 'pos', True)], lambda o: o[0] ** -2)
    add('rpow', 'functional.rpow', [((2, 3), A, True)], lambda o: 2.0 ** o[0])
    add('slice_basic', 'functional.slice', [((3, 4), A, True)], lambda o: o[0][1:, ::2])
    add('slice_int', 'functional.slice', [((3, 4), A, True)], lambda o: o[0][1, 2])
    add('slice_fancy', 'functional.slice', [((5,), A, True)], lambda o: o[0][[0, 0, 2]])
    add('concat', 'functional.concat', [((2, 3), A, True), ((1, 3), A, True)], lambda o: TF.concat([o[0], o[1]], 0))
    add('stack', 'functional.stack', [((2, 3), A, True), ((2, 3), A, True)], lambda o: TF.stack([o[0], o[1]], 1))
    add('unbind', 'functional.unbind', [((2, 3), A, True)], lambda o: TF.unbind(o[0], 1), multi=True)
    add('clone', 'functional.clone', [((2, 3), A, True)], lambda o: o[0].clone())
    add('exp', 'functional.exp', [((2, 3), A, True)], lambda o: o[0].exp())
    add('log', 'functional.log', [((2, 3), 'pos', True)], lambda o: o[0].log())
    add('sqrt', 'functional.sqrt', [((2, 3), 'pos', True)], lambda o: o[0].sqrt())
    add('sum_all', 'functional.sum', [((2, 3), A, True)], lambda o: o[0].sum())
    add('sum_dim', 'functional.sum', [((2, 3, 4), A, True)], lambda o: o[0].sum(dim=(0, -1)))
    add('sum_keep', 'functional.sum', [((2, 3), A, True)], lambda o: o[0].sum(dim=1, keepdims=True))
    add('mean_all', 'functional.mean', [((2, 3), A, True)], lambda o: o[0].mean())
    add('mean_dim', 'functional.mean', [((2, 3, 4), A, True)], lambda o: o[0].mean(dim=(0, -1)))
    add('max_all', 'functional.max', [((2, 3), A, True)], lambda o: o[0].max())
    add('max_dim', 'functional.max', [((2, 3), A, True)], lambda o: o[0].max(dim=1))
    add('min_dim', 'functional.min', [((2, 3), A, True)], lambda o: o[0].min(dim=0, keepdims=True))
    add('squeeze', 'functional.squeeze', [((2, 1, 3), A, True)], lambda o: o[0].squeeze(1))
    add('squeeze_all', 'functional.squeeze', [((1, 2, 1), A, True)], lambda o: o[0].squeeze())
    add('unsqueeze', 'functional.unsqueeze', [((2, 3), A, True)], lambda o: o[0].unsqueeze(1))
    add('reshape', 'functional.reshape', [((2, 3), A, True)], lambda o: o[0].reshape((3, -1)))
    add('movedim', 'functional.movedim', [((2, 3, 4), A, True)], lambda o: o[0].movedim(0, 2))
    add('transpose', 'functional.transpose', [((2, 3, 4), A, True)], lambda o: o[0].transpose(0, 2))
    add('flatten', 'functional.flatten', [((2, 3, 4), A, True)], lambda o: o[0].flatten(1, -1))
    add('flatten_noop', 'functional.flatten', [((2, 3), A, True)], lambda o: o[0].flatten(1, 1))
    add('flatten_1d', 'functional.flatten', [((4,), A, True)], lambda o: o[0].flatten())
    add('squeeze_noop', 'functional.squeeze', [((2, 3), A, True)], lambda o: o[0].squeeze(0))
    add('unfold_dim', 'functional.unfold_dim', [((2, 5), A, True)], lambda o: o[0].unfold(1, 3, 2))
    # ---- nn ops (nn/functional.py) ------------------------------------------------------------
    add('relu', 'nn.functional.relu', [((2, 3), 'nonzero', True)], lambda o: NF.relu(o[0]))
    add('leaky_relu', 'nn.functional.leaky_relu', [((2, 3), 'nonzero', True)], lambda o: NF.leaky_relu(o[0], 0.1))
    add('selu', 'nn.functional.selu', [((2, 3), 'nonzero', True)], lambda o: NF.selu(o[0]))
    add('tanh', 'nn.functional.tanh', [((2, 3), A, True)], lambda o: NF.tanh(o[0]))
    add('sigmoid', 'nn.functional.sigmoid', [((2, 3), A, True)], lambda o: NF.sigmoid(o[0]))
    add('softmax', 'nn.functional.softmax', [((2, 3), A, True)], lambda o: NF.softmax(o[0], 1))
    add('softmax_dim0', 'nn.functional.softmax', [((2, 3, 2), A, True)], lambda o: NF.softmax(o[0], 0))
    add('log_softmax', 'nn.functional.log_softmax', [((2, 3), A, True)], lambda o: NF.log_softmax(o[0], -1))
    add('mse_loss', 'nn.functional.mse_loss', [((2, 3), A, True), ((2, 3), A, True)], lambda o: NF.mse_loss(o[0], o[1]))
    add('nll_loss', 'nn.functional.nll_loss', [((3, 4), A, True), ((3,), 'labels:4', False)], lambda o: NF.nll_loss(o[0], o[1]))
    add('bce', 'nn.functional.binary_cross_entropy', [((2, 3), 'prob', True), ((2, 3), 'prob', False)], lambda o: NF.binary_cross_entropy(o[0], o[1]))
    add('bce_logits', 'nn.functional.binary_cross_entropy_with_logits', [((2, 3), A, True), ((2, 3), 'prob', False)], lambda o: NF.binary_cross_entropy_with_logits(o[0], o[1]))
    add('cross_entropy', 'nn.functional.cross_entropy', [((3, 4), A, True), ((3,), 'labels:4', False)], lambda o: NF.cross_entropy(o[0], o[1]))
    add('linear', 'nn.functional.linear', [((2, 3), A, True), ((4, 3), A, True), ((4,), A, True)], lambda o: NF.linear(o[0], o[1], o[2]))
    add('linear_nobias', 'nn.functional.linear', [((2, 3), A, True), ((4, 3), A, True)], lambda o: NF.linear(o[0], o[1]))
    add('linear_3d', 'nn.functional.linear', [((2, 2, 3), A, True), ((4, 3), A, True), ((4,), A, True)], lambda o: NF.linear(o[0], o[1], o[2]))
    add('max_pool1d', 'nn.functional.max_pool1d', [((1, 2, 6), A, True)], lambda o: NF.max_pool1d(o[0], 2, 2, 1, 1))
    add('max_pool2d', 'nn.functional.max_pool2d', [((1, 2, 4, 5), A, True)], lambda o: NF.max_pool2d(o[0], (2, 2), (1, 2), (1, 0), 1))
    add('avg_pool1d', 'nn.functional.avg_pool1d', [((1, 2, 6), A, True)], lambda o: NF.avg_pool1d(o[0], 3, 2, 1, 1))
    add('avg_pool2d', 'nn.functional.avg_pool2d', [((1, 2, 4, 5), A, True)], lambda o: NF.avg_pool2d(o[0], (2, 3), (1, 1), (0, 1), (1, 1)))
    add('unfold', 'nn.functional.unfold', [((1, 2, 4, 4), A, True)], lambda o: NF.unfold(o[0], (2, 2), 1, 1, 1))
    add('fold', 'nn.functional.fold', [((1, 8, 9), A, True)], lambda o: NF.fold(o[0], (4, 4), (2, 2), 1, 1, 0))
    add('conv1d', 'nn.functional.conv1d', [((2, 2, 6), A, True), ((3, 2, 2), A, True), ((3,), A, True)], lambda o: NF.conv1d(o[0], o[1], o[2], 2, 1, 2))
    add('conv2d', 'nn.functional.conv2d', [((1, 2, 4, 5), A, True), ((3, 2, 2, 3), A, True), ((3,), A, True)], lambda o: NF.conv2d(o[0], o[1], o[2], (1, 2), (1, 1), (1, 1)))
    add('conv2d_nobias', 'nn.functional.conv2d', [((1, 2, 4, 5), A, True), ((3, 2, 2, 3), A, True)], lambda o: NF.conv2d(o[0], o[1], None, 1, 0, 1))
    add('batch_norm_train', 'nn.functional.batch_norm', [((4, 3), A, True), ((3,), A, True), ((3,), A, True)],
        lambda o: NF.batch_norm(o[0], o[1], o[2], None, None, True, 0.1, 1e-5))
    add('batch_norm_eval', 'nn.functional.batch_norm', [((4, 3, 2), A, True), ((3,), A, True), ((3,), A, True)],
        lambda o: NF.batch_norm(o[0], o[1], o[2], sg.Tensor(impl.np.array([0.5, -1.0, 2.0], dtype=o[0].dtype)),
                                sg.Tensor(impl.np.array([1.5, 0.5, 2.0], dtype=o[0].dtype)), False, 0.1, 1e-5))
    add('batch_norm_noaffine', 'nn.functional.batch_norm', [((4, 3), A, True)],
        lambda o: NF.batch_norm(o[0], None, None, None, None, True, 0.1, 1e-5))
    return ops


def make_operand(impl, rng, spec, dtype, integer_valued=False):
    """numpy array for an operand spec; rng is random.Random."""
    np = impl.np
    shape, dom, _ = spec
    n = 1
    for d in shape:
        n *= d
    if dom.startswith('labels:'):
        k = int(dom.split(':')[1])
        return np.array([rng.randrange(k) for _ in range(n)], dtype=np.int64).reshape(shape)
    vals = []
    for _ in range(n):
        if integer_valued:
            v = rng.randint(1, 6) if dom in ('pos',) else rng.choice([-5, -4, -3, -2, -1, 1, 2, 3, 4, 5])
            if dom == 'prob':
                v = rng.choice([0.25, 0.5, 0.75])
        else:
            if dom == 'pos':
                v = rng.uniform(0.5, 3.0)
            elif dom == 'prob':
                v = rng.uniform(0.1, 0.9)
            elif dom == 'nonzero':
                v = rng.choice([-1, 1]) * rng.uniform(0.2, 2.0)
            else:
                v = rng.uniform(-2.0, 2.0)
        vals.append(v)
    return np.array(vals, dtype=dtype).reshape(shape)
