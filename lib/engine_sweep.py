"""C03 oracle-only stream (no Coq model involved): random DAG programs over a broad catalogue of real tensor and nn ops on
small float64 tensors of rank 1-4, every program mirrored op by op in PyTorch.

Judgement on the implementation, per program:
  1. every leaf's `.grad` equals torch's (rtol 1e-9; inputs kept away from kinks and ties), `None` exactly where torch has None;
  2. every recorded op's closure runs exactly once per backward (hook on BackwardFunction.__call__), and the set of closures that
     ran is the set of grad_fn objects reachable from the root;
  3. leaves that do not require grad have no `.grad`;
  4. the same program with its independent steps built in another order gives the same leaf gradients (rtol 1e-12: only the
     summation order inside `+=` may differ).
Programs are JSON-able (leaf data + op names + parameters) so that a failing one can be shrunk (drop nodes) and replayed.
"""
import json

from lib import impl

np = impl.np
sg = impl.synapgrad
TF, NF = impl.TF, impl.NF

_torch = None


def torch():
    global _torch
    if _torch is None:
        import torch as t
        t.set_num_threads(1)
        _torch = t
    return _torch


class Reject(Exception):
    """the generated program is numerically unsuitable (kink / tie / overflow): draw another one"""


# ------------------------------------------------------------------------------------------------------------------
# op table: name -> (sg implementation, torch implementation); both take (list of tensors, params) and return a tensor
# or a tuple of tensors
def _key(p):
    # key entries: int | [lo, hi, step] (a slice) | {"idx": [...]} (an index list, may repeat positions / use negative aliases)
    k = tuple(slice(*k) if isinstance(k, list) else (k["idx"] if isinstance(k, dict) else k) for k in p["key"])
    return k if len(k) > 1 or not isinstance(k[0], list) else k[0]


def _tup(x):
    return tuple(x) if isinstance(x, list) else x


def ops_table():
    t = torch()
    F = t.nn.functional
    O = {}
    O["add"] = (lambda a, p: a[0] + a[1], lambda a, p: a[0] + a[1])
    O["sub"] = (lambda a, p: a[0] - a[1], lambda a, p: a[0] - a[1])
    O["mul"] = (lambda a, p: a[0] * a[1], lambda a, p: a[0] * a[1])
    O["div"] = (lambda a, p: a[0] / a[1], lambda a, p: a[0] / a[1])
    O["addc"] = (lambda a, p: a[0] + p["c"], lambda a, p: a[0] + p["c"])
    O["mulc"] = (lambda a, p: a[0] * p["c"], lambda a, p: a[0] * p["c"])
    O["rsubc"] = (lambda a, p: p["c"] - a[0], lambda a, p: p["c"] - a[0])
    O["rdivc"] = (lambda a, p: p["c"] / a[0], lambda a, p: p["c"] / a[0])
    O["pow"] = (lambda a, p: a[0] ** p["n"], lambda a, p: a[0] ** p["n"])
    O["neg"] = (lambda a, p: -a[0], lambda a, p: -a[0])
    O["clone"] = (lambda a, p: a[0].clone(), lambda a, p: a[0].clone())
    O["exp"] = (lambda a, p: a[0].exp(), lambda a, p: a[0].exp())
    O["tanh"] = (lambda a, p: NF.tanh(a[0]), lambda a, p: t.tanh(a[0]))
    O["sigmoid"] = (lambda a, p: NF.sigmoid(a[0]), lambda a, p: t.sigmoid(a[0]))
    O["relu"] = (lambda a, p: NF.relu(a[0]), lambda a, p: F.relu(a[0]))
    O["leaky_relu"] = (lambda a, p: NF.leaky_relu(a[0], p["s"]), lambda a, p: F.leaky_relu(a[0], p["s"]))
    O["selu"] = (lambda a, p: NF.selu(a[0]), lambda a, p: F.selu(a[0]))
    O["matmul"] = (lambda a, p: a[0] @ a[1], lambda a, p: a[0] @ a[1])
    O["sum"] = (lambda a, p: a[0].sum(dim=_tup(p["dim"]), keepdims=p["keep"]),
                lambda a, p: a[0].sum() if p["dim"] is None else a[0].sum(dim=_tup(p["dim"]), keepdim=p["keep"]))
    O["mean"] = (lambda a, p: a[0].mean(dim=_tup(p["dim"]), keepdims=p["keep"]),
                 lambda a, p: a[0].mean() if p["dim"] is None else a[0].mean(dim=_tup(p["dim"]), keepdim=p["keep"]))
    O["max"] = (lambda a, p: TF.max(a[0], _tup(p["dim"]), p["keep"]), lambda a, p: t.amax(a[0], dim=_tup(p["dim"]), keepdim=p["keep"]))
    O["min"] = (lambda a, p: TF.min(a[0], _tup(p["dim"]), p["keep"]), lambda a, p: t.amin(a[0], dim=_tup(p["dim"]), keepdim=p["keep"]))
    O["reshape"] = (lambda a, p: a[0].reshape(tuple(p["shape"])), lambda a, p: a[0].reshape(tuple(p["shape"])))
    O["transpose"] = (lambda a, p: a[0].transpose(p["d0"], p["d1"]), lambda a, p: a[0].transpose(p["d0"], p["d1"]))
    O["movedim"] = (lambda a, p: a[0].movedim(p["s"], p["d"]), lambda a, p: a[0].movedim(p["s"], p["d"]))
    O["flatten"] = (lambda a, p: a[0].flatten(p["s"], p["e"]), lambda a, p: a[0].flatten(p["s"], p["e"]))
    O["squeeze"] = (lambda a, p: a[0].squeeze(p["dim"]), lambda a, p: a[0].squeeze(p["dim"]))
    O["unsqueeze"] = (lambda a, p: a[0].unsqueeze(p["dim"]), lambda a, p: a[0].unsqueeze(p["dim"]))
    O["slice"] = (lambda a, p: a[0][_key(p)], lambda a, p: a[0][_key(p)])
    O["concat"] = (lambda a, p: TF.concat(list(a), p["dim"]), lambda a, p: t.cat(list(a), p["dim"]))
    O["stack"] = (lambda a, p: TF.stack(list(a), p["dim"]), lambda a, p: t.stack(list(a), p["dim"]))
    O["unbind"] = (lambda a, p: tuple(TF.unbind(a[0], p["dim"])), lambda a, p: tuple(t.unbind(a[0], p["dim"])))
    O["linear"] = (lambda a, p: NF.linear(a[0], a[1], a[2] if len(a) > 2 else None), lambda a, p: F.linear(a[0], a[1], a[2] if len(a) > 2 else None))
    O["conv1d"] = (lambda a, p: NF.conv1d(a[0], a[1], a[2] if len(a) > 2 else None, p["stride"], p["pad"], p["dil"]),
                   lambda a, p: F.conv1d(a[0], a[1], a[2] if len(a) > 2 else None, p["stride"], p["pad"], p["dil"]))
    O["conv2d"] = (lambda a, p: NF.conv2d(a[0], a[1], a[2] if len(a) > 2 else None, p["stride"], p["pad"], p["dil"]),
                   lambda a, p: F.conv2d(a[0], a[1], a[2] if len(a) > 2 else None, p["stride"], p["pad"], p["dil"]))
    O["max_pool1d"] = (lambda a, p: NF.max_pool1d(a[0], p["k"], p["stride"]), lambda a, p: F.max_pool1d(a[0], p["k"], p["stride"]))
    O["max_pool2d"] = (lambda a, p: NF.max_pool2d(a[0], p["k"], p["stride"]), lambda a, p: F.max_pool2d(a[0], p["k"], p["stride"]))
    O["avg_pool1d"] = (lambda a, p: NF.avg_pool1d(a[0], p["k"], p["stride"]), lambda a, p: F.avg_pool1d(a[0], p["k"], p["stride"]))
    O["avg_pool2d"] = (lambda a, p: NF.avg_pool2d(a[0], p["k"], p["stride"]), lambda a, p: F.avg_pool2d(a[0], p["k"], p["stride"]))
    O["batch_norm"] = (lambda a, p: NF.batch_norm(a[0], a[1], a[2], None, None, True, 0.1, 1e-5),
                       lambda a, p: F.batch_norm(a[0], None, None, a[1], a[2], True, 0.1, 1e-5))
    O["softmax"] = (lambda a, p: NF.softmax(a[0], p["dim"]), lambda a, p: F.softmax(a[0], p["dim"]))
    O["log_softmax"] = (lambda a, p: NF.log_softmax(a[0], p["dim"]), lambda a, p: F.log_softmax(a[0], p["dim"]))
    O["mse_loss"] = (lambda a, p: NF.mse_loss(a[0], a[1]), lambda a, p: F.mse_loss(a[0], a[1], reduction="none"))
    O["cross_entropy"] = (lambda a, p: NF.cross_entropy(a[0], a[1]), lambda a, p: F.cross_entropy(a[0], a[1], reduction="none"))
    O["nll_loss"] = (lambda a, p: NF.nll_loss(a[0], a[1]), lambda a, p: F.nll_loss(a[0], a[1], reduction="none"))
    return O


KINKED = {"relu": 0.0, "leaky_relu": 0.0, "selu": 0.0}     # inputs must stay away from these points
TIES = {"max", "min", "max_pool1d", "max_pool2d"}           # inputs must have a unique extremum per window (checked on all values)


# ------------------------------------------------------------------------------------------------------------------
# generator
class G:
    def __init__(self, rng, max_nodes=30, max_depth=10, max_fanout=4):
        self.rng = rng
        self.steps = []
        self.shape, self.depth, self.fan, self.kind = {}, {}, {}, {}     # kind: "f" float tensor, "l" label tensor
        self.nid = 0
        self.max_nodes, self.max_depth, self.max_fanout = max_nodes, max_depth, max_fanout
        self.nodes = 0

    def new(self, shape, depth, kind="f"):
        i = self.nid
        self.nid += 1
        self.shape[i], self.depth[i], self.fan[i], self.kind[i] = tuple(shape), depth, 0, kind
        return i

    def leaf(self, shape, req=None, lo=-1.5, hi=1.5, labels=None, nograd=False):
        r = self.rng
        n = int(np.prod(shape)) if shape else 1
        if labels is not None:
            data = [r.randrange(labels) for _ in range(n)]
            i = self.new(shape, 0, "l")
            self.steps.append({"k": "leaf", "id": i, "shape": list(shape), "data": data, "req": False, "labels": True})
        else:
            # multiples of 1/1024 in [lo, hi], never within 0.05 of zero: exact in binary, away from the kinks
            data = []
            while len(data) < n:
                v = r.randint(int(lo * 1024), int(hi * 1024)) / 1024.0
                if abs(v) >= 0.05:
                    data.append(v)
            i = self.new(shape, 0)
            req = (r.random() < 0.75) if req is None else req
            self.steps.append({"k": "leaf", "id": i, "shape": list(shape), "data": data, "req": req, "nograd": nograd})
        self.nodes += 1
        return i

    def pick(self, pred=lambda i: True):
        c = [i for i in self.shape if self.kind[i] == "f" and self.fan[i] < self.max_fanout and self.depth[i] < self.max_depth and pred(i)]
        if not c:
            return None
        if self.rng.random() < 0.65:
            c = c[-7:]
        return self.rng.choice(c)

    def emit(self, op, args, out_shapes, p=None, nograd=False):
        outs = [self.new(s, 1 + max(self.depth[a] for a in args)) for s in out_shapes]
        for a in args:
            self.fan[a] += 1
        st = {"k": "op", "op": op, "args": list(args), "out": outs, "p": p or {}, "nograd": nograd}
        self.steps.append(st)
        self.nodes += len(outs)
        return outs

    def rand_shape(self):
        r = self.rng
        rank = r.choice([1, 2, 2, 3, 3, 4, 4])
        if rank == 4:
            return (r.randint(1, 2), r.randint(1, 3), r.randint(3, 5), r.randint(3, 5))
        if rank == 3:
            return (r.randint(2, 3), r.randint(1, 3), r.randint(3, 6))
        return tuple(r.randint(1, 4) for _ in range(rank))

    def step(self, nograd=False):
        r = self.rng
        kinds = ["bin", "bin", "bin", "scalar", "unary", "unary", "act", "act", "matmul", "reduce", "reduce", "shape", "shape", "slice", "slice", "list", "list",
                 "unbind", "linear", "conv", "conv", "pool", "pool", "bn", "softmax", "loss", "square"]
        for _ in range(30):
            kind = r.choice(kinds)
            a = self.pick()
            if a is None:
                return None
            sa = self.shape[a]
            rank = len(sa)
            if kind == "bin":
                op = r.choice(["add", "sub", "mul", "mul", "div"])
                b = None
                if r.random() < 0.6:
                    def compat(i):
                        try:
                            return int(np.prod(np.broadcast_shapes(sa, self.shape[i]))) <= 300
                        except ValueError:
                            return False
                    b = self.pick(compat)
                if b is None:
                    # a fresh operand whose shape broadcasts against a: a suffix of a's shape with some dims set to 1
                    k = r.randint(0, rank)
                    sb = tuple(1 if r.random() < 0.3 else d for d in sa[rank - k:]) if k else ()
                    if sb == ():
                        sb = (1,)
                    b = self.leaf(sb, lo=0.3, hi=1.5) if op == "div" else self.leaf(sb)
                if a == b and self.fan[a] + 2 > self.max_fanout:
                    continue
                args = [a, b] if r.random() < 0.5 or op == "div" else [b, a]
                so = np.broadcast_shapes(self.shape[args[0]], self.shape[args[1]])
                return self.emit(op, args, [so], nograd=nograd)
            if kind == "square":
                if self.fan[a] + 2 > self.max_fanout:
                    continue
                return self.emit("mul", [a, a], [sa], nograd=nograd)
            if kind == "scalar":
                op = r.choice(["addc", "mulc", "rsubc", "pow", "pow"])
                p = {"n": r.choice([2, 3])} if op == "pow" else {"c": r.choice([-2.0, -0.5, 0.5, 1.5, 2.0])}
                return self.emit(op, [a], [sa], p, nograd=nograd)
            if kind == "unary":
                return self.emit(r.choice(["neg", "clone", "tanh", "sigmoid", "exp"]), [a], [sa], nograd=nograd)
            if kind == "act":
                op = r.choice(["relu", "leaky_relu", "selu"])
                return self.emit(op, [a], [sa], {"s": 0.1} if op == "leaky_relu" else {}, nograd=nograd)
            if kind == "matmul":
                if rank < 2:
                    continue
                m = r.randint(1, 4)
                b = self.pick(lambda i: len(self.shape[i]) == 2 and self.shape[i][0] == sa[-1])
                if b is None or r.random() < 0.5:
                    b = self.leaf((sa[-1], m))
                if a == b and self.fan[a] + 2 > self.max_fanout:
                    continue
                return self.emit("matmul", [a, b], [sa[:-1] + (self.shape[b][1],)], nograd=nograd)
            if kind == "reduce":
                op = r.choice(["sum", "mean", "max", "min", "sum", "mean"])
                keep = r.random() < 0.4
                if rank == 0 and op in ("max", "min"):
                    continue
                if rank == 0 or (op in ("sum", "mean") and r.random() < 0.3):
                    dim = None
                elif r.random() < 0.35 and rank >= 2:
                    dims = sorted(r.sample(range(rank), 2))
                    dim = [dims[0], dims[1] - rank] if r.random() < 0.5 else dims
                else:
                    dim = r.randrange(rank)
                    if r.random() < 0.3:
                        dim -= rank
                if dim is None:
                    so = ()
                else:
                    dd = [d % rank for d in (dim if isinstance(dim, list) else [dim])]
                    so = tuple((1 if i in dd else s) for i, s in enumerate(sa) if keep or i not in dd)
                if dim is None and keep:
                    keep = False
                return self.emit(op, [a], [so], {"dim": dim, "keep": keep}, nograd=nograd)
            if kind == "shape":
                op = r.choice(["reshape", "transpose", "movedim", "flatten", "squeeze", "unsqueeze"])
                n = int(np.prod(sa)) if sa else 1
                if op == "reshape":
                    fs = [d for d in range(1, n + 1) if n % d == 0]
                    d = r.choice(fs)
                    so = r.choice([(d, n // d), (n,), (n // d, d, 1)])
                    return self.emit(op, [a], [so], {"shape": list(so)}, nograd=nograd)
                if op == "transpose" and rank >= 2:
                    d0, d1 = r.sample(range(rank), 2)
                    so = list(sa); so[d0], so[d1] = so[d1], so[d0]
                    return self.emit(op, [a], [tuple(so)], {"d0": d0, "d1": d1 - rank if r.random() < 0.3 else d1}, nograd=nograd)
                if op == "movedim" and rank >= 2:
                    s, d = r.sample(range(rank), 2)
                    so = list(sa); x = so.pop(s); so.insert(d, x)
                    return self.emit(op, [a], [tuple(so)], {"s": s, "d": d}, nograd=nograd)
                if op == "flatten" and rank >= 2:
                    s = r.randrange(rank - 1); e = r.randrange(s + 1, rank)
                    so = sa[:s] + (int(np.prod(sa[s:e + 1])),) + sa[e + 1:]
                    return self.emit(op, [a], [so], {"s": s, "e": e - rank if r.random() < 0.4 else e}, nograd=nograd)
                if op == "squeeze" and 1 in sa:
                    d = r.choice([i for i, s in enumerate(sa) if s == 1])
                    return self.emit(op, [a], [sa[:d] + sa[d + 1:]], {"dim": d}, nograd=nograd)
                if op == "unsqueeze" and rank <= 3:
                    d = r.randint(0, rank)
                    return self.emit(op, [a], [sa[:d] + (1,) + sa[d:]], {"dim": d}, nograd=nograd)
                continue
            if kind == "slice":
                if rank == 0:
                    continue
                key, so = [], []
                nk = r.randint(1, rank)
                adv = r.randrange(nk) if r.random() < 0.45 else None      # position of an index list (advanced indexing)
                for j, sdim in enumerate(sa[:nk]):
                    c = r.random()
                    if j == adv:
                        m = r.randint(2, 4)
                        idx = [r.randrange(sdim) for _ in range(m)]
                        if r.random() < 0.7:
                            idx[r.randrange(1, m)] = idx[0]                 # a repeated position
                        if r.random() < 0.5:
                            q = r.randrange(m); idx[q] = idx[q] - sdim       # the same position through its negative alias
                        key.append({"idx": idx}); so.append(m)
                    elif c < 0.3 and adv is None:
                        key.append(r.randrange(sdim))
                    else:
                        lo = r.randrange(sdim); hi = r.randint(lo + 1, sdim); stp = r.choice([1, 1, 2])
                        key.append([lo, hi, stp]); so.append(len(range(lo, hi, stp)))
                so = tuple(so) + sa[len(key):]
                return self.emit("slice", [a], [so], {"key": key}, nograd=nograd)
            if kind == "list":
                op = r.choice(["concat", "stack"])
                if rank == 0 and op == "concat":
                    continue
                if op == "stack" and rank >= 4:
                    continue
                # 2-4 equal-sized pieces; constants (requires_grad=False) and differentiable operands in every position
                items = [a]
                for _ in range(r.randint(1, 3)):
                    c = r.random()
                    if c < 0.35:
                        items.append(self.leaf(sa, req=False))
                    elif c < 0.6:
                        items.append(self.leaf(sa, req=True))
                    else:
                        b = self.pick(lambda i: self.shape[i] == sa)
                        items.append(b if b is not None else self.leaf(sa))
                r.shuffle(items)
                if any(self.fan[i] + items.count(i) > self.max_fanout for i in set(items)):
                    continue
                if op == "concat":
                    d = r.randrange(rank)
                    so = sa[:d] + (len(items) * sa[d],) + sa[d + 1:]
                else:
                    d = r.randint(0, rank)
                    so = sa[:d] + (len(items),) + sa[d:]
                if int(np.prod(so)) > 400:
                    continue
                return self.emit(op, items, [so], {"dim": d}, nograd=nograd)
            if kind == "unbind":
                if rank == 0:
                    continue
                d = r.randrange(rank)
                if sa[d] > 3:
                    continue
                return self.emit("unbind", [a], [sa[:d] + sa[d + 1:]] * sa[d], {"dim": d}, nograd=nograd)
            if kind == "linear":
                if rank < 2:
                    continue
                o = r.randint(1, 3)
                w = self.leaf((o, sa[-1]), req=r.random() < 0.6)
                args = [a, w] + ([self.leaf((o,), req=r.random() < 0.6)] if r.random() < 0.7 else [])
                return self.emit("linear", args, [sa[:-1] + (o,)], nograd=nograd)
            if kind == "conv":
                if rank == 3 and sa[2] >= 3:
                    k, o = r.randint(1, 2), r.randint(1, 2)
                    stride, pad, dil = r.choice([1, 2]), r.choice([0, 1]), 1
                    L = (sa[2] + 2 * pad - dil * (k - 1) - 1) // stride + 1
                    w = self.leaf((o, sa[1], k), req=r.random() < 0.6)
                    args = [a, w] + ([self.leaf((o,), req=r.random() < 0.6)] if r.random() < 0.6 else [])
                    return self.emit("conv1d", args, [(sa[0], o, L)], {"stride": stride, "pad": pad, "dil": dil}, nograd=nograd)
                if rank == 4 and sa[2] >= 3 and sa[3] >= 3:
                    k, o = 2, r.randint(1, 2)
                    stride, pad, dil = r.choice([1, 2]), r.choice([0, 1]), 1
                    H = (sa[2] + 2 * pad - dil * (k - 1) - 1) // stride + 1
                    Wd = (sa[3] + 2 * pad - dil * (k - 1) - 1) // stride + 1
                    w = self.leaf((o, sa[1], k, k), req=r.random() < 0.6)
                    args = [a, w] + ([self.leaf((o,), req=r.random() < 0.6)] if r.random() < 0.6 else [])
                    return self.emit("conv2d", args, [(sa[0], o, H, Wd)], {"stride": stride, "pad": pad, "dil": dil}, nograd=nograd)
                continue
            if kind == "pool":
                which = r.choice(["max", "avg"])
                k, stride = 2, r.choice([1, 2])
                if rank == 3 and sa[2] >= 2:
                    return self.emit(which + "_pool1d", [a], [(sa[0], sa[1], (sa[2] - k) // stride + 1)], {"k": k, "stride": stride}, nograd=nograd)
                if rank == 4 and sa[2] >= 2 and sa[3] >= 2:
                    return self.emit(which + "_pool2d", [a], [(sa[0], sa[1], (sa[2] - k) // stride + 1, (sa[3] - k) // stride + 1)], {"k": k, "stride": stride}, nograd=nograd)
                continue
            if kind == "bn":
                if rank not in (2, 3) or sa[0] < 2:
                    continue
                return self.emit("batch_norm", [a, self.leaf((sa[1],), lo=0.5, hi=1.5), self.leaf((sa[1],))], [sa], nograd=nograd)
            if kind == "softmax":
                if rank == 0:
                    continue
                d = r.randrange(rank)
                return self.emit(r.choice(["softmax", "log_softmax"]), [a], [sa], {"dim": d - rank if r.random() < 0.3 else d}, nograd=nograd)
            if kind == "loss":
                c = r.random()
                if c < 0.4:
                    b = self.pick(lambda i: self.shape[i] == sa and i != a) or self.leaf(sa)
                    return self.emit("mse_loss", [a, b], [sa], nograd=nograd)
                if rank == 2 and sa[1] >= 2:
                    lab = self.leaf((sa[0],), labels=sa[1])
                    if c < 0.75:
                        return self.emit("cross_entropy", [a, lab], [(sa[0],)], nograd=nograd)
                    ls = self.emit("log_softmax", [a], [sa], {"dim": 1}, nograd=nograd)[0]
                    return self.emit("nll_loss", [ls, lab], [(sa[0],)], nograd=nograd)
                continue
        return None


def gen_program(rng, max_nodes=30):
    g = G(rng, max_nodes=max_nodes)
    for _ in range(rng.randint(1, 3)):
        g.leaf(g.rand_shape())
    target = rng.randint(4, max_nodes)
    seg = 0
    while g.nodes < target:
        if rng.random() < 0.08:
            g.leaf(g.rand_shape())
            continue
        if seg == 0 and rng.random() < 0.05:
            seg = rng.randint(1, 3)              # a segment of ops under no_grad
        if g.step(nograd=seg > 0) is None:
            break
        seg = max(0, seg - 1)
    # a third of the programs first call backward on an earlier tensor (accumulation into leaves, stale intermediate buffers)
    return {"steps": g.steps, "root": None, "seed_salt": rng.randrange(1 << 30), "pre": rng.random() < 0.35, "pre_pick": rng.random(),
            "fail_first": rng.random() < 0.3}      # a call with a wrong-shaped gradient, caught, before the real ones


# ------------------------------------------------------------------------------------------------------------------
# execution on both libraries
class Run:
    pass


def seed_for(salt, node, shape):
    r = np.random.default_rng(salt * 1000003 + node)
    return np.round(r.uniform(-1.0, 1.0, shape) * 64) / 64


def execute(prog, order=None, lib="both"):
    """Runs the program on synapgrad and on torch. Returns a Run with values, flags, leaf grads, closure log.
    `order` = permutation of the steps (independent branches built in another order)."""
    t = torch()
    O = ops_table()
    steps = prog["steps"] if order is None else [prog["steps"][i] for i in order]
    impl.reset_modes()
    BF = impl.TF.BackwardFunction
    S, Tt = {}, {}
    R = Run()
    R.error = None
    kink = None
    for st in steps:
        if st["k"] == "leaf":
            if st.get("labels"):
                arr = np.array(st["data"], dtype=np.int64).reshape(tuple(st["shape"]))
                S[st["id"]] = sg.Tensor(arr, dtype=np.int64)
                Tt[st["id"]] = t.tensor(arr)
            else:
                arr = np.array(st["data"], dtype=np.float64).reshape(tuple(st["shape"]))
                S[st["id"]] = sg.Tensor(arr.copy(), requires_grad=st["req"])
                Tt[st["id"]] = t.tensor(arr.copy(), dtype=t.float64, requires_grad=st["req"])
            continue
        sa = [S[i] for i in st["args"]]
        ta = [Tt[i] for i in st["args"]]
        # numerical suitability, judged on the torch values (independent of the implementation under test)
        x = ta[0].detach().numpy()
        if st["op"] in KINKED and x.size and np.abs(x).min() < 1e-3:
            raise Reject("kink")
        if st["op"] in ("div",) and np.abs(ta[1].detach().numpy()).min() < 0.2:
            raise Reject("small denominator")
        if st["op"] in ("rdivc",) and np.abs(x).min() < 0.2:
            raise Reject("small denominator")
        if st["op"] == "exp" and x.size and np.abs(x).max() > 4:
            raise Reject("exp range")
        if st["op"] in TIES and x.size > 1:
            v = np.sort(x.reshape(-1))
            if np.diff(v).min() < 1e-7:
                raise Reject("tie")
        fs, ft = O[st["op"]]
        if st.get("nograd"):
            with sg.no_grad():
                so = fs(sa, st["p"])
            with t.no_grad():
                to = ft(ta, st["p"])
        else:
            so = fs(sa, st["p"])
            to = ft(ta, st["p"])
        so = list(so) if isinstance(so, (tuple, list)) else [so]
        to = list(to) if isinstance(to, (tuple, list)) else [to]
        if st.get("nograd"):
            to = [x.detach() for x in to]      # (torch's multi-output view ops keep requires_grad under no_grad; the mirror means "constant")
        for i, a, b in zip(st["out"], so, to):
            S[i], Tt[i] = a, b
            bv = b.detach().numpy()
            if not np.all(np.isfinite(bv)) or (bv.size and np.abs(bv).max() > 1e6):
                raise Reject("overflow")
    R.S, R.T = S, Tt
    # forward agreement (not the subject of C03, but a disagreement makes the gradient comparison meaningless)
    R.forward_diff = None
    for i in S:
        a, b = np.asarray(S[i].data, dtype=np.float64), Tt[i].detach().numpy()
        if a.shape != b.shape or not np.allclose(a, b, rtol=1e-9, atol=1e-11):
            R.forward_diff = {"node": i, "sg_shape": list(a.shape), "torch_shape": list(b.shape)}
            break
    # root: the requested one, else the last tensor that torch tracks
    root = prog.get("root")
    if root is not None and root in S and not (Tt[root].requires_grad and Tt[root].grad_fn is not None):
        raise Reject("requested root is not tracked")
    if root is None or root not in S:
        cands = [i for i in S if Tt[i].requires_grad and Tt[i].grad_fn is not None]
        if not cands:
            raise Reject("nothing to differentiate")
        root = cands[-1]
    R.root = root
    seed = seed_for(prog["seed_salt"], root, tuple(Tt[root].shape))
    # closure log
    calls = []
    orig = BF.__call__

    def call(self):
        calls.append(id(self))
        return orig(self)
    BF.__call__ = call
    R.pre_root = None
    if prog.get("pre"):
        cands = [i for i in S if i != root and Tt[i].requires_grad and Tt[i].grad_fn is not None]
        if prog.get("pre_root") in cands:
            R.pre_root = prog["pre_root"]
        elif cands and prog.get("pre_root") is None:
            R.pre_root = cands[int(prog.get("pre_pick", 0.5) * len(cands)) % len(cands)]
    R.failed_calls = 0
    try:
        if prog.get("fail_first"):
            for x in ([root] if R.pre_root is None else [root, R.pre_root, root]):
                try:
                    S[x].backward(sg.Tensor(np.ones(tuple(Tt[x].shape) + (2,))))
                except (RuntimeError, ValueError, AssertionError):
                    R.failed_calls += 1
                else:
                    raise RuntimeError("backward accepted a gradient of the wrong shape")
            del calls[:]
        if R.pre_root is not None:
            s0 = seed_for(prog["seed_salt"] + 7, R.pre_root, tuple(Tt[R.pre_root].shape))
            S[R.pre_root].backward(sg.Tensor(s0.copy()))
            Tt[R.pre_root].backward(t.tensor(s0.copy(), dtype=t.float64), retain_graph=True)
            del calls[:]
        S[root].backward(sg.Tensor(seed.copy()))
    except Exception as ex:
        R.error = "%s: %s" % (type(ex).__name__, str(ex)[:200])
    finally:
        BF.__call__ = orig
    Tt[root].backward(t.tensor(seed.copy(), dtype=t.float64))
    R.calls = calls
    # reachable closures
    seen, todo, fns = {id(S[root])}, [S[root]], []
    while todo:
        n = todo.pop()
        if n.grad_fn is not None:
            fns.append(id(n.grad_fn))
        for c in n._children:
            if id(c) not in seen:
                seen.add(id(c)); todo.append(c)
    R.reachable_fns = fns
    R.leaves = [st for st in prog["steps"] if st["k"] == "leaf" and not st.get("labels")]
    R.grads = {st["id"]: (None if S[st["id"]]._grad is None else np.array(S[st["id"]]._grad, dtype=np.float64)) for st in R.leaves}
    R.tgrads = {st["id"]: (None if Tt[st["id"]].grad is None else Tt[st["id"]].grad.numpy().copy()) for st in R.leaves}
    impl.reset_modes()
    return R


def judge(prog, R):
    """None, or a description of the first violated clause."""
    if R.error:
        return {"clause": "backward completes", "error": R.error}
    if R.forward_diff:
        return {"clause": "forward values agree with torch (precondition)", **R.forward_diff}
    for st in R.leaves:
        i = st["id"]
        g, tg = R.grads[i], R.tgrads[i]
        if not st["req"]:
            if g is not None:
                return {"clause": "a leaf that does not require grad has no .grad", "leaf": i, "grad": g.reshape(-1)[:6].tolist()}
            continue
        if tg is None and g is not None and R.failed_calls and not np.any(g):
            continue        # a refused call has already created the (zero) buffers below its root; torch refuses before touching anything
        if (g is None) != (tg is None):
            return {"clause": "leaf .grad is None exactly where torch's is", "leaf": i, "synapgrad": None if g is None else g.reshape(-1)[:6].tolist(),
                    "torch": None if tg is None else tg.reshape(-1)[:6].tolist()}
        if g is None:
            continue
        if g.shape != tg.shape or not np.allclose(g, tg, rtol=1e-9, atol=1e-12):
            d = float(np.abs(g.reshape(-1) - tg.reshape(-1)).max()) if g.shape == tg.shape else None
            return {"clause": "leaf .grad equals the gradient of the composed function (torch, rtol 1e-9)", "leaf": i, "max_abs_diff": d,
                    "synapgrad": g.reshape(-1)[:6].tolist(), "torch": tg.reshape(-1)[:6].tolist()}
    if len(set(R.calls)) != len(R.calls):
        return {"clause": "each recorded operation's closure runs exactly once per backward", "calls": len(R.calls), "distinct": len(set(R.calls))}
    if set(R.calls) != set(R.reachable_fns):
        return {"clause": "the closures that ran are exactly those reachable from the root", "ran": len(R.calls), "reachable": len(R.reachable_fns)}
    return None


def reorder(prog, rng):
    """another topological order of the same steps (indices into prog['steps'])"""
    steps = prog["steps"]
    done, out, pending = set(), [], list(range(len(steps)))
    while pending:
        ready = [i for i in pending if steps[i]["k"] == "leaf" or all(a in done for a in steps[i]["args"])]
        i = rng.choice(ready)
        pending.remove(i)
        out.append(i)
        done.update([steps[i]["id"]] if steps[i]["k"] == "leaf" else steps[i]["out"])
    return out


def judge_reorder(prog, R, rng):
    order = reorder(prog, rng)
    if order == list(range(len(prog["steps"]))):
        return None, False
    p2 = dict(prog, root=R.root, pre_root=R.pre_root)
    R2 = execute(p2, order=order)
    for st in R.leaves:
        a, b = R.grads[st["id"]], R2.grads[st["id"]]
        if (a is None) != (b is None) or (a is not None and not np.allclose(a, b, rtol=1e-12, atol=1e-14)):
            return {"clause": "leaf gradients do not depend on the order in which independent branches were built (rtol 1e-12)", "leaf": st["id"],
                    "order": order, "first": None if a is None else a.reshape(-1)[:6].tolist(), "reordered": None if b is None else b.reshape(-1)[:6].tolist()}, True
    return None, True


def fails(prog):
    try:
        R = execute(prog)
    except Reject:
        return None
    except Exception as ex:
        return {"clause": "program runs", "error": "%s: %s" % (type(ex).__name__, str(ex)[:200])}
    return judge(prog, R)


def ancestors(prog, root):
    need, keep = {root}, []
    for st in reversed(prog["steps"]):
        ids = [st["id"]] if st["k"] == "leaf" else st["out"]
        if any(i in need for i in ids):
            keep.append(st)
            if st["k"] == "op":
                need.update(st["args"])
    return list(reversed(keep))


def shrink(prog, verdict_fn=fails):
    """Drop nodes while the program still fails: earliest failing root, only its ancestors, then single steps bypassed."""
    best = prog
    ids = [i for st in prog["steps"] if st["k"] == "op" for i in st["out"]]
    for r in ids:
        cand = dict(prog, steps=ancestors(prog, r) if not prog.get("pre") else prog["steps"][:1 + max(k for k, st in enumerate(prog["steps"]) if (st["k"] == "op" and r in st["out"]))], root=r)
        try:
            v = verdict_fn(cand)
        except Exception:
            v = None
        if v:
            best = cand
            break
    # bypass unary steps (replace the result by its operand) when shapes allow and the failure persists
    changed = True
    while changed:
        changed = False
        for st in list(best["steps"]):
            if st["k"] != "op" or len(st["args"]) != 1 or len(st["out"]) != 1 or st["out"][0] == best["root"]:
                continue
            a, o = st["args"][0], st["out"][0]
            cand_steps = []
            for s2 in best["steps"]:
                if s2 is st:
                    continue
                if s2["k"] == "op":
                    s2 = dict(s2, args=[a if x == o else x for x in s2["args"]])
                cand_steps.append(s2)
            if best.get("pre_root") == o:
                continue
            cand = dict(best, steps=cand_steps)
            try:
                v = verdict_fn(cand)
            except Exception:
                v = None
            if v and v.get("clause") != "program runs":
                best = cand
                changed = True
                break
    return best


def describe(prog):
    out = []
    for st in prog["steps"]:
        if st["k"] == "leaf":
            out.append("t%d = %s(shape=%s, requires_grad=%s)" % (st["id"], "labels" if st.get("labels") else "Tensor", tuple(st["shape"]), st["req"]))
        else:
            out.append("%s = %s(%s%s)%s" % (", ".join("t%d" % i for i in st["out"]), st["op"], ", ".join("t%d" % i for i in st["args"]),
                                              (", " + json.dumps(st["p"])) if st["p"] else "", "   # inside no_grad" if st.get("nograd") else ""))
    made = {i for st in prog["steps"] for i in ([st["id"]] if st["k"] == "leaf" else st["out"])}
    if prog.get("fail_first"):
        out.append("try: t%s.backward(<gradient of the wrong shape>)  except RuntimeError: pass" % prog.get("root"))
    if prog.get("pre") and prog.get("pre_root") is not None and prog["pre_root"] in made and prog["pre_root"] != prog.get("root"):
        out.append("t%s.backward(seed0)" % prog.get("pre_root"))
    out.append("t%s.backward(seed)" % prog.get("root"))
    return out
