"""Shared plumbing of the synapgrad verification checks (DESIGN.md section 6).

A check is a module checks/cXX.py with `run(ctx)`.  It records
  * obligations   - Coq theorems (Props/CXX.v) and whether their .vo was produced,
  * ties          - translator self-checks and model-vs-implementation correspondences,
  * known findings- replayed from known_findings.json,
  * witnesses     - concrete failing inputs found by the property oracle on the implementation.
`Ctx.finish()` turns that into evidence/<ID>.json, KNOWN-FINDING / VIOLATION lines and the exit code.
"""
import fcntl, hashlib, json, os, random, re, subprocess, sys, time, traceback

ROOT = os.path.dirname(os.path.dirname(os.path.abspath(__file__)))
REPO = os.environ.get("VERIF_REPO", "/repo")
COQ = os.path.join(ROOT, "coq")
LOGICAL = "SG"
PY = "/venv/bin/python"

TRUSTED_BASE_COMMON = [
    "Coq 8.16.1 kernel (coqc, full .vo builds; vm_compute used for finite facts and for running models; no native_compute)",
    "lib/py2coq translator (Python ast -> Coq text), fail-closed, validated on every run by an independent evaluator",
    "correspondence harness lib/*.py + checks/*.py (case generation, canonicalisation, exact comparison inside Coq)",
    "CPython 3.12 / NumPy semantics of the modelled fragment (modelled, validated by correspondence, not verified)",
]


def sh(cmd, timeout=600, cwd=None, env=None, input=None):
    """Run a shell command, return (rc, stdout+stderr) with the conda warning line filtered."""
    e = dict(os.environ)
    if env:
        e.update(env)
    try:
        p = subprocess.run(cmd, shell=isinstance(cmd, str), cwd=cwd, env=e, input=input,
                           stdout=subprocess.PIPE, stderr=subprocess.STDOUT, timeout=timeout, text=True)
        out, rc = p.stdout, p.returncode
    except subprocess.TimeoutExpired as ex:
        out = (ex.stdout or b"").decode("utf8", "replace") if isinstance(ex.stdout, bytes) else (ex.stdout or "")
        out += "\n[TIMEOUT after %ss]" % timeout
        rc = 124
    out = "\n".join(l for l in out.splitlines() if "conda.cli.condarc" not in l)
    return rc, out


def write_if_changed(path, text):
    os.makedirs(os.path.dirname(path), exist_ok=True)
    try:
        if open(path).read() == text:
            return False
    except FileNotFoundError:
        pass
    tmp = path + ".tmp%d" % os.getpid()
    with open(tmp, "w") as f:
        f.write(text)
    os.replace(tmp, path)
    return True


class CoqLock:
    def __enter__(self):
        self.f = open(os.path.join(COQ, ".lock"), "w")
        fcntl.flock(self.f, fcntl.LOCK_EX)
        return self

    def __exit__(self, *a):
        fcntl.flock(self.f, fcntl.LOCK_UN)
        self.f.close()


COQ_DIRS = ["Base", "NumPy", "Engine", "Analysis", "State", "IR", "Gen", "Proofs", "Props"]
COQ_ARGS = "-arg -w -arg -notation-overridden,-deprecated-hint-without-locality,-deprecated-instance-without-locality,-deprecated-syntactic-definition,-ambiguous-paths"


def write_coqproject():
    """_CoqProject is derived from the files present (every .v under the library directories)."""
    files = []
    for d in COQ_DIRS:
        for root, _, fs in sorted(os.walk(os.path.join(COQ, d))):
            for f in sorted(fs):
                if f.endswith(".v") and not f.startswith("."):
                    files.append(os.path.relpath(os.path.join(root, f), COQ))
    text = "-Q . %s\n%s\n%s\n" % (LOGICAL, COQ_ARGS, "\n".join(files))
    return write_if_changed(os.path.join(COQ, "_CoqProject"), text)


def ensure_makefile():
    mk = os.path.join(COQ, "Makefile")
    changed = write_coqproject()
    if changed or not os.path.exists(mk):
        sh("coq_makefile -f _CoqProject -o Makefile", cwd=COQ)


def coq_make(targets, timeout=1500, jobs=16):
    """Build .vo targets (paths relative to coq/) under the build lock. Returns (ok, log)."""
    with CoqLock():
        ensure_makefile()
        rc, out = sh("timeout %d make -j%d %s 2>&1" % (timeout, jobs, " ".join(targets)), cwd=COQ, timeout=timeout + 30)
    return rc == 0, out


def coqc_file(relpath, timeout=300):
    """Compile one file of coq/ directly (no make); returns (ok, output)."""
    rc, out = sh("timeout %d coqc -q -Q . %s %s 2>&1" % (timeout, LOGICAL, relpath), cwd=COQ, timeout=timeout + 30)
    if rc in (124, 137, 139) or (rc != 0 and "Error" not in out):
        # killed by the time limit / memory pressure on a loaded machine: once more with a longer limit (a Coq error fails again)
        rc, out = sh("timeout %d coqc -q -Q . %s %s 2>&1" % (3 * timeout, LOGICAL, relpath), cwd=COQ, timeout=3 * timeout + 30)
    return rc == 0, out


_ERR_RE = re.compile(r'File "\./?([^"]+)", line (\d+), characters')


def locate_failures(log):
    """From a make/coqc log, return [{file, line, lemma, message}] for each Coq error."""
    res = []
    lines = log.splitlines()
    for i, l in enumerate(lines):
        m = _ERR_RE.search(l)
        if not m:
            continue
        j = i + 1
        msg = []
        while j < len(lines) and len(msg) < 12 and not _ERR_RE.search(lines[j]) and not lines[j].startswith("make"):
            msg.append(lines[j]); j += 1
        if not any(x.strip().startswith("Error") for x in msg):
            continue
        f, ln = m.group(1), int(m.group(2))
        lemma = None
        try:
            src = open(os.path.join(COQ, f)).read().splitlines()
            for k in range(min(ln, len(src)) - 1, -1, -1):
                mm = re.match(r'\s*(?:Local\s+|Global\s+)?(Lemma|Theorem|Corollary|Example|Definition|Fixpoint|Fact|Instance)\s+([A-Za-z0-9_\']+)', src[k])
                if mm:
                    lemma = mm.group(2); break
        except OSError:
            pass
        res.append({"file": f, "line": ln, "lemma": lemma, "message": " ".join(x.strip() for x in msg)[:600]})
    return res


def theorems_in(relpath):
    src = open(os.path.join(COQ, relpath)).read()
    return re.findall(r'^\s*Theorem\s+([A-Za-z0-9_\']+)', src, re.M)


def parse_assumptions(log):
    """Map theorem name -> list of axioms from `Print Assumptions` blocks preceded by our marker."""
    res = {}
    cur = None
    mode = None
    for l in log.splitlines():
        if 'ASSUMPTIONS ' in l:
            mm = re.search(r'ASSUMPTIONS ([A-Za-z0-9_\']+)', l)
            cur = mm.group(1); res[cur] = []; mode = None; continue
        if cur is None:
            continue
        if l.startswith("Closed under the global context"):
            res[cur] = []; mode = None
        elif l.startswith("Axioms:"):
            mode = "ax"
        elif mode == "ax":
            # an axiom name starts in column 0; its type may start on the same line or (long types) on the next, indented
            mm = re.match(r'^([A-Za-z_][A-Za-z0-9_\.\']*)\s*(:|$)', l)
            if mm:
                res[cur].append(mm.group(1))
            elif l and not l[0].isspace():
                mode = None
    return res


class Ctx:
    def __init__(self, pid, tier, seed, replay=None):
        self.pid, self.tier, self.seed, self.replay = pid, tier, seed, replay
        self.rng = random.Random(seed)
        self.t0 = time.time()
        self.obligations = []      # {name, ok, where, detail}
        self.ties = []             # {name, kind, cases, nontrivial, mismatches:[...], exhaustive, ok}
        self.samples = []
        self.witnesses = []        # {site, class, input, expected, observed, note}
        self.known_printed = []
        self.broken = []           # human readable descriptions of broken proof/correspondence
        self.assumption_axioms = {}
        self.notes = []
        self.extra = {}
        self.trusted = list(TRUSTED_BASE_COMMON)
        self.assumptions = []
        self.workdir = os.path.join(ROOT, "work", pid)
        os.makedirs(self.workdir, exist_ok=True)
        self.corrdir = os.path.join(COQ, "Corr", pid)
        if not replay:
            import shutil
            shutil.rmtree(self.corrdir, ignore_errors=True)      # case files of earlier runs (they can be large)
        os.makedirs(self.corrdir, exist_ok=True)
        self.known = [k for k in load_known() if k["property"] == pid]
        self.props_built = []
        if not replay:               # replays of an earlier run must not survive into this run's verdict
            d = os.path.join(ROOT, "replays", pid)
            if os.path.isdir(d):
                for f in os.listdir(d):
                    if f.startswith(("witness_", "broken_")):
                        os.remove(os.path.join(d, f))

    @property
    def quick(self):
        return self.tier == "quick"

    def log(self, *a):
        print("[%s %6.1fs]" % (self.pid, time.time() - self.t0), *a, file=sys.stderr, flush=True)

    # ---- proof obligations -------------------------------------------------
    def build_props(self, props_rel=None, extra_targets=(), timeout=1500):
        """(Re)build Props/<ID>.vo and record one obligation per Theorem in it."""
        props_rel = props_rel or "Props/%s.v" % self.pid
        names = theorems_in(props_rel)
        vo = props_rel[:-2] + ".vo"
        try:
            os.remove(os.path.join(COQ, vo))
        except FileNotFoundError:
            pass
        ok, log = coq_make(["Base/Cmp.vo"] + list(extra_targets) + [vo], timeout=timeout)
        if ok:
            self.props_built.append(props_rel)
        open(os.path.join(self.workdir, "build.log"), "w").write(log)
        fails = locate_failures(log) if not ok else []
        if ok:
            self.assumption_axioms.update(parse_assumptions(log))
            for n in names:
                self.obligations.append({"name": n, "ok": True, "where": props_rel})
        else:
            # which theorems are affected: if the failure is inside the Props file we can tell by line,
            # otherwise (a dependency broke) every theorem of the file is undischarged.
            for n in names:
                self.obligations.append({"name": n, "ok": False, "where": props_rel})
            desc = "; ".join("%s:%s lemma %s: %s" % (f["file"], f["line"], f["lemma"], f["message"][:200]) for f in fails) or log[-800:]
            self.broken.append({"kind": "proof", "what": "build of %s failed" % vo, "failures": fails, "detail": desc})
            self.log("BUILD FAILED", desc[:500])
        return ok, fails

    # ---- correspondence ----------------------------------------------------
    def coq_eval(self, name, text, timeout=600):
        """Write Corr/<ID>/<name>.v and compile it; returns (ok, stdout)."""
        rel = os.path.join("Corr", self.pid, name + ".v")
        with open(os.path.join(COQ, rel), "w") as f:
            f.write(text)
        return coqc_file(rel, timeout=timeout)

    def coq_eval_many(self, named_texts, timeout=600, par=16):
        """Compile many case files in parallel. Returns {name: (ok, out)}."""
        rels = []
        for name, text in named_texts:
            rel = os.path.join("Corr", self.pid, name + ".v")
            with open(os.path.join(COQ, rel), "w") as f:
                f.write(text)
            rels.append((name, rel))
        procs = {}
        res = {}
        pending = list(rels)
        running = []
        while pending or running:
            while pending and len(running) < par:
                name, rel = pending.pop(0)
                p = subprocess.Popen("timeout %d coqc -q -Q . %s %s 2>&1" % (timeout, LOGICAL, rel), shell=True, cwd=COQ,
                                     stdout=subprocess.PIPE, stderr=subprocess.STDOUT, text=True)
                running.append((name, p))
            name, p = running.pop(0)
            out, _ = p.communicate()
            out = "\n".join(l for l in out.splitlines() if "conda.cli.condarc" not in l)
            res[name] = (p.returncode == 0, out)
        # a case file that failed is compiled once more, alone and with a longer time limit: on a loaded machine coqc can be
        # killed by the limit (or by memory pressure) after it has evaluated everything; a real Coq error fails again
        for name, rel in rels:
            if not res[name][0]:
                rc, out = sh("timeout %d coqc -q -Q . %s %s 2>&1" % (3 * timeout, LOGICAL, rel), cwd=COQ, timeout=3 * timeout + 60)
                out = "\n".join(l for l in out.splitlines() if "conda.cli.condarc" not in l)
                self.notes.append("case file %s: first compilation failed (rc != 0), recompiled alone: rc=%s" % (rel, rc))
                res[name] = (rc == 0, out)
        return res

    def tie(self, name, kind, cases, nontrivial, mismatches, exhaustive=False, note=""):
        ok = len(mismatches) == 0
        self.ties.append({"name": name, "kind": kind, "cases": cases, "nontrivial": nontrivial,
                          "mismatches": mismatches[:20], "n_mismatches": len(mismatches), "exhaustive": exhaustive,
                          "ok": ok, "note": note})
        if not ok:
            self.broken.append({"kind": kind, "what": name, "detail": "%d disagreeing case(s), first: %s" % (len(mismatches), json.dumps(mismatches[0], default=str)[:600])})
            self.log("TIE BROKEN", name, len(mismatches), "mismatches")
        return ok

    def sample(self, s):
        if len(self.samples) < 12:
            self.samples.append(s)

    # ---- known findings / witnesses -----------------------------------------
    def known_finding_still_fails(self, entry, what=None):
        line = "KNOWN-FINDING: property=%s %s" % (self.pid, what or entry["what"])
        print(line, flush=True)
        self.known_printed.append(entry["id"])

    def matches_known(self, site, klass):
        for k in self.known:
            if k.get("status") == "open" and k["site"] == site and k["class"] == klass:
                return k
        return None

    def witness(self, site, klass, input, expected, observed, note=""):
        """A concrete failing input on the implementation. Suppressed iff it falls in an open known finding."""
        k = self.matches_known(site, klass)
        w = {"site": site, "class": klass, "input": input, "expected": expected, "observed": observed, "note": note}
        if k is not None:
            w["known"] = k["id"]
            if k["id"] not in self.known_printed:
                self.known_finding_still_fails(k)
            return False
        self.witnesses.append(w)
        return True

    # ---- reporting -----------------------------------------------------------
    def run_coqchk(self):
        """thorough tier: re-check the compiled property files (and everything they depend on) with the independent
        checker coqchk and record its context summary (axioms, type-in-type, unsafe fixpoints, assumed positivity)."""
        res = []
        budget = int(os.environ.get("VERIF_COQCHK_BUDGET", "2400"))       # seconds for all property files of this check
        t_start = time.time()
        for rel in self.props_built:
            mod = LOGICAL + "." + rel[:-2].replace("/", ".")
            left = min(int(budget - (time.time() - t_start)), max(300, budget // max(1, len(self.props_built))))
            if left < 60:
                res.append({"module": mod, "rc": None, "axioms": [], "flags": [], "not_run": "coqchk budget of %d s used up" % budget})
                self.notes.append("coqchk not run on %s: budget used up (the coqc kernel check of this file stands)" % mod)
                continue
            rc, out = sh("timeout %d coqchk -silent -o -Q . %s %s 2>&1" % (left, LOGICAL, mod), cwd=COQ, timeout=left + 60)
            if rc in (124, 137):
                # not a verdict: the independent re-check did not finish (files depending on Coquelicot/Interval take > 50 min);
                # the coqc kernel check of the same file has succeeded in this run
                res.append({"module": mod, "rc": 124, "axioms": [], "flags": [], "not_run": "coqchk did not finish within %d s" % left})
                self.notes.append("coqchk did not finish on %s within %d s (the coqc kernel check of this file stands)" % (mod, left))
                continue
            summ = out[out.find("CONTEXT SUMMARY"):] if "CONTEXT SUMMARY" in out else out[-600:]
            bad = []
            for key in ("type-in-type", "unsafe (co)fixpoints", "positivity is assumed"):
                m = re.search(re.escape(key) + r":\s*(.*)", summ)
                if m and "<none>" not in m.group(1):
                    bad.append(key)
            axioms = []
            m = re.search(r"\* Axioms:(.*?)\n\s*\n\* Constants", summ, re.S)
            if m and "<none>" not in m.group(1):
                axioms = [a.strip() for a in m.group(1).split("\n") if a.strip()]
            res.append({"module": mod, "rc": rc, "axioms": axioms, "flags": bad})
            if rc != 0 or bad:
                self.broken.append({"kind": "proof", "what": "coqchk rejected %s" % mod, "detail": summ[-600:]})
        self.extra["coqchk"] = res

    def finish(self, level_text="", checker_cmd=None, rule="", exhaustive=None):
        if self.tier == "thorough" and os.environ.get("VERIF_COQCHK", "1") == "1":
            try:
                self.run_coqchk()
            except Exception as ex:      # never let the extra checker turn into a verdict by crashing
                self.notes.append("coqchk step failed to run: %r" % (ex,))
        wall = time.time() - self.t0
        n_ob = len(self.obligations)
        n_ok = sum(1 for o in self.obligations if o["ok"])
        evaluations = sum(t["cases"] for t in self.ties)
        nontrivial = sum(t["nontrivial"] for t in self.ties)
        violations = []
        os.makedirs(os.path.join(ROOT, "replays", self.pid), exist_ok=True)
        # 1. concrete witnesses
        for i, w in enumerate(self.witnesses[:5]):
            path = os.path.join("replays", self.pid, "witness_%d.json" % i)
            json.dump({"property": self.pid, "kind": "failing-input", **w,
                       "broken": self.broken, "replay_cmd": "./check %s --replay %s" % (self.pid, path)},
                      open(os.path.join(ROOT, path), "w"), indent=1, default=str)
            violations.append((path, ""))
        # 2. broken proof / correspondence with no witness
        if self.broken and not self.witnesses:
            path = os.path.join("replays", self.pid, "broken_0.json")
            json.dump({"property": self.pid, "kind": "no-failing-input-found",
                       "broken": self.broken,
                       "explanation": "a theorem or a model/implementation correspondence no longer checks; the violation search found no concrete failing input",
                       "replay_cmd": "./check %s --tier %s" % (self.pid, self.tier)},
                      open(os.path.join(ROOT, path), "w"), indent=1, default=str)
            violations.append((path, " no-failing-input-found"))
        cov = {
            "obligations": n_ob, "discharged": n_ok,
            "checker_cmd": checker_cmd or ("make -C coq Props/%s.vo (coqc 8.16.1), then coqc on generated Corr/%s/*.v" % (self.pid, self.pid)),
            "trusted_base": self.trusted,
            "evaluations": evaluations, "distinct_nontrivial": nontrivial,
            "rule": rule,
            "samples": self.samples or [o["name"] for o in self.obligations[:5]],
            "theorems": [{"name": o["name"], "discharged": o["ok"], "axioms": self.assumption_axioms.get(o["name"], None)} for o in self.obligations],
            "ties": [{k: v for k, v in t.items() if k != "mismatches"} for t in self.ties],
            "broken": self.broken,
            "known_findings_reproduced": self.known_printed,
            "notes": self.notes,
        }
        cov.update(self.extra)
        if exhaustive is not None:
            cov["exhaustive"] = exhaustive
        # what the check assumes or trusts: what the check itself declared, the trusted base, and the union of the axioms that
        # Print Assumptions reported under the property theorems of this run
        axioms = sorted({a for l in self.assumption_axioms.values() for a in (l or [])})
        assumed = list(self.assumptions) + ["trusted: " + t for t in self.trusted if ("trusted: " + t) not in self.assumptions]
        assumed.append("axioms (Print Assumptions, union over the property theorems of this run): " + (", ".join(axioms) or "none"))
        ev = {"property_id": self.pid, "tier": self.tier, "seed": self.seed, "level": "proof",
              "coverage": cov, "assumptions": assumed, "wall_s": round(wall, 2),
              "violations": len(violations)}
        os.makedirs(os.path.join(ROOT, "evidence"), exist_ok=True)
        json.dump(ev, open(os.path.join(ROOT, "evidence", "%s.json" % self.pid), "w"), indent=1, default=str)
        # case files are transient: keep the sources only when something disagreed, never the compiled files
        try:
            for root, _, fs in os.walk(self.corrdir):
                for f in fs:
                    if not violations or not f.endswith(".v"):
                        os.remove(os.path.join(root, f))
        except OSError:
            pass
        for path, suffix in violations:
            print("VIOLATION property=%s replay=%s%s" % (self.pid, path, suffix), flush=True)
        self.log("done: %d/%d obligations, %d cases (%d non-trivial), %d violation(s), %.1fs" % (n_ok, n_ob, evaluations, nontrivial, len(violations), wall))
        return 1 if violations else 0


def load_known():
    p = os.path.join(ROOT, "known_findings.json")
    if not os.path.exists(p):
        return []
    return json.load(open(p))["findings"]


# ---------------------------------------------------------------------------
# Coq literal printing helpers
def cz(n):
    n = int(n)
    return "(%d)%%Z" % n if n < 0 else "%d%%Z" % n


def cn(n):
    n = int(n)
    assert 0 <= n < 5000, n
    return "%d%%nat" % n


def cb(b):
    return "true" if b else "false"


def clist(xs):
    return "[" + "; ".join(xs) + "]"


def cq(fr):
    """Fraction -> Coq Q literal."""
    from fractions import Fraction
    fr = Fraction(fr)
    n, d = fr.numerator, fr.denominator
    return "(Qmake %s %d)" % ("(%d)" % n if n < 0 else str(n), d)


def copt(x, f):
    return "None" if x is None else "(Some %s)" % f(x)
