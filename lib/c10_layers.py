"""C10 helpers: abstraction of concrete Python/NumPy values into the abstract values of coq/IR/Dtype.v, a recorder of
kernel calls (translator self-check), and the catalogue of public-API cases (ops with tensor / Python-scalar operands,
layers, activations, losses, Sequential) run by checks/c10.py.

A case describes ONE call of the public API:
   target   ('TF', name) | ('NF', name) | ('method', name) | ('layer', Class, ctor_kwargs, training) | ('seq', [layer specs])
   argv     argument list; ('T', shape, domain, differentiable[, 'other']) stands for a tensor operand
            ('T*', [specs]) for a list of tensors; anything else is passed as is
   ref      reference shape: callable on the operands' float64 arrays -> shape (plain NumPy / torch), or None
"""
import inspect


# ------------------------------------------------------------------------------------------------ abstraction
DT = {'float16': 'F16', 'float32': 'F32', 'float64': 'F64', 'int64': 'DInt', 'bool': 'DBool'}


def is_int_container(x):
    if isinstance(x, bool):
        return False
    if isinstance(x, int):
        return True
    if isinstance(x, (tuple, list, range)):
        return all(is_int_container(y) for y in x)
    return False


def alpha(np, x, tensor_cls=None):
    """concrete value -> abstract value (python tuple form of c10_absint)"""
    if tensor_cls is not None and isinstance(x, tensor_cls):
        return alpha(np, x.data)
    if x is None:
        return 'NoneV'
    if isinstance(x, np.ndarray):
        d = DT.get(str(x.dtype))
        return ('Np', d, 'KArray') if d else 'ErrV'
    if isinstance(x, np.generic):
        d = DT.get(str(x.dtype))
        return ('Np', d, 'KScalar') if d else 'ErrV'
    if isinstance(x, bool):
        return ('PyBool', x)
    if isinstance(x, int):
        return 'PyInt'
    if isinstance(x, float):
        return 'PyFloat'
    if isinstance(x, str):
        return ('StrV', x)
    if isinstance(x, (tuple, list, range)):
        if len(x) > 0 and all(isinstance(y, np.ndarray) or (tensor_cls is not None and isinstance(y, tensor_cls)) for y in x):
            return ('TupV', [alpha(np, y, tensor_cls) for y in x])
        if is_int_container(x):
            return 'ShapeV'
        return 'OpaqueV'
    if isinstance(x, type) and issubclass(x, np.generic):
        d = DT.get(np.dtype(x).name)
        return ('Np', d, 'KArray') if d else 'ErrV'
    return 'OpaqueV'


def alpha_result(np, x, ret_arity):
    if isinstance(x, tuple) and ret_arity is not None and len(x) == ret_arity:
        return ('TupV', [alpha_result(np, y, None) for y in x])
    if isinstance(x, list) and len(x) > 0 and all(isinstance(y, np.ndarray) for y in x) and len(set(str(y.dtype) for y in x)) == 1:
        return alpha(np, x[0])        # np.split: a pile of arrays of one dtype
    return alpha(np, x)


# ------------------------------------------------------------------------------------------------ kernel recorder
class Recorder:
    """wraps every translated kernel of impl.cpu_ops / impl.conv_tools (the wrappers and the kernels themselves call
    them through the module globals) and records abstract arguments and results"""

    def __init__(self, impl, kernels):
        self.impl = impl
        self.kernels = {(k['module'], k['name']): k for k in kernels}
        self.saved = []
        self.records = {}        # (module, name, args, result) -> count
        self.errors = []

    def __enter__(self):
        impl = self.impl
        mods = {'cpu_ops': impl.cpu_ops, 'conv_tools': impl.conv_tools, 'utils': impl.synapgrad.utils}
        for (mq, name), k in self.kernels.items():
            orig = getattr(mods[mq], name, None)
            if orig is None:
                self.errors.append("kernel %s.%s not found in the implementation" % (mq, name))
                continue
            wrapped = self.wrap(mq, name, orig, k)
            for holder in mods.values():
                if getattr(holder, name, None) is orig:
                    self.saved.append((holder, name, orig))
                    setattr(holder, name, wrapped)
        return self

    def __exit__(self, *a):
        for holder, name, orig in self.saved:
            setattr(holder, name, orig)
        self.saved = []

    def wrap(self, mq, name, orig, k):
        np = self.impl.np
        sig = inspect.signature(orig)
        rec = self

        def f(*a, **kw):
            try:
                ba = sig.bind(*a, **kw)
                ba.apply_defaults()
                args = [alpha(np, ba.arguments[p], rec.impl.synapgrad.Tensor) for p in k['params']]   # a Tensor argument = its data
            except Exception as ex:       # signature changed under the translator
                args = None
                rec.errors.append("%s.%s: cannot bind arguments (%r)" % (mq, name, ex))
            res = orig(*a, **kw)
            if args is not None:
                key = (mq, name, repr(args), repr(alpha_result(np, res, k.get('ret_arity'))))
                if key not in rec.records:
                    rec.records[key] = (args, alpha_result(np, res, k.get('ret_arity')))
            return res
        f.__name__ = name
        return f


# ------------------------------------------------------------------------------------------------ cases
def T(shape, dom='any', diff=True):
    return ('T', tuple(shape), dom, diff)


def cases(impl, thorough=False):
    """catalogue of public-API calls (each run in float32 and float64 with upstream gradients of both dtypes)"""
    np = impl.np
    import torch
    import torch.nn.functional as tF
    C = []

    def add(name, target, argv, ref=None, note=''):
        C.append({'name': name, 'target': target, 'argv': list(argv), 'ref': ref, 'note': note})

    def tt(a):
        return torch.tensor(a)
    # ---- functional.py wrappers -------------------------------------------------------------------------------
    add('add', ('TF', 'add'), [T((2, 3)), T((3,))], lambda a, b: (a + b).shape)
    add('add_bcast3', ('TF', 'add'), [T((2, 1, 3)), T((4, 1))], lambda a, b: (a + b).shape)
    add('add_0d', ('TF', 'add'), [T(()), T(())], lambda a, b: (a + b).shape)
    add('mul', ('TF', 'mul'), [T((2, 1, 3)), T((4, 1))], lambda a, b: (a * b).shape)
    add('mul_rank_up', ('TF', 'mul'), [T((3,)), T((2, 2, 3))], lambda a, b: (a * b).shape)
    add('matmul', ('TF', 'matmul'), [T((2, 3)), T((3, 4))], lambda a, b: (a @ b).shape)
    add('matmul_batched', ('TF', 'matmul'), [T((2, 1, 2, 3)), T((4, 3, 2))], lambda a, b: (a @ b).shape)
    add('addmm', ('TF', 'addmm'), [T((4,)), T((2, 3)), T((3, 4))], lambda a, b, c: (a + b @ c).shape)
    add('pow_int', ('TF', 'pow'), [T((2, 3)), 2], lambda a: a.shape)
    add('pow_float', ('TF', 'pow'), [T((2, 3), 'pos'), 1.5], lambda a: a.shape)
    add('rpow', ('TF', 'rpow'), [T((2, 3)), 2.0], lambda a: a.shape)
    add('rpow_int', ('TF', 'rpow'), [T((2, 3)), 3], lambda a: a.shape)
    add('neg_fn', ('TF', 'neg'), [T((2, 3))], lambda a: a.shape)
    add('slice_basic', ('TF', 'slice'), [T((3, 4)), (slice(1, None), slice(None, None, 2))], lambda a: a[1:, ::2].shape)
    add('slice_elem', ('TF', 'slice'), [T((3, 4)), (1, 2)], lambda a: ())
    add('slice_fancy', ('TF', 'slice'), [T((5,)), [0, 0, 2]], lambda a: (3,))
    add('concat', ('TF', 'concat'), [('T*', [T((2, 3)), T((1, 3))]), 0], lambda a, b: (3, 3))
    add('stack', ('TF', 'stack'), [('T*', [T((2, 3)), T((2, 3))]), 1], lambda a, b: (2, 2, 3))
    add('unbind', ('TF', 'unbind'), [T((2, 3)), 1], lambda a: (2,))
    add('clone', ('TF', 'clone'), [T((2, 3))], lambda a: a.shape)
    add('exp', ('TF', 'exp'), [T((2, 3))], lambda a: a.shape)
    add('log', ('TF', 'log'), [T((2, 3), 'pos')], lambda a: a.shape)
    add('sqrt', ('TF', 'sqrt'), [T((2, 3), 'pos')], lambda a: a.shape)
    add('sum_all', ('TF', 'sum'), [T((2, 3))], lambda a: ())
    add('sum_dim', ('TF', 'sum'), [T((2, 3, 4)), (0, -1)], lambda a: (3,))
    add('sum_keep', ('TF', 'sum'), [T((2, 3)), 1, True], lambda a: (2, 1))
    add('sum_1d_axis0', ('TF', 'sum'), [T((3,)), 0], lambda a: ())
    add('mean_all', ('TF', 'mean'), [T((2, 3))], lambda a: ())
    add('mean_dim', ('TF', 'mean'), [T((2, 3, 4)), (0, -1)], lambda a: (3,))
    add('mean_keep', ('TF', 'mean'), [T((2, 3)), None, True], lambda a: (1, 1))
    add('max_all', ('TF', 'max'), [T((2, 3)), None], lambda a: ())
    add('max_dim', ('TF', 'max'), [T((2, 3)), 1], lambda a: (2,))
    add('min_all', ('TF', 'min'), [T((2, 3)), None], lambda a: ())
    add('min_dim_keep', ('TF', 'min'), [T((2, 3)), 0, True], lambda a: (1, 3))
    add('max_tuple', ('TF', 'max'), [T((2, 3, 4)), (0, -1)], lambda a: (3,))
    add('min_tuple_keep', ('TF', 'min'), [T((2, 3, 4)), (1, 2), True], lambda a: (2, 1, 1))
    add('max_0d_dim0', ('TF', 'max'), [T(()), 0], lambda a: ())
    add('min_0d_dimm1', ('TF', 'min'), [T(()), -1], lambda a: ())
    add('sum_0d_dim0', ('TF', 'sum'), [T(()), 0], lambda a: ())
    add('mean_0d_all', ('TF', 'mean'), [T(())], lambda a: ())
    add('squeeze_neg', ('TF', 'squeeze'), [T((2, 3, 1)), -1], lambda a: (2, 3))
    add('squeeze_tuple_neg', ('TF', 'squeeze'), [T((1, 2, 1)), (-1, 0)], lambda a: (2,))
    add('squeeze_0d', ('TF', 'squeeze'), [T(()), 0], lambda a: ())
    add('flatten_0d', ('TF', 'flatten'), [T(())], lambda a: (1,))
    add('flatten_zero_size', ('TF', 'flatten'), [T((2, 0, 3)), 0, 1], lambda a: (0, 3))
    add('addmm_1d', ('TF', 'addmm'), [T((4,)), T((2, 3)), T((3, 4))], lambda a, b, c: (2, 4))
    add('squeeze', ('TF', 'squeeze'), [T((2, 1, 3)), 1], lambda a: (2, 3))
    add('squeeze_all', ('TF', 'squeeze'), [T((1, 2, 1))], lambda a: (2,))
    add('squeeze_tuple', ('TF', 'squeeze'), [T((1, 2, 1)), (0, 2)], lambda a: (2,))
    add('unsqueeze', ('TF', 'unsqueeze'), [T((2, 3)), 1], lambda a: (2, 1, 3))
    add('reshape', ('TF', 'reshape'), [T((2, 3)), (3, -1)], lambda a: (3, 2))
    add('movedim', ('TF', 'movedim'), [T((2, 3, 4)), 0, 2], lambda a: (3, 4, 2))
    add('transpose', ('TF', 'transpose'), [T((2, 3, 4)), 0, 2], lambda a: (4, 3, 2))
    add('flatten', ('TF', 'flatten'), [T((2, 3, 4)), 1, -1], lambda a: (2, 12))
    add('unfold_dim', ('TF', 'unfold_dim'), [T((2, 5)), 1, 3, 2], lambda a: tuple(tt(a).unfold(1, 3, 2).shape))
    # ---- operator overloads / methods: tensor and Python-scalar second operands ----------------------------------
    for nm, dom in (('__add__', 'any'), ('__radd__', 'any'), ('__sub__', 'any'), ('__rsub__', 'any'), ('__mul__', 'any'),
                    ('__rmul__', 'any'), ('__truediv__', 'pos'), ('__rtruediv__', 'pos')):
        add(nm + '_tensor', ('method', nm), [T((2, 3), dom), T((3,), 'pos')], lambda a, b: np.broadcast_shapes(a.shape, b.shape))
        add(nm + '_pyfloat', ('method', nm), [T((2, 3), dom), 2.0], lambda a: a.shape)
        add(nm + '_pyint', ('method', nm), [T((2, 3), dom), 3], lambda a: a.shape)
    add('__add___pybool', ('method', '__add__'), [T((2, 3)), True], lambda a: a.shape)
    add('__add___0d_pyfloat', ('method', '__add__'), [T(()), 2.0], lambda a: ())
    add('__mul___0d_0d', ('method', '__mul__'), [T(()), T(())], lambda a, b: ())
    add('__matmul__', ('method', '__matmul__'), [T((2, 3)), T((3, 2))], lambda a, b: (2, 2))
    add('__rmatmul__', ('method', '__rmatmul__'), [T((2, 3)), T((4, 2))], lambda a, b: (4, 3))
    add('__pow___pyint', ('method', '__pow__'), [T((2, 3)), 2], lambda a: a.shape)
    add('__pow___pyfloat', ('method', '__pow__'), [T((2, 3), 'pos'), 0.5], lambda a: a.shape)
    add('__pow___neg', ('method', '__pow__'), [T((2, 3), 'pos'), -2], lambda a: a.shape)
    add('__rpow___pyfloat', ('method', '__rpow__'), [T((2, 3)), 2.0], lambda a: a.shape)
    add('__rpow___pyint', ('method', '__rpow__'), [T((2, 3)), 2], lambda a: a.shape)
    add('__neg__', ('method', '__neg__'), [T((2, 3))], lambda a: a.shape)
    add('__getitem___elem', ('method', '__getitem__'), [T((3, 4)), (1, 2)], lambda a: ())
    add('__getitem___row', ('method', '__getitem__'), [T((3, 4)), 0], lambda a: (4,))
    add('__getitem___slice', ('method', '__getitem__'), [T((3, 4)), (slice(None), slice(1, 3))], lambda a: (3, 2))
    add('m_sum', ('method', 'sum'), [T((2, 3))], lambda a: ())
    add('m_mean', ('method', 'mean'), [T((2, 3))], lambda a: ())
    add('m_max', ('method', 'max'), [T((2, 3))], lambda a: ())
    add('m_min', ('method', 'min'), [T((2, 3))], lambda a: ())
    add('m_max_dim', ('method', 'max'), [T((2, 3)), 1, True], lambda a: (2, 1))
    add('m_exp', ('method', 'exp'), [T((2, 3))], lambda a: a.shape)
    add('m_log', ('method', 'log'), [T((2, 3), 'pos')], lambda a: a.shape)
    add('m_sqrt', ('method', 'sqrt'), [T((2, 3), 'pos')], lambda a: a.shape)
    add('m_clone', ('method', 'clone'), [T((2, 3))], lambda a: a.shape)
    add('m_squeeze', ('method', 'squeeze'), [T((2, 1))], lambda a: (2,))
    add('m_unsqueeze', ('method', 'unsqueeze'), [T((2,)), 0], lambda a: (1, 2))
    add('m_reshape', ('method', 'reshape'), [T((2, 3)), (6,)], lambda a: (6,))
    add('m_movedim', ('method', 'movedim'), [T((2, 3)), 0, 1], lambda a: (3, 2))
    add('m_moveaxis', ('method', 'moveaxis'), [T((2, 3)), 0, 1], lambda a: (3, 2))
    add('m_transpose', ('method', 'transpose'), [T((2, 3)), 0, 1], lambda a: (3, 2))
    add('m_flatten', ('method', 'flatten'), [T((2, 3, 2))], lambda a: (12,))
    add('m_unfold', ('method', 'unfold'), [T((2, 5)), 1, 2, 1], lambda a: (2, 4, 2))
    # ---- nn.functional ---------------------------------------------------------------------------------------------
    add('relu', ('NF', 'relu'), [T((2, 3), 'nonzero')], lambda a: a.shape)
    add('leaky_relu', ('NF', 'leaky_relu'), [T((2, 3), 'nonzero'), 0.1], lambda a: a.shape)
    add('leaky_relu_default', ('NF', 'leaky_relu'), [T((2, 3), 'nonzero')], lambda a: a.shape)
    add('selu', ('NF', 'selu'), [T((2, 3), 'nonzero')], lambda a: a.shape)
    add('tanh', ('NF', 'tanh'), [T((2, 3))], lambda a: a.shape)
    add('sigmoid', ('NF', 'sigmoid'), [T((2, 3))], lambda a: a.shape)
    add('softmax', ('NF', 'softmax'), [T((2, 3)), 1], lambda a: a.shape)
    add('softmax_dim0', ('NF', 'softmax'), [T((2, 3, 2)), 0], lambda a: a.shape)
    add('log_softmax', ('NF', 'log_softmax'), [T((2, 3)), -1], lambda a: a.shape)
    add('mse_loss', ('NF', 'mse_loss'), [T((2, 3)), T((2, 3))], lambda a, b: a.shape)
    add('nll_loss', ('NF', 'nll_loss'), [T((3, 4)), T((3,), 'labels:4', False)], lambda a, b: (3,))
    add('bce', ('NF', 'binary_cross_entropy'), [T((2, 3), 'prob'), T((2, 3), 'prob', False)], lambda a, b: a.shape)
    add('bce_logits', ('NF', 'binary_cross_entropy_with_logits'), [T((2, 3)), T((2, 3), 'prob', False)], lambda a, b: a.shape)
    add('cross_entropy', ('NF', 'cross_entropy'), [T((3, 4)), T((3,), 'labels:4', False)], lambda a, b: (3,))
    add('linear', ('NF', 'linear'), [T((2, 3)), T((4, 3)), T((4,))], lambda a, w, b: (2, 4))
    add('linear_nobias', ('NF', 'linear'), [T((2, 3)), T((4, 3))], lambda a, w: (2, 4))
    add('linear_3d', ('NF', 'linear'), [T((2, 2, 3)), T((4, 3)), T((4,))], lambda a, w, b: (2, 2, 4))
    add('max_pool1d', ('NF', 'max_pool1d'), [T((1, 2, 6)), 2, 2, 1, 1], lambda a: tuple(tF.max_pool1d(tt(a), 2, 2, 1, 1).shape))
    add('max_pool2d', ('NF', 'max_pool2d'), [T((1, 2, 4, 5)), (2, 2), (1, 2), (1, 0), 1], lambda a: tuple(tF.max_pool2d(tt(a), (2, 2), (1, 2), (1, 0), 1).shape))
    add('max_pool2d_defaults', ('NF', 'max_pool2d'), [T((1, 2, 4, 4)), 2], lambda a: (1, 2, 2, 2))
    add('avg_pool1d', ('NF', 'avg_pool1d'), [T((1, 2, 6)), 3, 2, 1, 1], lambda a: tuple(tF.avg_pool1d(tt(a), 3, 2, 1).shape))
    add('avg_pool2d', ('NF', 'avg_pool2d'), [T((1, 2, 4, 5)), (2, 3), (1, 1), (0, 1), (1, 1)], lambda a: tuple(tF.avg_pool2d(tt(a), (2, 3), (1, 1), (0, 1)).shape))
    add('unfold', ('NF', 'unfold'), [T((1, 2, 4, 4)), (2, 2), 1, 1, 1], lambda a: tuple(tF.unfold(tt(a), (2, 2), 1, 1, 1).shape))
    add('fold', ('NF', 'fold'), [T((1, 8, 9)), (4, 4), (2, 2), 1, 1, 0], lambda a: tuple(tF.fold(tt(a), (4, 4), (2, 2), 1, 0, 1).shape))
    add('fold_pad', ('NF', 'fold'), [T((1, 8, 25)), (4, 4), (2, 2), 1, 1, 1], lambda a: tuple(tF.fold(tt(a), (4, 4), (2, 2), 1, 1, 1).shape))
    add('conv1d', ('NF', 'conv1d'), [T((2, 2, 6)), T((3, 2, 2)), T((3,)), 2, 1, 2], lambda a, w, b: tuple(tF.conv1d(tt(a), tt(w), tt(b), 2, 1, 2).shape))
    add('conv1d_nobias', ('NF', 'conv1d'), [T((2, 2, 6)), T((3, 2, 2))], lambda a, w: tuple(tF.conv1d(tt(a), tt(w)).shape))
    add('conv2d', ('NF', 'conv2d'), [T((1, 2, 4, 5)), T((3, 2, 2, 3)), T((3,)), (1, 2), (1, 1), (1, 1)], lambda a, w, b: tuple(tF.conv2d(tt(a), tt(w), tt(b), (1, 2), (1, 1), (1, 1)).shape))
    add('conv2d_nobias', ('NF', 'conv2d'), [T((1, 2, 4, 5)), T((3, 2, 2, 3)), None, 1, 0, 1], lambda a, w: tuple(tF.conv2d(tt(a), tt(w)).shape))
    add('batch_norm_train', ('NF', 'batch_norm'), [T((4, 3)), T((3,)), T((3,)), None, None, True, 0.1, 1e-5], lambda a, g, b: a.shape)
    add('batch_norm_stats', ('NF', 'batch_norm'), [T((4, 3, 2)), T((3,)), T((3,)), T((3,), 'any', False), T((3,), 'pos', False), True, 0.1, 1e-5], lambda a, g, b, m, v: a.shape)
    add('batch_norm_eval', ('NF', 'batch_norm'), [T((4, 3, 2)), T((3,)), T((3,)), T((3,), 'any', False), T((3,), 'pos', False), False, 0.1, 1e-5], lambda a, g, b, m, v: a.shape)
    add('batch_norm_noaffine', ('NF', 'batch_norm'), [T((4, 3))], lambda a: a.shape)
    # ---- layers, activations (float32 parameters), train and eval ----------------------------------------------------------
    def layer(name, cls, ctor, inputs, ref, modes=(True, False)):
        for tr in modes:
            add('%s_%s' % (name, 'train' if tr else 'eval'), ('layer', cls, dict(ctor), tr), inputs, ref)
    layer('Linear', 'Linear', {'in_features': 3, 'out_features': 4}, [T((2, 3))], lambda a: (2, 4))
    layer('Linear_nobias', 'Linear', {'in_features': 3, 'out_features': 4, 'bias': False}, [T((2, 3))], lambda a: (2, 4), (True,))
    layer('Neuron', 'Neuron', {'in_features': 3}, [T((2, 3))], lambda a: (2, 1), (True,))
    layer('Flatten', 'Flatten', {}, [T((2, 3, 2))], lambda a: (2, 6), (True,))
    layer('Dropout', 'Dropout', {'p': 0.25}, [T((4, 3))], lambda a: a.shape)
    layer('Unfold', 'Unfold', {'kernel_size': 2, 'padding': 1}, [T((1, 2, 4, 4))], lambda a: tuple(tF.unfold(tt(a), 2, 1, 1, 1).shape), (True,))
    layer('Fold', 'Fold', {'output_size': (4, 4), 'kernel_size': 2}, [T((1, 8, 9))], lambda a: (1, 2, 4, 4), (True,))
    layer('MaxPool1d', 'MaxPool1d', {'kernel_size': 2}, [T((1, 2, 6))], lambda a: (1, 2, 3), (True,))
    layer('MaxPool2d', 'MaxPool2d', {'kernel_size': 2, 'stride': 1}, [T((1, 2, 4, 4))], lambda a: (1, 2, 3, 3), (True,))
    layer('AvgPool1d', 'AvgPool1d', {'kernel_size': 3, 'stride': 1, 'padding': 1}, [T((1, 2, 6))], lambda a: (1, 2, 6), (True,))
    layer('AvgPool2d', 'AvgPool2d', {'kernel_size': (2, 2)}, [T((1, 2, 4, 4))], lambda a: (1, 2, 2, 2), (True,))
    layer('Conv1d', 'Conv1d', {'in_channels': 2, 'out_channels': 3, 'kernel_size': 3, 'padding': 'same'}, [T((2, 2, 6))], lambda a: (2, 3, 6), (True,))
    layer('Conv2d', 'Conv2d', {'in_channels': 2, 'out_channels': 3, 'kernel_size': (2, 3), 'stride': 1, 'padding': 1}, [T((1, 2, 4, 5))], lambda a: (1, 3, 5, 5))
    layer('Conv2d_nobias', 'Conv2d', {'in_channels': 2, 'out_channels': 3, 'kernel_size': 3, 'padding': 'same', 'bias': False}, [T((1, 2, 4, 5))], lambda a: (1, 3, 4, 5), (True,))
    layer('BatchNorm1d', 'BatchNorm1d', {'num_features': 3}, [T((4, 3))], lambda a: a.shape)
    layer('BatchNorm1d_3d', 'BatchNorm1d', {'num_features': 3, 'affine': False}, [T((4, 3, 2))], lambda a: a.shape)
    layer('BatchNorm2d', 'BatchNorm2d', {'num_features': 2}, [T((3, 2, 2, 2))], lambda a: a.shape)
    layer('BatchNorm2d_nostats', 'BatchNorm2d', {'num_features': 2, 'track_running_stats': False}, [T((3, 2, 2, 2))], lambda a: a.shape)
    layer('BatchNorm1d_f64', 'BatchNorm1d', {'num_features': 3, 'dtype': 'float64'}, [T((4, 3))], lambda a: a.shape, (True,))
    for act, ctor in (('ReLU', {}), ('LeakyReLU', {'negative_slope': 0.2}), ('SELU', {}), ('Tanh', {}), ('Sigmoid', {}), ('Softmax', {'dim': 1}), ('LogSoftmax', {'dim': 1})):
        layer(act, act, ctor, [T((2, 3), 'nonzero')], lambda a: a.shape, (True,))
    # ---- losses x reductions ---------------------------------------------------------------------------------------------------
    for red in ('mean', 'sum', 'none'):
        rs = lambda full, red=red: (lambda *a: () if red != 'none' else full)
        add('MSELoss_' + red, ('layer', 'MSELoss', {'reduction': red}, True), [T((2, 3)), T((2, 3))], rs((2, 3)))
        add('NLLLoss_' + red, ('layer', 'NLLLoss', {'reduction': red}, True), [T((3, 4)), T((3,), 'labels:4', False)], rs((3,)))
        add('BCELoss_' + red, ('layer', 'BCELoss', {'reduction': red}, True), [T((2, 3), 'prob'), T((2, 3), 'prob', False)], rs((2, 3)))
        add('BCEWithLogitsLoss_' + red, ('layer', 'BCEWithLogitsLoss', {'reduction': red}, True), [T((2, 3)), T((2, 3), 'prob', False)], rs((2, 3)))
        add('CrossEntropyLoss_' + red, ('layer', 'CrossEntropyLoss', {'reduction': red}, True), [T((3, 4)), T((3,), 'labels:4', False)], rs((3,)))
    # ---- Sequential ----------------------------------------------------------------------------------------------------------------
    add('Sequential_mlp', ('seq', [('Linear', {'in_features': 3, 'out_features': 5}), ('ReLU', {}), ('Dropout', {'p': 0.25}),
                                   ('Linear', {'in_features': 5, 'out_features': 2}), ('LogSoftmax', {'dim': 1})], True), [T((4, 3))], lambda a: (4, 2))
    add('Sequential_cnn', ('seq', [('Conv2d', {'in_channels': 1, 'out_channels': 2, 'kernel_size': 3, 'padding': 1}), ('BatchNorm2d', {'num_features': 2}),
                                   ('Tanh', {}), ('MaxPool2d', {'kernel_size': 2}), ('Flatten', {}), ('Linear', {'in_features': 8, 'out_features': 3})], True),
        [T((2, 1, 4, 4))], lambda a: (2, 3))
    add('Sequential_eval', ('seq', [('Linear', {'in_features': 3, 'out_features': 3}), ('BatchNorm1d', {'num_features': 3}), ('Dropout', {'p': 0.5}), ('Sigmoid', {})], False),
        [T((4, 3))], lambda a: (4, 3))

    # ---- boundary values of numeric / structural parameters on which a branch of the implementation depends --------------
    for pv in (0.0, 0.5, 1.0):
        layer('Dropout_p%s' % str(pv).replace('.', '_'), 'Dropout', {'p': pv}, [T((4, 3))], lambda a: a.shape)
    for sl in (0, 1, 1.5):
        add('leaky_relu_slope_%s' % str(sl).replace('.', '_'), ('NF', 'leaky_relu'), [T((2, 3), 'nonzero'), sl], lambda a: a.shape)
        layer('LeakyReLU_slope_%s' % str(sl).replace('.', '_'), 'LeakyReLU', {'negative_slope': sl}, [T((2, 3), 'nonzero')], lambda a: a.shape, (True,))
    for mv in (0.0, 1.0, None):
        layer('BatchNorm1d_momentum_%s' % str(mv).replace('.', '_'), 'BatchNorm1d', {'num_features': 3, 'momentum': mv}, [T((5, 3))], lambda a: a.shape)
    layer('BatchNorm1d_eps0', 'BatchNorm1d', {'num_features': 3, 'eps': 0.0}, [T((5, 3))], lambda a: a.shape)
    layer('BatchNorm2d_eps0_m1', 'BatchNorm2d', {'num_features': 2, 'eps': 0.0, 'momentum': 1.0}, [T((3, 2, 2, 2))], lambda a: a.shape)
    for nm, st in (('none', None), ('eq', 2), ('gt', 3)):
        add('max_pool1d_stride_' + nm, ('NF', 'max_pool1d'), [T((1, 2, 7)), 2, st], lambda a, st=st: tuple(tF.max_pool1d(tt(a), 2, st).shape))
        add('avg_pool2d_stride_' + nm, ('NF', 'avg_pool2d'), [T((1, 2, 6, 6)), 2, st], lambda a, st=st: tuple(tF.avg_pool2d(tt(a), 2, st).shape))
        layer('MaxPool2d_stride_' + nm, 'MaxPool2d', {'kernel_size': 2, 'stride': st}, [T((1, 2, 6, 6))], lambda a, st=st: tuple(tF.max_pool2d(tt(a), 2, st).shape), (True,))
    for pd in (0, 1):
        for dl in (1, 2):
            add('max_pool2d_p%d_d%d' % (pd, dl), ('NF', 'max_pool2d'), [T((1, 2, 6, 6)), 3, 1, pd, dl], lambda a, pd=pd, dl=dl: tuple(tF.max_pool2d(tt(a), 3, 1, pd, dl).shape))
            add('avg_pool1d_p%d_d%d' % (pd, dl), ('NF', 'avg_pool1d'), [T((1, 2, 8)), 2, 1, pd, dl], None)
            add('conv2d_p%d_d%d' % (pd, dl), ('NF', 'conv2d'), [T((1, 2, 6, 6)), T((3, 2, 2, 2)), T((3,)), 1, pd, dl],
                lambda a, w, b, pd=pd, dl=dl: tuple(tF.conv2d(tt(a), tt(w), tt(b), 1, pd, dl).shape))
    for pad in ('valid', 'same', 0):
        layer('Conv1d_pad_%s' % pad, 'Conv1d', {'in_channels': 2, 'out_channels': 3, 'kernel_size': 3, 'padding': pad}, [T((2, 2, 6))],
              lambda a, pad=pad: (2, 3, 6 if pad == 'same' else 4), (True,))
        layer('Conv2d_pad_%s' % pad, 'Conv2d', {'in_channels': 2, 'out_channels': 3, 'kernel_size': 3, 'padding': pad, 'bias': pad != 0}, [T((1, 2, 5, 5))],
              lambda a, pad=pad: (1, 3, 5, 5) if pad == 'same' else (1, 3, 3, 3), (True,))
    layer('Conv1d_nobias', 'Conv1d', {'in_channels': 2, 'out_channels': 3, 'kernel_size': 2, 'bias': False}, [T((2, 2, 6))], lambda a: (2, 3, 5), (True,))
    for ex in (0, 1, 2, 0.5, -1):
        add('pow_exp_%s' % str(ex).replace('.', '_').replace('-', 'm'), ('method', '__pow__'), [T((2, 3), 'pos'), ex], lambda a: a.shape)
    for bs in (1, 2, 0.5):
        add('rpow_base_%s' % str(bs).replace('.', '_'), ('method', '__rpow__'), [T((2, 3)), bs], lambda a: a.shape)
    for dm in (0, -1):
        add('softmax_dim_%d' % dm, ('NF', 'softmax'), [T((3, 4)), dm], lambda a: a.shape)
        add('log_softmax_dim_%d' % dm, ('NF', 'log_softmax'), [T((3, 4)), dm], lambda a: a.shape)
        add('Softmax_layer_dim_%d' % dm, ('layer', 'Softmax', {'dim': dm}, True), [T((3, 4))], lambda a: a.shape)
    add('squeeze_first', ('TF', 'squeeze'), [T((1, 3)), 0], lambda a: (3,))
    add('squeeze_last_not1', ('TF', 'squeeze'), [T((2, 3)), -1], lambda a: (2, 3))
    add('flatten_same_dim', ('TF', 'flatten'), [T((2, 3, 4)), 1, 1], lambda a: (2, 3, 4))
    add('flatten_all_neg', ('TF', 'flatten'), [T((2, 3, 4)), -3, -1], lambda a: (24,))
    add('flatten_last_two', ('TF', 'flatten'), [T((2, 3, 4)), -2], lambda a: (2, 12))
    for kd in (False, True):
        for fn in ('sum', 'mean', 'max', 'min'):
            add('%s_all_keep%d' % (fn, kd), ('TF', fn), [T((2, 3)), None, kd], lambda a, kd=kd: (1, 1) if kd else ())
            add('%s_dim1_keep%d' % (fn, kd), ('TF', fn), [T((2, 3)), 1, kd], lambda a, kd=kd: (2, 1) if kd else (2,))
    # ---- a leaf that is the root of backward ------------------------------------------------------------------------------------
    add('leaf_root', ('leaf',), [T((2, 3))], lambda a: a.shape)
    return C


# ------------------------------------------------------------------------------------------------ running a case
def coq_absval(v):
    from lib.c10_absint import coq_absval as f
    return f(v)


def const(v):
    return "(DConst %s)" % coq_absval(v)


def ctor_kwargs(impl, kw):
    np = impl.np
    out = {}
    for k, v in kw.items():
        out[k] = getattr(np, v) if (k == 'dtype' and isinstance(v, str)) else v
    return out


def bound_alpha(impl, fn, params, args, kwargs, skip_self=False):
    """abstract values of a call's arguments in the order of `params` (defaults applied)"""
    sig = inspect.signature(fn)
    ba = sig.bind(*args, **kwargs)
    ba.apply_defaults()
    T = impl.synapgrad.Tensor
    vals = []
    for p in params:
        if p not in ba.arguments:
            raise KeyError("parameter %s of %s not found in the implementation's signature" % (p, getattr(fn, '__name__', fn)))
        vals.append(alpha(impl.np, ba.arguments[p], T))
    return vals


class Built:
    pass


def build(impl, info, case, dtype, rng):
    """instantiate the operands of a case for a dtype; returns an object with .run() -> outputs, .tensors, .params,
    .pred (Coq dexpr text of the predicted result set), .mixed (floating operands of several dtypes)"""
    from lib import opcatalog
    np, sg = impl.np, impl.synapgrad
    Tn = sg.Tensor
    b = Built()
    b.tensors, b.specs, b.datas = [], [], []

    def mk(spec):
        # dtype: a name, or a list of names assigned to the floating operands in order (mixed-operand runs)
        dt = dtype if isinstance(dtype, str) else dtype[min(len([x for x in b.specs if not x[2].startswith('labels')]), len(dtype) - 1)]
        d = opcatalog.make_operand(impl, rng, (spec[1], spec[2], spec[3]), dt)
        t = Tn(d.copy(), requires_grad=bool(spec[3]))
        b.tensors.append(t); b.specs.append(spec); b.datas.append(d)
        return t
    argv = []
    for a in case['argv']:
        if isinstance(a, tuple) and a and a[0] == 'T':
            argv.append(mk(a))
        elif isinstance(a, tuple) and a and a[0] == 'T*':
            argv.append([mk(x) for x in a[1]])
        else:
            argv.append(a)
    tg = case['target']
    b.params = []
    b.mixed = False
    b.multi = False
    have = info is not None
    wr = {w['fn']: w for w in info['wrappers']} if have else {}
    me = {m['fn']: m for m in info['methods']} if have else {}
    la = {l['coq']: l for l in info['layers']} if have else {}
    b.pred = None
    if tg[0] in ('TF', 'NF'):
        modq = 'functional' if tg[0] == 'TF' else 'nn.functional'
        fn = getattr(impl.TF if tg[0] == 'TF' else impl.NF, tg[1])
        if have:
            w = wr[modq + '.' + tg[1]]
            vals = bound_alpha(impl, fn, w['params'], argv, {})
            b.pred = "(DProj 0 (DApp %s [%s; DConst ErrV]))" % (w['coq'], "; ".join(const(v) for v in vals))
            b.multi = w['multi']
        b.run = lambda: fn(*argv)
    elif tg[0] == 'method':
        fn = getattr(Tn, tg[1])
        if have:
            m = me['Tensor.' + tg[1]]
            vals = bound_alpha(impl, fn, m['params'], argv, {})
            b.pred = "(DApp %s [%s])" % (m['coq'], "; ".join(const(v) for v in vals))
        b.run = lambda: fn(*argv)
    elif tg[0] == 'layer':
        cls = getattr(impl.nn, tg[1])
        kw = ctor_kwargs(impl, tg[2])
        obj = cls(**kw)
        obj.train() if tg[3] else obj.eval()
        b.params = list(obj.parameters())
        red = tg[2].get('reduction') if tg[1].endswith('Loss') else None
        cn = 'l_' + tg[1] + ('_' + red if red else '')
        if have:
            l = la[cn]
            cvals = bound_alpha(impl, cls.__init__, l['cparams'], [obj], kw) if l['cparams'] else []
            if red:
                cvals = ['OpaqueV' if p == 'reduction' else v for p, v in zip(l['cparams'], cvals)]
            ivals = [alpha(np, t, Tn) for t in argv]
            b.pred = "(DApp %s [%s])" % (cn, "; ".join(const(v) for v in ivals + [('PyBool', bool(tg[3]))] + cvals))
        b.run = lambda: obj(*argv)
        b.obj = obj
    elif tg[0] == 'seq':
        objs = []
        pred = const(alpha(np, argv[0], Tn))
        for cname, kw0 in tg[1]:
            cls = getattr(impl.nn, cname)
            kw = ctor_kwargs(impl, kw0)
            o = cls(**kw)
            objs.append(o)
            if have:
                l = la['l_' + cname]
                cvals = bound_alpha(impl, cls.__init__, l['cparams'], [o], kw) if l['cparams'] else []
                pred = "(DApp l_%s [%s])" % (cname, "; ".join([pred] + [const(v) for v in [('PyBool', bool(tg[2]))] + cvals]))
        seq = impl.nn.Sequential(*objs)
        seq.train() if tg[2] else seq.eval()
        b.params = list(seq.parameters())
        b.pred = pred if have else None
        b.run = lambda: seq(*argv)
        b.obj = seq
    elif tg[0] == 'leaf':
        b.pred = const(alpha(np, argv[0], Tn))
        b.run = lambda: argv[0]
    else:
        raise ValueError(tg)
    fl = set(str(t.dtype) for t in b.tensors + b.params if str(t.dtype).startswith('float'))
    b.mixed = len(fl) > 1
    return b


def observe(impl, info, case, dtype, up_dtype, rng, np_seed):
    """run one case; returns a dict of observations (dtypes / shapes of result, of every operand's and parameter's
    gradient, of the root's own gradient) or {'error': ...}"""
    np, sg = impl.np, impl.synapgrad
    impl.reset_modes()
    np.random.seed(np_seed)
    b = build(impl, info, case, dtype, rng)
    # every Tensor created while the public call runs (the operands and parameters exist already)
    Tcls = sg.Tensor
    orig_init = Tcls.__init__
    created = []

    def spy_init(self, data, *a, **k):
        kind = 'tensor' if isinstance(data, Tcls) else ('ndarray' if isinstance(data, np.ndarray) else ('generic' if isinstance(data, np.generic) else 'python'))
        orig_init(self, data, *a, **k)
        try:
            created.append((kind, str(self.data.dtype), tuple(self.data.shape)))
        except Exception:
            pass
    Tcls.__init__ = spy_init
    try:
        out = b.run()
    finally:
        Tcls.__init__ = orig_init
    outs = list(out) if isinstance(out, (tuple, list)) else [out]
    o0 = outs[0]
    obs = {'pred': b.pred, 'mixed': b.mixed, 'result_dtype': str(o0.dtype), 'result_shape': tuple(o0.shape),
           'all_results_dtype': sorted(set(str(o.dtype) for o in outs)), 'n_out': len(outs),
           'operand_dtypes': [str(t.dtype) for t in b.tensors], 'param_dtypes': [str(p.dtype) for p in b.params],
           'is_ndarray': isinstance(o0.data, np.ndarray),
           'created': sorted(set(created)), 'python_scalar_wraps': sorted(set(c for c in created if c[0] == 'python'))}
    try:
        red = o0.sum()           # the 0-d reduction of the result keeps its dtype too
        obs['sum_dtype'], obs['sum_shape'] = str(red.dtype), tuple(red.shape)
    except Exception as ex:
        obs['sum_dtype'], obs['sum_shape'] = 'raises %r' % (ex,), None
    ref = case.get('ref')
    if ref is not None:
        arrs = [d.astype(np.float64) if str(d.dtype).startswith('float') else d for d in b.datas]
        obs['ref_shape'] = tuple(int(x) for x in ref(*arrs))
    grads = []
    if o0.requires_grad:
        if up_dtype == 'default':
            o0.backward()
            up = ('default', tuple(o0.shape))
        else:
            g = sg.Tensor((1 + np.arange(o0.data.size)).reshape(o0.shape).astype(up_dtype))
            o0.backward(g)
            up = (up_dtype, tuple(o0.shape))
        obs['upstream'] = up
        for kind, lst in (('operand', b.tensors), ('parameter', b.params)):
            for i, t in enumerate(lst):
                if not t.requires_grad:
                    continue
                gg = t._grad
                grads.append({'who': '%s%d' % (kind, i), 'root': t is o0, 'dtype': str(t.dtype), 'shape': tuple(t.shape),
                              'grad_dtype': None if gg is None else str(gg.dtype), 'grad_shape': None if gg is None else tuple(gg.shape)})
        if not any(t is o0 for t in b.tensors + b.params):
            gg = o0._grad
            grads.append({'who': 'root', 'root': True, 'dtype': str(o0.dtype), 'shape': tuple(o0.shape),
                          'grad_dtype': None if gg is None else str(gg.dtype), 'grad_shape': None if gg is None else tuple(gg.shape)})
    obs['grads'] = grads
    # running statistics of batch-norm layers (observation only)
    stats = []
    for o in ([getattr(b, 'obj', None)] if getattr(b, 'obj', None) is not None else []):
        mods = [o] + (list(o.submodules()) if hasattr(o, 'submodules') else [])
        for m in mods:
            rm = getattr(m, 'running_mean', None)
            if rm is not None:
                stats.append(str(rm.dtype))
    obs['running_stats_dtypes'] = stats
    impl.reset_modes()
    return obs


def judge(obs, dtype):
    """the property, stated directly on the observations (no model). Returns a list of (class, expected, observed)."""
    bad = []
    if 'error' in obs:
        return bad
    if not obs['mixed']:
        if obs['all_results_dtype'] != [dtype]:
            bad.append(('result-dtype', dtype, obs['all_results_dtype']))
        # no tensor of another floating dtype is built from array data on the way (a hidden float32 round trip of a
        # float64 computation); Python scalars wrapped by Tensor(2.0) are float32 by construction and only counted
        for kind, dt, shp in obs.get('created', []):
            if kind in ('ndarray', 'generic') and dt.startswith('float') and dt != dtype:
                bad.append(('narrow-intermediate', 'every tensor created while applying the call to %s operands is %s' % (dtype, dtype),
                            'a %s tensor of shape %s built from %s data' % (dt, list(shp), kind)))
                break
    if not obs['mixed'] and 'sum_dtype' in obs and (obs['sum_dtype'] != dtype or obs['sum_shape'] is None or tuple(obs['sum_shape']) != ()):
        bad.append(('reduction-dtype', [dtype, []], [obs['sum_dtype'], None if obs['sum_shape'] is None else list(obs['sum_shape'])]))
    if not obs['is_ndarray']:
        bad.append(('result-not-ndarray', 'ndarray', 'other'))
    if 'ref_shape' in obs and tuple(obs['ref_shape']) != tuple(obs['result_shape']):
        bad.append(('result-shape', list(obs['ref_shape']), list(obs['result_shape'])))
    for g in obs['grads']:
        if g['grad_dtype'] is None:
            bad.append(('grad-missing:' + g['who'], g['dtype'], None))
            continue
        if g['grad_dtype'] != g['dtype']:
            bad.append(('grad-dtype:' + g['who'], g['dtype'], g['grad_dtype']))
        if tuple(g['grad_shape']) != tuple(g['shape']):
            bad.append(('grad-shape:' + g['who'], list(g['shape']), list(g['grad_shape'])))
    return bad


# ------------------------------------------------------------------------------------------------ value-level oracle
# Python-scalar operands: the results (and gradients) are BIT-EXACTLY the plain NumPy results computed in the tensor's
# dtype.  References (the strongest bit-exact ones that hold on the repaired code; `/` is implemented as
# x * other**-1 and other * x**-1, so true division a / s is NOT the reference: it differs in the last bit):
SCALARS = (0.1, 0.3, 1.0 / 3.0, 2.7, 3.0, 7, 16777217)     # 2**24 + 1 is not representable in float32
SCALAR_OPS = [
    # (text, method, call on the Tensor, NumPy reference on the data, gradient of sum() w.r.t. x as a scalar or None)
    ('x * s', '__mul__', lambda x, s: x * s, lambda a, s: a * s, lambda s: s),
    ('s * x', '__rmul__', lambda x, s: s * x, lambda a, s: a * s, lambda s: s),
    ('x + s', '__add__', lambda x, s: x + s, lambda a, s: a + s, lambda s: 1.0),
    ('s + x', '__radd__', lambda x, s: s + x, lambda a, s: a + s, lambda s: 1.0),
    ('x - s', '__sub__', lambda x, s: x - s, lambda a, s: a - s, lambda s: 1.0),
    ('s - x', '__rsub__', lambda x, s: s - x, lambda a, s: s - a, lambda s: -1.0),
    ('x / s', '__truediv__', lambda x, s: x / s, lambda a, s: a * (s ** -1), lambda s: s ** -1),
    ('s / x', '__rtruediv__', lambda x, s: s / x, lambda a, s: (a ** -1) * s, None),
    ('-x', '__neg__', lambda x, s: -x, lambda a, s: -a, lambda s: -1.0),
]


def scalar_value_inputs(np, dtype, rng):
    xs = [np.array([1.0, 3.0], dtype=dtype)]
    for _ in range(3):
        xs.append(np.array([[rng.choice([-1, 1]) * rng.uniform(0.5, 3.0) for _ in range(3)] for _ in range(2)], dtype=dtype))
    return xs


def scalar_value_check(impl, optext, dtype, s, xlist):
    """returns None if the result and the gradient are bit-exact, else (what, expected, observed)"""
    np, sg = impl.np, impl.synapgrad
    ent = [o for o in SCALAR_OPS if o[0] == optext][0]
    a = np.array(xlist, dtype=dtype)
    impl.reset_modes()
    x = sg.Tensor(a.copy(), requires_grad=True)
    y = ent[2](x, s)
    ref = ent[3](a, s)
    if str(y.data.dtype) != str(ref.dtype) or y.data.shape != ref.shape or np.asarray(y.data).tobytes() != np.asarray(ref).tobytes():
        return ('value', {'dtype': str(ref.dtype), 'values': [repr(float(v)) for v in np.ravel(ref)]},
                {'dtype': str(y.data.dtype), 'values': [repr(float(v)) for v in np.ravel(y.data)],
                 'difference': [float(v) for v in np.ravel(np.asarray(y.data, dtype=np.float64) - np.asarray(ref, dtype=np.float64))] if y.data.shape == ref.shape else None})
    if ent[4] is not None:
        y.sum().backward()
        g = x._grad
        gref = np.full(a.shape, ent[4](s)).astype(dtype) if dtype == 'float32' else np.full(a.shape, ent[4](s), dtype=dtype)
        if dtype == 'float32':
            gref = np.full(a.shape, np.float32(ent[4](s)), dtype=np.float32)
        if g is None or str(g.dtype) != dtype or g.shape != a.shape or g.tobytes() != gref.tobytes():
            return ('gradient', {'dtype': dtype, 'values': [repr(float(v)) for v in np.ravel(gref)]},
                    None if g is None else {'dtype': str(g.dtype), 'values': [repr(float(v)) for v in np.ravel(g)]})
    return None


# ------------------------------------------------------------------------------------------------ stateful layers: histories
def history_cases():
    """BatchNorm1d/2d x momentum {0.1, None} x track_running_stats x affine x layer dtype {default, float32, float64}
    x k in {0,1,2,3} training forwards followed by an eval forward; inputs have the layer's dtype"""
    out = []
    for cls, shape in (('BatchNorm1d', (6, 3)), ('BatchNorm1d', (4, 3, 5)), ('BatchNorm2d', (4, 3, 2, 2))):
        for momentum in (0.1, None):
            for track in (True, False):
                for affine in (True, False):
                    for layer_dtype in (None, 'float32', 'float64'):
                        for k in (0, 1, 2, 3):
                            if shape == (4, 3, 5) and (k not in (0, 2) or layer_dtype is None):
                                continue
                            out.append({'cls': cls, 'shape': list(shape), 'momentum': momentum, 'track_running_stats': track, 'affine': affine,
                                        'layer_dtype': layer_dtype, 'dtype': layer_dtype or 'float32', 'k': k})
    return out


def run_history(impl, smeta, h, seed):
    """runs one history on the real layer; returns {'ctor': abstract ctor args, 'init_state', 'steps': [...], 'problems': [...]}"""
    import numbers
    np, sg, nn = impl.np, impl.synapgrad, impl.nn
    Tn = sg.Tensor
    impl.reset_modes()
    rs = np.random.RandomState(seed % (2 ** 31))
    cls = getattr(nn, h['cls'])
    kw = {'num_features': h['shape'][1], 'momentum': h['momentum'], 'track_running_stats': h['track_running_stats'], 'affine': h['affine']}
    if h['layer_dtype'] is not None:
        kw['dtype'] = getattr(np, h['layer_dtype'])
    layer_dt = h['layer_dtype'] or 'float32'
    dt = h['dtype']
    obj = cls(**kw)
    meta = [m for m in (smeta or []) if m['class'] == h['cls']]
    rec = {'steps': [], 'problems': []}

    def state():
        if not meta:
            return None
        return ('TupV', [alpha(np, getattr(obj, a), Tn) for a in meta[0]['attrs']])
    if meta:
        rec['ctor'] = bound_alpha(impl, cls.__init__, meta[0]['cparams'], [obj], kw)
        rec['init_state'] = state()

    def buffers(where):
        for nm in ('running_mean', 'running_var'):
            b = getattr(obj, nm, None)
            if b is not None and str(b.dtype) != layer_dt:
                rec['problems'].append(('%s: %s is %s' % (where, nm, b.dtype), layer_dt, str(b.dtype)))
        n = getattr(obj, 'num_batches_tracked', None)
        if n is not None and (isinstance(n, bool) or not isinstance(n, numbers.Integral)):
            rec['problems'].append(('%s: num_batches_tracked is a %s' % (where, type(n).__name__), 'an integer', repr(n)))
    buffers('after construction')
    plan = [True] * h['k'] + [False]
    for i, tr in enumerate(plan):
        where = 'forward %d (%s)' % (i + 1, 'train' if tr else 'eval')
        obj.train() if tr else obj.eval()
        x = Tn(rs.randn(*h['shape']).astype(dt), requires_grad=True)
        out = obj(x)
        red = out.mean() if not tr else out.sum()
        if str(out.dtype) != dt:
            rec['problems'].append(('%s: output dtype' % where, dt, str(out.dtype)))
        if tuple(out.shape) != tuple(h['shape']):
            rec['problems'].append(('%s: output shape' % where, list(h['shape']), list(out.shape)))
        if str(red.dtype) != dt or tuple(red.shape) != ():
            rec['problems'].append(('%s: 0-d reduction of the output' % where, [dt, []], [str(red.dtype), list(red.shape)]))
        red.backward()
        for nm, t in (('x', x), ('weight', getattr(obj, 'weight', None)), ('bias', getattr(obj, 'bias', None))):
            if t is None or not t.requires_grad:
                continue
            g = t._grad
            if g is None or str(g.dtype) != str(t.dtype) or tuple(g.shape) != tuple(t.shape):
                rec['problems'].append(('%s: grad of %s' % (where, nm), [str(t.dtype), list(t.shape)], None if g is None else [str(g.dtype), list(g.shape)]))
        buffers('after ' + where)
        rec['steps'].append({'training': tr, 'x': alpha(np, x, Tn), 'out': alpha(np, out, Tn), 'state': state(), 'out_dtype': str(out.dtype),
                             'stats': [str(getattr(obj, nm).dtype) for nm in ('running_mean', 'running_var') if getattr(obj, nm, None) is not None]})
    impl.reset_modes()
    return rec


# ------------------------------------------------------------------------------------------------ non-contiguous operands
# The first operand of an op is handed over in a non-contiguous memory layout; the result (dtype, values, 0-d sum, gradients)
# must be that of the same op on the contiguous copy of the same values in the same dtype.
LAYOUTS = ('transpose', 'movedim', 'unbind', 'slice', 'fortran', 'strided', 'broadcast0')


def make_layout(impl, arr, layout):
    """a Tensor whose data has the values of `arr` in a non-contiguous layout; returns None if the layout does not apply"""
    np, sg = impl.np, impl.synapgrad
    T = sg.Tensor
    nd = arr.ndim
    if nd < 2 and layout not in ('strided', 'slice'):
        return None
    if layout == 'transpose':            # made by the library itself: x.transpose(0, -1) of the swapped array
        t = T(np.ascontiguousarray(np.swapaxes(arr, 0, nd - 1))).transpose(0, nd - 1)
    elif layout == 'movedim':
        t = T(np.ascontiguousarray(np.moveaxis(arr, 0, nd - 1))).movedim(nd - 1, 0)
    elif layout == 'unbind':             # TF.unbind of a stack along the last axis: rollaxis views
        big = np.stack([arr, arr + 1], axis=nd)
        t = impl.TF.unbind(T(big), nd)[0]
    elif layout == 'slice':              # x[..., ::2] of a tensor twice as wide
        big = np.repeat(arr, 2, axis=nd - 1)
        t = T(big)[(Ellipsis, slice(None, None, 2))]
    elif layout == 'fortran':
        t = T(np.asfortranarray(arr))
    elif layout == 'strided':
        big = np.zeros(arr.shape[:-1] + (2 * arr.shape[-1],), dtype=arr.dtype)
        big[..., ::2] = arr
        t = T(big[..., ::2])
    elif layout == 'broadcast0':         # a 0-stride view: every row the same
        row = arr[:1]
        t = T(np.broadcast_to(row, arr.shape))
    else:
        raise ValueError(layout)
    if t.data.flags['C_CONTIGUOUS'] and layout != 'broadcast0':
        return None
    t = T(t.data)                        # a leaf holding the very same (non-contiguous) buffer
    assert t.data.flags['C_CONTIGUOUS'] is False or layout == 'broadcast0'
    return t


def layout_ops(impl):
    """(name, shape of the first operand, domain, call(first operand tensor, rng, dtype) -> result tensor)"""
    np, sg, TF, NF, nn = impl.np, impl.synapgrad, impl.TF, impl.NF, impl.nn
    T = sg.Tensor

    def other(rs, shape, dt, pos=False):
        a = rs.uniform(0.5, 2.0, size=shape) if pos else rs.uniform(-2, 2, size=shape)
        return T(a.astype(dt), requires_grad=True)

    def lay(cls, kw):
        def f(x, rs, dt):
            np.random.seed(5)
            m = cls(**kw)
            for p in m.parameters():
                p.data = p.data.astype(dt)
            return m(x)
        return f
    ops = [
        ('max_pool1d', (2, 3, 8), lambda x, rs, dt: NF.max_pool1d(x, 2, 2, 1, 1)),
        ('max_pool2d', (2, 2, 6, 6), lambda x, rs, dt: NF.max_pool2d(x, 2, 1, 1, 1)),
        ('avg_pool1d', (2, 3, 8), lambda x, rs, dt: NF.avg_pool1d(x, 3, 2, 1, 1)),
        ('avg_pool2d', (2, 2, 6, 6), lambda x, rs, dt: NF.avg_pool2d(x, 2, 2)),
        ('unfold', (2, 2, 5, 5), lambda x, rs, dt: NF.unfold(x, 2, 1, 1, 1)),
        ('fold', (2, 8, 9), lambda x, rs, dt: NF.fold(x, (4, 4), (2, 2), 1, 1, 0)),
        ('conv1d', (2, 2, 8), lambda x, rs, dt: NF.conv1d(x, other(rs, (3, 2, 2), dt), other(rs, (3,), dt), 1, 1, 1)),
        ('conv2d', (2, 2, 5, 5), lambda x, rs, dt: NF.conv2d(x, other(rs, (3, 2, 2, 2), dt), other(rs, (3,), dt), 1, 1, 1)),
        ('MaxPool2d', (2, 2, 6, 6), lay(nn.MaxPool2d, {'kernel_size': 2})),
        ('AvgPool1d', (2, 3, 8), lay(nn.AvgPool1d, {'kernel_size': 2})),
        ('Conv2d', (2, 2, 5, 5), lay(nn.Conv2d, {'in_channels': 2, 'out_channels': 3, 'kernel_size': 3, 'padding': 1})),
        ('Unfold', (2, 2, 5, 5), lay(nn.Unfold, {'kernel_size': 2})),
        ('add', (4, 6), lambda x, rs, dt: x + other(rs, (4, 6), dt)),
        ('mul_scalar', (4, 6), lambda x, rs, dt: x * 0.3),
        ('exp', (4, 6), lambda x, rs, dt: x.exp()),
        ('sum_dim', (4, 6), lambda x, rs, dt: x.sum(dim=0)),
        ('mean_all', (4, 6), lambda x, rs, dt: x.mean()),
        ('max_dim', (4, 6), lambda x, rs, dt: x.max(dim=1)),
        ('matmul', (4, 6), lambda x, rs, dt: x @ other(rs, (6, 3), dt)),
        ('softmax', (4, 6), lambda x, rs, dt: NF.softmax(x, 1)),
        ('log_softmax', (4, 6), lambda x, rs, dt: NF.log_softmax(x, -1)),
        ('mse_loss', (4, 6), lambda x, rs, dt: NF.mse_loss(x, other(rs, (4, 6), dt))),
        ('cross_entropy', (4, 6), lambda x, rs, dt: NF.cross_entropy(x, T(np.array([0, 5, 2, 3])))),
        ('batch_norm', (4, 6), lambda x, rs, dt: NF.batch_norm(x, other(rs, (6,), dt), other(rs, (6,), dt))),
        ('relu', (4, 6), lambda x, rs, dt: NF.relu(x)),
        ('linear', (4, 6), lambda x, rs, dt: NF.linear(x, other(rs, (3, 6), dt), other(rs, (3,), dt))),
    ]
    return ops


def layout_check(impl, opname, layout, dtype, seed=11):
    """returns ('skip', why) | None (fine) | (class, expected, observed)"""
    np, sg = impl.np, impl.synapgrad
    op = [o for o in layout_ops(impl) if o[0] == opname][0]
    rs = np.random.RandomState(seed)
    arr = rs.uniform(-2, 2, size=op[1]).astype(dtype)
    if layout == 'broadcast0':
        arr = np.ascontiguousarray(np.broadcast_to(arr[:1], arr.shape))
    impl.reset_modes()
    x = make_layout(impl, arr, layout)
    if x is None:
        return ('skip', 'layout does not apply')
    if not np.array_equal(x.data, arr):
        return ('harness', 'same values', 'layout construction changed the values')
    xc = sg.Tensor(np.ascontiguousarray(arr).copy())
    res = []
    for t in (x, xc):
        t.requires_grad = True
        r = op[2](t, np.random.RandomState(seed + 1), dtype)
        s = r.sum()
        s.backward()
        res.append((r, s, t))
    (r, s, t), (rc, sc, tc) = res
    eps = float(np.finfo(dtype).eps)
    if str(r.dtype) != dtype:
        return ('noncontiguous-operand-dtype', dtype, str(r.dtype))
    if str(s.dtype) != dtype or tuple(s.shape) != ():
        return ('noncontiguous-operand-dtype', [dtype, []], [str(s.dtype), list(s.shape)])
    if tuple(r.shape) != tuple(rc.shape):
        return ('noncontiguous-operand-shape', list(rc.shape), list(r.shape))
    scale = max(1.0, float(np.max(np.abs(rc.data))) if rc.data.size else 1.0)
    err = float(np.max(np.abs(np.asarray(r.data, dtype=np.float64) - np.asarray(rc.data, dtype=np.float64)))) if rc.data.size else 0.0
    if err > 1000 * eps * scale:
        return ('noncontiguous-operand-values', 'within 1000 eps(%s) = %.1e of the result on the contiguous copy' % (dtype, 1000 * eps * scale), 'max difference %.3e' % err)
    g, gc = t._grad, tc._grad
    if g is None or str(g.dtype) != dtype or tuple(g.shape) != tuple(arr.shape):
        return ('noncontiguous-operand-grad', [dtype, list(arr.shape)], None if g is None else [str(g.dtype), list(g.shape)])
    gscale = max(1.0, float(np.max(np.abs(gc))))
    gerr = float(np.max(np.abs(g.astype(np.float64) - gc.astype(np.float64))))
    if gerr > 1000 * eps * gscale:
        return ('noncontiguous-operand-grad-values', 'within %.1e of the gradient on the contiguous copy' % (1000 * eps * gscale), 'max difference %.3e' % gerr)
    return None


# ------------------------------------------------------------------------------------------------ float32 vs float64 agreement
# NUMERICAL oracle with stated tolerances (the one place where a tolerance is unavoidable; not a proof).
# The same float32-representable inputs are used in both dtypes (drawn, cast to float32, then to float64 for the reference).
# Inputs are ill-conditioned: x = mean + std * N(0,1) with kappa = |mean| / std in {1e2, 1e3, 1e4}.
# For every compared quantity q:   max |q32 - q64|  <=  C * eps32 * amp * scale
#   scale = max |q64| (output scale), or an operand-magnitude bound where the op cancels (matmul / linear: n * max(|x| @ |w|);
#           softmax input gradient s * (g - sum(g s)): 2 * max|s| * max|g|)
#   amp   = kappa + 1 for quantities computed from centred data (x - mean): normalisation, variance, log-softmax, CE -
#           a backward-stable algorithm in float32 cannot do better than eps32 * |mean| absolute on x - mean;
#           1 for quantities of the magnitude of the data itself (means, sums, pooling, running_mean, mse of close values)
AGREE_C = 64.0
KAPPAS = (1e2, 1e3, 1e4)


def agreement_recipes():
    out = []
    for kappa in KAPPAS:
        for name in ('F.batch_norm', 'F.batch_norm_affine', 'BatchNorm1d', 'BatchNorm2d', 'mean', 'sum_dim', 'softmax', 'log_softmax',
                     'mse_loss', 'cross_entropy', 'variance_composition', 'avg_pool1d', 'linear', 'matmul'):
            out.append({'op': name, 'mean': kappa, 'std': 1.0, 'seed': 3})
    out.append({'op': 'sum_wide_range', 'mean': 0.0, 'std': 1.0, 'seed': 3})
    return out


def run_agreement(impl, rc):
    """returns [(quantity, max error, bound)] for one recipe"""
    np, sg, TF, NF, nn = impl.np, impl.synapgrad, impl.TF, impl.NF, impl.nn
    T = sg.Tensor
    rs = np.random.RandomState(rc['seed'])
    kappa = abs(rc['mean']) / rc['std']
    eps32 = float(np.finfo(np.float32).eps)
    op = rc['op']

    def data(shape, centred=False):
        a = rs.randn(*shape) * rc['std'] + (0.0 if centred else rc['mean'])
        return a.astype(np.float32)
    shape = {'BatchNorm2d': (8, 3, 5, 5), 'avg_pool1d': (2, 3, 12)}.get(op, (64, 6))
    x32 = data(shape)
    if op == 'sum_wide_range':
        x32 = (rs.randn(64, 6) * np.logspace(-3, 3, 6)[None, :]).astype(np.float32)
    extra = {'w': (rs.randn(6, 4)).astype(np.float32), 'b': rs.randn(4).astype(np.float32), 'g': (1 + 0.5 * rs.randn(6)).astype(np.float32),
             'be': rs.randn(6).astype(np.float32), 'y': (x32 + rs.randn(*x32.shape).astype(np.float32)).astype(np.float32),
             'lab': rs.randint(0, 6, size=64)}
    res = {}
    for dt in ('float32', 'float64'):
        impl.reset_modes()
        np.random.seed(1)
        x = T(x32.astype(dt), requires_grad=True)
        q = {}
        params = []
        if op in ('F.batch_norm', 'F.batch_norm_affine'):
            if op == 'F.batch_norm':
                out = NF.batch_norm(x)
            else:
                g, be = T(extra['g'].astype(dt), requires_grad=True), T(extra['be'].astype(dt), requires_grad=True)
                out = NF.batch_norm(x, g, be)
                params = [('gamma grad', g), ('beta grad', be)]
        elif op in ('BatchNorm1d', 'BatchNorm2d'):
            m = getattr(nn, op)(x32.shape[1], dtype=getattr(np, dt))
            m.train()
            out = m(x)
            params = [('gamma grad', m.weight), ('beta grad', m.bias)]
            q['running_mean'] = (m.running_mean.data, 'data')
            q['running_var'] = (m.running_var.data, 'centred')
        elif op == 'mean':
            out = x.mean()
        elif op in ('sum_dim', 'sum_wide_range'):
            out = x.sum(dim=0)
        elif op == 'softmax':
            out = NF.softmax(x, 1)
        elif op == 'log_softmax':
            out = NF.log_softmax(x, 1)
        elif op == 'mse_loss':
            out = NF.mse_loss(x, T(extra['y'].astype(dt)))
        elif op == 'cross_entropy':
            out = NF.cross_entropy(x, T(extra['lab']))
        elif op == 'variance_composition':
            out = ((x - x.mean(dim=0, keepdims=True)) ** 2).mean(dim=0)
        elif op == 'avg_pool1d':
            out = NF.avg_pool1d(x, 3, 2)
        elif op == 'linear':
            w, b = T(extra['w'].T.copy().astype(dt), requires_grad=True), T(extra['b'].astype(dt), requires_grad=True)
            out = NF.linear(x, w, b)
        elif op == 'matmul':
            out = x @ T(extra['w'].astype(dt))
        else:
            raise ValueError(op)
        wts = np.linspace(-1, 1, max(out.data.size, 1)).reshape(out.shape)
        (out * T(wts.astype(dt))).sum().backward()
        centred_ops = ('F.batch_norm', 'F.batch_norm_affine', 'BatchNorm1d', 'BatchNorm2d', 'log_softmax', 'cross_entropy', 'variance_composition')
        kind = 'centred' if op in centred_ops else ('cancel' if op in ('linear', 'matmul') else 'data')
        q['output'] = (out.data, kind)
        q['input grad'] = (x._grad, kind if op not in ('linear', 'matmul') else 'data')
        for nm, p in params:
            q[nm] = (p._grad, 'centred')
        res[dt] = q
    rows = []
    for nm in res['float64']:
        a32, kind = res['float32'][nm]
        a64, _ = res['float64'][nm]
        a32 = np.asarray(a32, dtype=np.float64); a64 = np.asarray(a64, dtype=np.float64)
        if str(np.asarray(res['float32'][nm][0]).dtype) != 'float32' or a32.shape != a64.shape:
            rows.append((nm, float('inf'), 0.0, 'dtype/shape'))
            continue
        err = float(np.max(np.abs(a32 - a64))) if a64.size else 0.0
        scale = float(np.max(np.abs(a64))) if a64.size else 1.0
        amp = 1.0
        if kind == 'centred':
            amp = kappa + 1.0
        if kind == 'cancel':
            scale = float(np.max(np.abs(x32.astype(np.float64)) @ np.abs(extra['w'].astype(np.float64)))) * x32.shape[1]
        if op == 'softmax' and nm == 'input grad':
            # s * (g - sum(g * s)) cancels: the operand-magnitude bound is 2 * max|s| * max|g| (upstream weights |g| <= 1)
            scale = 2.0 * float(np.max(np.abs(np.asarray(res['float64']['output'][0], dtype=np.float64))))
        bound = AGREE_C * eps32 * amp * max(scale, 1e-30)
        rows.append((nm, err, bound, kind))
    return rows
