"""Import the implementation under test (pgmesa/synapgrad at /repo's working tree) inside the check process."""
import os, sys, types

REPO = os.environ.get("VERIF_REPO", "/repo")
os.environ.setdefault("OMP_NUM_THREADS", "1")
os.environ.setdefault("PYTHONHASHSEED", "0")
if REPO not in sys.path:
    sys.path.insert(0, REPO)

# pkbar (progress bar used by nn/utils/train.py) cannot be imported offline here (needs pkg_resources):
# replace it by a stub that records calls.  This is harness-side only, /repo is not touched.
if "pkbar" not in sys.modules:
    _pk = types.ModuleType("pkbar")

    class Kbar:
        calls = []

        def __init__(self, *a, **k):
            Kbar.calls.append(("init", k.get("epoch")))

        def update(self, i, values=None):
            Kbar.calls.append(("update", i))

        def add(self, n, values=None):
            Kbar.calls.append(("add", n))

    _pk.Kbar = Kbar
    sys.modules["pkbar"] = _pk

import numpy as np  # noqa: E402
import synapgrad  # noqa: E402
from synapgrad import nn, optim  # noqa: E402
from synapgrad.nn import functional as NF  # noqa: E402
import synapgrad.functional as TF  # noqa: E402
from synapgrad import cpu_ops, conv_tools  # noqa: E402

assert os.path.abspath(synapgrad.__file__).startswith(os.path.abspath(REPO)), synapgrad.__file__

tensor_mod = sys.modules["synapgrad.tensor"]   # the attribute synapgrad.tensor is shadowed by the function


def grad_mode():
    return bool(tensor_mod.gradient__)


def retain_mode():
    return bool(tensor_mod.retain_grads__)


def reset_modes():
    tensor_mod.gradient__ = True
    tensor_mod.retain_grads__ = False
