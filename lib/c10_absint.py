"""C10: abstract interpretation of the implementation's Python source into dtype-transfer expressions.

The interpreter symbolically executes a function body (Python `ast`) and produces a `dexpr` (see coq/IR/Dtype.v)
describing the NumPy dtype / array-kind of what the function returns, as a function of the abstract values of
its parameters.  It is FAIL-CLOSED: every node type, NumPy function, method or attribute it does not know
raises Untranslatable(file, line, construct).

dexprs are Python tuples ('Bin', a, b) ...; `coq(e)` prints them.  Values handled by the interpreter carry a
static tag: 'T' (a synapgrad Tensor, identified with its .data), 'A' (a NumPy / Python value), 'U' (unknown:
an operand of an operator overload, dispatched at evaluation time with DIsNp).
"""
import ast


class Untranslatable(Exception):
    def __init__(self, file, line, construct):
        super().__init__("%s:%s: %s" % (file, line, construct))
        self.file, self.line, self.construct = file, line, construct


# ----------------------------------------------------------------------------------------------- dexpr
def C(v):
    return ('Const', v)


NONE, SHAPE, OPAQUE, ERR, PYINT, PYFLOAT = C('NoneV'), C('ShapeV'), C('OpaqueV'), C('ErrV'), C('PyInt'), C('PyFloat')
UNBOUND = C('UnboundV')
PYBOOL = C(('PyBool', None))
TRUE, FALSE = C(('PyBool', True)), C(('PyBool', False))


def NPC(d, k='KArray'):
    return C(('Np', d, k))


def P(i):
    return ('Param', i)


def coq_absval(v):
    if isinstance(v, str):
        return v
    if v[0] == 'Np':
        return "(Np %s %s)" % (v[1], v[2])
    if v[0] == 'PyBool':
        return "(PyBool %s)" % ("None" if v[1] is None else "(Some %s)" % ("true" if v[1] else "false"))
    if v[0] == 'StrV':
        return '(StrV "%s")' % v[1].replace('"', "'")
    if v[0] == 'TupV':
        return "(TupV [%s])" % "; ".join(coq_absval(x) for x in v[1])
    raise ValueError(v)


_UN = {'Neg': 'DNeg', 'FloatFn': 'DFloatFn', 'Floor': 'DFloor', 'View': 'DView', 'ToArr': 'DToArr', 'Copy': 'DCopy',
       'AsArray': 'DAsArray', 'Elem': 'DElem', 'Like': 'DLike', 'Arange': 'DArange', 'Item': 'DItem', 'ToInt': 'DToInt',
       'Concat': 'DConcat', 'IsNone': 'DIsNone', 'IsNp': 'DIsNp', 'Not': 'DNot'}
_BIN = {'Bin': 'DBin', 'Pow': 'DPow', 'Div': 'DDiv', 'FloorDiv': 'DFloorDiv', 'Cmp': 'DCmp', 'Matmul': 'DMatmul',
        'Tensordot': 'DTensordot', 'Astype': 'DAstype', 'Cast': 'DCast', 'Inplace': 'DInplace', 'Aug': 'DAug', 'Setitem': 'DSetitem',
        'Choice': 'DChoice', 'Let': 'DLet', 'Loop': 'DLoop', 'DtypeEq': 'DDtypeEq'}


def coq(e):
    t = e[0]
    if t == 'Param':
        return "(DParam %d)" % e[1]
    if t == 'LoopVar':
        return "DLoopVar"
    if t == 'Const':
        return "(DConst %s)" % coq_absval(e[1])
    if t == 'Raise':
        return "DRaise"
    if t in _UN:
        return "(%s %s)" % (_UN[t], coq(e[1]))
    if t in _BIN:
        return "(%s %s %s)" % (_BIN[t], coq(e[1]), coq(e[2]))
    if t == 'IsPy':
        return "(DIsPy %s %s %s)" % ("true" if e[1] else "false", "true" if e[2] else "false", coq(e[3]))
    if t == 'Reduce':
        return "(DReduce %s %s %s %s)" % (e[1], coq(e[2]), coq(e[3]), coq(e[4]))
    if t == 'Index':
        return "(DIndex %s %s)" % (coq(e[1]), e[2])
    if t == 'Alloc':
        return "(DAlloc %s)" % ("None" if e[1] is None else "(Some %s)" % coq(e[1]))
    if t == 'Where':
        return "(DWhere %s %s %s)" % (coq(e[1]), coq(e[2]), coq(e[3]))
    if t == 'If':
        return "(DIf %s %s %s)" % (coq(e[1]), coq(e[2]), coq(e[3]))
    if t == 'Seq':
        return "(DSeq [%s])" % "; ".join(coq(x) for x in e[1])
    if t == 'Tuple':
        return "(DTuple [%s])" % "; ".join(coq(x) for x in e[1])
    if t == 'Proj':
        return "(DProj %d %s)" % (e[1], coq(e[2]))
    if t == 'Ctor':
        return "(DCtor %s %s)" % (coq(e[1]), "None" if e[2] is None else "(Some %s)" % coq(e[2]))
    if t == 'App':
        return "(DApp %s [%s])" % (e[1], "; ".join(coq(x) for x in e[2]))
    raise ValueError("cannot print %r" % (t,))


def subexprs(e):
    yield e
    for x in e[1:]:
        if isinstance(x, tuple) and x and isinstance(x[0], str) and x[0][0].isupper() and x[0] not in ('Np', 'PyBool', 'TupV', 'StrV'):
            yield from subexprs(x)
        elif isinstance(x, list):
            for y in x:
                if isinstance(y, tuple):
                    yield from subexprs(y)


def size(e):
    return sum(1 for _ in subexprs(e))


def atomic(e):
    return e[0] in ('Param', 'Const', 'LoopVar') or (e[0] == 'Proj' and atomic(e[2]))


# ----------------------------------------------------------------------------------------------- values / env
class V:
    """interpreter value: dexpr + static tag + optional python-side static information"""
    __slots__ = ('e', 'tag', 'st', 'alias')

    def __init__(self, e, tag='A', st=None, alias=None):
        # alias: name of the object attribute (`self.running_mean`) this value was read from - the same object
        self.e, self.tag, self.st, self.alias = e, tag, st, alias

    def __repr__(self):
        return "V(%s,%s,%s)" % (self.e[0], self.tag, self.st)


class Env:
    def __init__(self, vars=None, depth=0):
        self.vars = vars or {}
        self.depth = depth

    def get(self, n):
        return self.vars.get(n)

    def has(self, n):
        return n in self.vars

    def set(self, n, v):
        d = dict(self.vars)
        d[n] = v
        return Env(d, self.depth)

    def deeper(self):
        return Env(self.vars, self.depth + 1)


def bind(v, env, k):
    """let-bind a value unless it is atomic; k(ref_value, env)"""
    if v.st is not None and v.st[0] in ('list', 'str', 'self', 'dtype_none'):
        return k(v, env)
    if atomic(v.e):
        return k(v, env)
    ref = V(P(env.depth), v.tag, v.st, v.alias)
    return ('Let', v.e, k(ref, env.deeper()))


def assigned_names(stmts):
    """names (and 'self.attr' pseudo-names) a block may (re)bind or mutate"""
    out = set()

    def tgt(t):
        if isinstance(t, ast.Name):
            out.add(t.id)
        elif isinstance(t, (ast.Tuple, ast.List)):
            for x in t.elts:
                tgt(x)
        elif isinstance(t, ast.Starred):
            tgt(t.value)
        elif isinstance(t, ast.Subscript):
            tgt(t.value)
        elif isinstance(t, ast.Attribute):
            if isinstance(t.value, ast.Name) and t.value.id == 'self':
                out.add('self.' + t.attr)
            elif isinstance(t.value, ast.Name) and t.attr == 'data':
                out.add(t.value.id)           # `x.data = v` : the tensor x (identified with its data) changes

    def walk(ss):
        for s in ss:
            if isinstance(s, ast.Assign):
                for t in s.targets:
                    tgt(t)
            elif isinstance(s, ast.AugAssign):
                tgt(s.target)
            elif isinstance(s, ast.For):
                tgt(s.target); walk(s.body); walk(s.orelse)
            elif isinstance(s, ast.While):
                walk(s.body); walk(s.orelse)
            elif isinstance(s, ast.If):
                walk(s.body); walk(s.orelse)
            elif isinstance(s, ast.Try):
                walk(s.body)
                for h in s.handlers:
                    walk(h.body)
            elif isinstance(s, ast.Expr) and isinstance(s.value, ast.Call):
                f = s.value.func
                u = ast.unparse(f)
                if u in ('np.add.at', 'np.put_along_axis') and s.value.args and isinstance(s.value.args[0], ast.Name):
                    out.add(s.value.args[0].id)
                if isinstance(f, ast.Attribute) and f.attr == 'append' and isinstance(f.value, ast.Name):
                    out.add(f.value.id)
    walk(stmts)
    return out


def terminates(stmts):
    if not stmts:
        return False
    s = stmts[-1]
    if isinstance(s, (ast.Return, ast.Raise)):
        return True
    if isinstance(s, ast.If):
        return terminates(s.body) and terminates(s.orelse)
    return False


def has_slice(node):
    """does an index expression syntactically contain a basic slice or an Ellipsis at its top level"""
    if isinstance(node, ast.Slice):
        return True
    if isinstance(node, ast.Constant) and node.value is Ellipsis:
        return True
    if isinstance(node, ast.Tuple):
        return any(has_slice(x) for x in node.elts)
    return False


# ----------------------------------------------------------------------------------------------- modules
MODFILES = {
    'cpu_ops': 'synapgrad/cpu_ops.py', 'conv_tools': 'synapgrad/conv_tools.py',
    'functional': 'synapgrad/functional.py', 'nn.functional': 'synapgrad/nn/functional.py',
    'tensor': 'synapgrad/tensor.py', 'utils': 'synapgrad/utils.py', 'nn.layers': 'synapgrad/nn/layers.py', 'nn.losses': 'synapgrad/nn/losses.py',
    'nn.activations': 'synapgrad/nn/activations.py', 'nn.modules': 'synapgrad/nn/modules.py', 'nn.init': 'synapgrad/nn/init.py',
}
IMPORT_MODS = {'synapgrad.cpu_ops': 'cpu_ops', 'synapgrad.conv_tools': 'conv_tools', 'synapgrad.functional': 'functional',
               'synapgrad.nn.functional': 'nn.functional', 'synapgrad.tensor': 'tensor', 'synapgrad.nn.layers': 'nn.layers',
               'synapgrad.nn.modules': 'nn.modules', 'synapgrad.nn.init': 'nn.init', 'synapgrad.nn.losses': 'nn.losses',
               'synapgrad.nn.activations': 'nn.activations'}
DTYPE_CONST = {'float16': 'F16', 'float32': 'F32', 'float64': 'F64', 'int64': 'DInt', 'bool_': 'DBool'}


class ModInfo:
    def __init__(self, qual, path):
        self.qual, self.file = qual, path
        self.tree = ast.parse(open(path).read())
        self.funcs, self.classes, self.consts, self.alias = {}, {}, {}, {}
        for st in self.tree.body:
            if isinstance(st, ast.FunctionDef):
                self.funcs[st.name] = st
            elif isinstance(st, ast.ClassDef):
                self.classes[st.name] = st
            elif isinstance(st, ast.Assign) and len(st.targets) == 1 and isinstance(st.targets[0], ast.Name):
                self.consts[st.targets[0].id] = st.value
            elif isinstance(st, ast.Import):
                for a in st.names:
                    nm = a.asname or a.name
                    if a.name == 'numpy':
                        self.alias[nm] = ('np',)
                    elif a.name == 'synapgrad':
                        self.alias[nm] = ('pkg', 'synapgrad')
                    elif a.name == 'math':
                        self.alias[nm] = ('math',)
                    else:
                        self.alias[nm] = ('other', a.name)
            elif isinstance(st, ast.ImportFrom):
                base = st.module or ''
                for a in st.names:
                    nm = a.asname or a.name
                    full = base + '.' + a.name
                    if full in IMPORT_MODS:
                        self.alias[nm] = ('mod', IMPORT_MODS[full])
                    elif base in IMPORT_MODS:
                        self.alias[nm] = ('from', IMPORT_MODS[base], a.name)
                    elif full == 'synapgrad.nn':
                        self.alias[nm] = ('pkg', 'nn')
                    elif base == 'synapgrad.nn' and a.name in ('Module', 'Parameter', 'Sequential'):
                        self.alias[nm] = ('from', 'nn.modules', a.name)
                    else:
                        self.alias[nm] = ('other', full)


class Frame:
    def __init__(self, mod, mode, kret):
        self.mod, self.mode, self.kret = mod, mode, kret
        self.closures = {}
        self.accs = []          # (target text, in_place, dexpr, line)
        self.grad = None        # dexpr of the upstream gradient (`out.grad` inside the closure)
        self.cls = None         # (modinfo, ClassDef) when executing a method of a layer / loss
        self.rebinds = []       # `<tensor>.data = value` statements (observations)
        self.in_loop = 0


class World:
    def __init__(self, repo):
        import os
        self.repo = repo
        self.mods = {}
        for q, rel in MODFILES.items():
            self.mods[q] = ModInfo(q, os.path.join(repo, rel))
        self.defs = []          # (coqname, dexpr, meta) in dependency order
        self.memo = {}
        self.busy = set()
        self.wrapper_meta = {}

    # -- function signatures ------------------------------------------------------------------------
    @staticmethod
    def signature(fd):
        a = fd.args
        if a.kwarg is not None or a.posonlyargs:
            return None
        names = [x.arg for x in a.args]
        defaults = [None] * (len(names) - len(a.defaults)) + list(a.defaults)
        vararg = a.vararg.arg if a.vararg else None
        kwonly = [x.arg for x in a.kwonlyargs]
        kwdefaults = list(a.kw_defaults)
        return names, defaults, vararg, kwonly, kwdefaults

    @staticmethod
    def params_of(fd):
        sg = World.signature(fd)
        if sg is None:
            raise Untranslatable('?', fd.lineno, "signature of %s (**kwargs / positional-only)" % fd.name)
        names, defaults, vararg, kwonly, kwd = sg
        return names + ([vararg] if vararg else []) + kwonly

    def coqname(self, kind, modq, name):
        pre = {'kernel': 'k_', 'wrapper': 'w_', 'tfun': 't_', 'method': 'm_'}[kind]
        return pre + (modq.replace('.', '_') + '_' if kind in ('kernel', 'wrapper') else '') + name

    def func(self, kind, modq, name, cls=None):
        """translate (once) a module-level function / Tensor method; returns (coqname, meta)"""
        key = (kind, modq, name)
        if key in self.memo:
            return self.memo[key]
        mod = self.mods[modq]
        if kind == 'method':
            fd = None
            for st in mod.classes[cls].body:
                if isinstance(st, ast.FunctionDef) and st.name == name:
                    fd = st
            if fd is None:
                raise Untranslatable(mod.file, 0, "method %s.%s not found" % (cls, name))
        else:
            fd = mod.funcs.get(name)
            if fd is None:
                raise Untranslatable(mod.file, 0, "function %s not found" % name)
        if key in self.busy:
            raise Untranslatable(mod.file, fd.lineno, "recursive call cycle through %s" % name)
        self.busy.add(key)
        try:
            it = Interp(self)
            mode = 'kernel' if kind == 'kernel' else 'tensor'
            e, meta = it.run_function(fd, mod, mode, kind)
        finally:
            self.busy.discard(key)
        cn = self.coqname(kind, modq, name)
        meta.update(kind=kind, module=modq, name=name, lines=(fd.lineno, fd.end_lineno), params=self.params_of(fd), size=size(e))
        self.defs.append((cn, e, meta))
        self.memo[key] = (cn, meta)
        return cn, meta


# ----------------------------------------------------------------------------------------------- interpreter
OVERLOADS = {ast.Add: ('__add__', '__radd__'), ast.Sub: ('__sub__', '__rsub__'), ast.Mult: ('__mul__', '__rmul__'),
             ast.Div: ('__truediv__', '__rtruediv__'), ast.Pow: ('__pow__', '__rpow__'), ast.MatMult: ('__matmul__', '__rmatmul__')}
BINOPS = {ast.Add: 'Bin', ast.Sub: 'Bin', ast.Mult: 'Bin', ast.Div: 'Div', ast.FloorDiv: 'FloorDiv', ast.Mod: 'FloorDiv',
          ast.Pow: 'Pow', ast.MatMult: 'Matmul'}
IGNORED_TENSOR_KW = {'device', 'children', 'requires_grad', 'operation', 'name'}


def max_param(e):
    m = -1
    for x in subexprs(e):
        if x[0] == 'Param':
            m = max(m, x[1])
    return m


class Interp:
    def __init__(self, world):
        self.w = world

    def U(self, fr, node, what):
        raise Untranslatable(fr.mod.file, getattr(node, 'lineno', 0), what)

    # ---- functions ------------------------------------------------------------------------------
    def run_function(self, fd, mod, mode, kind):
        if World.signature(fd) is None:
            raise Untranslatable(mod.file, fd.lineno, "signature of %s (**kwargs / positional-only)" % fd.name)
        names = World.params_of(fd)
        meta = {}
        vars_ = {}
        ann = {a.arg: (ast.unparse(a.annotation) if a.annotation is not None else None) for a in fd.args.args + fd.args.kwonlyargs}
        for i, n in enumerate(names):
            tag = 'A'
            if mode == 'tensor':
                # annotations of tensor operands are not trusted (Tensor.__add__(self, summand:'Tensor') accepts numbers):
                # such parameters are 'U' until an isinstance check refines them; other annotated parameters are plain values
                a = (ann.get(n) or '').strip("'\"")
                tag = 'T' if n == 'self' else ('U' if (a == '' or 'Tensor' in a) else 'A')
            vars_[n] = V(P(i), tag)
        depth = len(names)
        fr = Frame(mod, mode, None)
        rets = [s for s in ast.walk(fd) if isinstance(s, ast.Return)]
        if kind == 'wrapper':
            fr.grad = P(depth)
            depth += 1
            fr.kret = lambda v, env: self.wrapper_return(v, env, fr, fd)
            # the returns of the nested closure do not count
            rets = [s for s in fd.body if isinstance(s, ast.Return)]
        else:
            fr.kret = lambda v, env: v.e
            ar = set()
            for r in rets:
                if isinstance(r.value, ast.Tuple) and not any(isinstance(x, ast.Starred) for x in r.value.elts):
                    ar.add(len(r.value.elts))
                else:
                    ar.add(None)
            meta['ret_arity'] = ar.pop() if len(ar) == 1 else None
        fr.fd = fd
        body = fd.body
        e = self.exec_block(body, Env(vars_, depth), fr, lambda env: NONE)
        if kind == 'wrapper':
            meta['accs'] = fr.acc_meta
            meta['rebinds'] = fr.rebinds
            meta['rebind_params'] = getattr(fr, 'rebind_params', [])
            meta['multi'] = getattr(fr, 'multi', False)
            meta['ctor_dtype_kw'] = getattr(fr, 'ctor_dtype_kw', None)
            meta['out_kernel'] = getattr(fr, 'out_kernel', None)
        return e, meta

    def wrapper_return(self, v, env, fr, fd):
        """at `return out` of an op wrapper: run the backward closure symbolically; result = (out, acc values...)"""
        clos = fr.closures.get('backward')
        if clos is None:
            self.U(fr, fd, "wrapper %s without a backward closure" % fd.name)
        if getattr(fr, 'returned', False):
            self.U(fr, fd, "wrapper %s returns twice" % fd.name)
        fr.returned = True
        e2 = env
        for a in clos.args.args:
            e2 = e2.set(a.arg, V(PYINT, 'A'))
        fr.in_closure = True
        fr.result_var = v

        params = World.params_of(fd)
        rb_names = []
        for r in fr.rebinds:
            if r['target'] not in params:
                self.U(fr, fd, "wrapper %s rebinds the data of %s, which is not a parameter" % (fd.name, r['target']))
            if r['target'] not in rb_names:
                rb_names.append(r['target'])
        rb_vals = [env.get(nm).e for nm in rb_names]          # the parameter's data when the wrapper returns

        def kend(e3):
            fr.acc_meta = [{'target': t, 'in_place': ip, 'line': ln, 'op': op} for (t, ip, ex, ln, op) in fr.accs]
            for (t, ip, ex, ln, op) in fr.accs:
                if max_param(ex) >= e3.depth:
                    self.U(fr, clos, "accumulated value of %s refers to a local out of scope" % t)
            fr.rebind_params = [(params.index(nm), 1 + len(fr.accs) + j) for j, nm in enumerate(rb_names)]
            return ('Tuple', [v.e] + [ex for (t, ip, ex, ln, op) in fr.accs] + rb_vals)
        return self.exec_block(clos.body, e2, fr, kend)

    # ---- statements -------------------------------------------------------------------------------
    def exec_block(self, stmts, env, fr, k):
        if not stmts:
            return k(env)
        s, rest = stmts[0], stmts[1:]
        cont = lambda e2: self.exec_block(rest, e2, fr, k)
        m = getattr(self, 'st_' + type(s).__name__, None)
        if m is None:
            self.U(fr, s, "statement %s" % type(s).__name__)
        return m(s, env, fr, cont)

    def st_Return(self, s, env, fr, cont):
        if fr.in_loop:
            self.U(fr, s, "return inside a loop")
        if s.value is None:
            return fr.kret(V(NONE), env)
        inl = self.inline_call(s.value, env, fr, lambda v, e2: fr.kret(v, e2))
        if inl is not None:
            return inl
        if isinstance(s.value, ast.Tuple) and fr.mode == 'kernel':
            vs = [self.ev(x, env, fr) for x in s.value.elts]
            return fr.kret(V(('Tuple', [x.e for x in vs]), 'A', ('arity', len(vs))), env)
        return fr.kret(self.ev(s.value, env, fr), env)

    def st_Raise(self, s, env, fr, cont):
        return ('Raise',)      # also inside a loop: the path yields no value (the loop's other paths are kept: sound)

    def st_Pass(self, s, env, fr, cont):
        return cont(env)

    def st_Assert(self, s, env, fr, cont):
        return cont(env)

    def st_Import(self, s, env, fr, cont):
        return cont(env)

    st_ImportFrom = st_Import

    def st_FunctionDef(self, s, env, fr, cont):
        if fr.mode != 'tensor':
            self.U(fr, s, "nested function %s" % s.name)
        fr.closures[s.name] = s
        return cont(env)

    def st_Expr(self, s, env, fr, cont):
        v = s.value
        if isinstance(v, ast.Constant):
            return cont(env)        # docstring
        if not isinstance(v, ast.Call):
            self.U(fr, s, "expression statement %s" % type(v).__name__)
        u = ast.unparse(v.func)
        if u == 'np.add.at' or u == 'np.put_along_axis':
            if not (len(v.args) >= 3 and isinstance(v.args[0], ast.Name)):
                self.U(fr, s, u + " on a non-local")
            nm = v.args[0].id
            buf = self.lookup(nm, env, fr, v)
            for a in v.args[1:]:
                self.ev(a, env, fr)
            val = self.ev(v.args[2], env, fr)
            return bind(V(('Setitem', buf.e, val.e), 'A'), env, lambda r, e2: cont(e2.set(nm, r)))
        if isinstance(v.func, ast.Attribute) and v.func.attr == 'append' and isinstance(v.func.value, ast.Name):
            nm = v.func.value.id
            old = self.lookup(nm, env, fr, v)
            a = self.ev(v.args[0], env, fr)
            return bind(V(('Seq', [old.e, a.e]), 'A'), env, lambda r, e2: cont(e2.set(nm, r)))
        if fr.mode == 'tensor':
            if u in ('super().__init__', 'self.reset_parameters', 'print'):
                if u == 'super().__init__':
                    return self.super_init(v, env, fr, cont)
                return cont(env)
            if u.split('.')[-1] in ('uniform_', 'ones_', 'zeros_', 'normal_', 'constant_') and u.split('.')[0] in ('init', 'nn'):
                return cont(env)     # initialisers keep the parameter's dtype: checked syntactically (init_keeps_dtype)
        inl = self.inline_call(v, env, fr, lambda r, e2: cont(e2))
        if inl is not None:
            return inl
        self.ev(v, env, fr)
        return cont(env)

    def assign_name(self, name, v, env, k):
        return bind(v, env, lambda r, e2: k(e2.set(name, r)))

    def assign_target(self, t, v, env, fr, k):
        if isinstance(t, ast.Name):
            return self.assign_name(t.id, v, env, k)
        if isinstance(t, (ast.Tuple, ast.List)):
            elts = t.elts
            star = [i for i, x in enumerate(elts) if isinstance(x, ast.Starred)]
            if len(star) > 1:
                self.U(fr, t, "two starred targets")
            if v.st is not None and v.st[0] == 'list' and (len(v.st[1]) == len(elts) or star):
                items = v.st[1]
                pieces = []
                if star:
                    i = star[0]
                    nafter = len(elts) - i - 1
                    pieces = items[:i] + [V(('Seq', [x.e for x in items[i:len(items) - nafter]]), 'A', ('list', items[i:len(items) - nafter]))] + items[len(items) - nafter:]
                else:
                    pieces = items

                def go(j, e2):
                    if j == len(elts):
                        return k(e2)
                    tt = elts[j].value if isinstance(elts[j], ast.Starred) else elts[j]
                    return self.assign_target(tt, pieces[j], e2, fr, lambda e3: go(j + 1, e3))
                return go(0, env)

            def after(r, e2):
                n = None
                if r.st is not None and r.st[0] == 'arity':
                    n = r.st[1]
                if star and n is None:
                    self.U(fr, t, "starred unpacking of a value of unknown arity")
                tag = 'A' if fr.mode == 'kernel' or v.tag == 'A' else 'U'

                def go(j, e3):
                    if j == len(elts):
                        return k(e3)
                    if isinstance(elts[j], ast.Starred):
                        nafter = len(elts) - j - 1
                        items = [V(('Proj', q, r.e), tag) for q in range(j, n - nafter)]
                        return self.assign_target(elts[j].value, V(('Seq', [x.e for x in items]), 'A', ('list', items)), e3, fr, lambda e4: go(j + 1, e4))
                    idx = j if not star or j < star[0] else n - (len(elts) - j)
                    return self.assign_target(elts[j], V(('Proj', idx, r.e), tag), e3, fr, lambda e4: go(j + 1, e4))
                return go(0, e2)
            return bind(v, env, after)
        self.U(fr, t, "assignment target %s" % type(t).__name__)

    def st_Assign(self, s, env, fr, cont):
        if len(s.targets) != 1:
            self.U(fr, s, "chained assignment")
        t = s.targets[0]
        if isinstance(t, ast.Attribute):
            return self.assign_attr(s, t, env, fr, cont)
        if isinstance(t, ast.Subscript):
            if not isinstance(t.value, ast.Name):
                self.U(fr, s, "subscript assignment on a non-local")
            nm = t.value.id
            buf = self.lookup(nm, env, fr, s)
            self.ev(t.slice, env, fr)
            val = self.ev(s.value, env, fr)
            return bind(V(('Setitem', buf.e, val.e), 'A'), env, lambda r, e2: cont(e2.set(nm, r)))
        inl = self.inline_call(s.value, env, fr, lambda v, e2: self.assign_target(t, v, e2, fr, cont))
        if inl is not None:
            return inl
        v = self.ev(s.value, env, fr)
        return self.assign_target(t, v, env, fr, cont)

    def record_acc(self, s, t, op, value, env, fr):
        if not getattr(fr, 'in_closure', False):
            self.U(fr, s, "write to %s outside the backward closure" % ast.unparse(t))
        floor = getattr(fr, 'scope_floor', None)
        if floor is not None and max_param(value.e) >= floor:
            self.U(fr, s, "accumulated value defined inside a nested block")
        in_place = op in ('+=', '-=')
        fr.accs.append((ast.unparse(t.value), in_place, value.e, s.lineno, op))

    def assign_attr(self, s, t, env, fr, cont):
        base = ast.unparse(t.value)
        if fr.mode != 'tensor':
            self.U(fr, s, "attribute assignment %s" % ast.unparse(t))
        if base == 'self' and fr.cls is not None:
            v = self.ev(s.value, env, fr)
            return self.assign_name('self.' + t.attr, v, env, cont)
        if t.attr == 'grad_fn':
            return cont(env)
        if t.attr == '_grad':
            self.record_acc(s, t, '=', self.ev(s.value, env, fr), env, fr)
            return cont(env)
        if t.attr == 'data' and isinstance(t.value, ast.Name) and env.has(base):
            v = self.ev(s.value, env, fr)
            fr.rebinds.append({'target': base, 'line': s.lineno, 'value': ast.unparse(s.value)})
            old = env.get(base)
            # the tensor object (identified with its data) now holds v: visible to every holder of the object
            return self.assign_name(base, V(v.e, old.tag, None, old.alias), env, cont)
        self.U(fr, s, "attribute assignment %s" % ast.unparse(t))

    def st_AugAssign(self, s, env, fr, cont):
        t = s.target
        if isinstance(t, ast.Attribute):
            if t.attr == '_grad' and fr.mode == 'tensor':
                op = {ast.Add: '+=', ast.Sub: '-='}.get(type(s.op))
                if op is None:
                    self.U(fr, s, "gradient accumulated with operator %s" % type(s.op).__name__)
                self.record_acc(s, t, op, self.ev(s.value, env, fr), env, fr)
                return cont(env)
            if ast.unparse(t.value) == 'self' and fr.cls is not None:
                old = self.lookup('self.' + t.attr, env, fr, s)
                v = self.ev(s.value, env, fr)
                return self.assign_name('self.' + t.attr, V(('Aug', old.e, v.e), 'A'), env, cont)
            self.U(fr, s, "augmented assignment to %s" % ast.unparse(t))
        if type(s.op) not in BINOPS:
            self.U(fr, s, "augmented operator %s" % type(s.op).__name__)
        if isinstance(t, ast.Name):
            old = self.lookup(t.id, env, fr, s)
            v = self.ev(s.value, env, fr)
            if old.tag != 'A' or v.tag == 'T':
                if old.st is not None and old.st[0] == 'list':       # inputs += (weight,)
                    return self.assign_name(t.id, V(('Seq', [old.e, v.e]), 'A'), env, cont)
                new = self.binop(s.op, old, v, fr, s)              # Tensor has no in-place operators: x = x op v
                return self.assign_name(t.id, new, env, cont)
            kindn = BINOPS[type(s.op)]
            if kindn in ('Div', 'FloorDiv', 'Pow', 'Matmul'):
                # same rule with the operator's own result type: modelled only for arithmetic kept inside a kind
                self.U(fr, s, "augmented %s on a local" % kindn)
            return self.assign_name(t.id, V(('Aug', old.e, v.e), 'A'), env, cont)
        if isinstance(t, ast.Subscript) and isinstance(t.value, ast.Name):
            nm = t.value.id
            buf = self.lookup(nm, env, fr, s)
            self.ev(t.slice, env, fr)
            v = self.ev(s.value, env, fr)
            if BINOPS[type(s.op)] != 'Bin':
                self.U(fr, s, "augmented %s on a subscript" % type(s.op).__name__)
            return bind(V(('Inplace', buf.e, v.e), 'A'), env, lambda r, e2: cont(e2.set(nm, r)))
        self.U(fr, s, "augmented assignment target")

    def is_grad_guard(self, s):
        def acc(x):
            t = x.target if isinstance(x, ast.AugAssign) else (x.targets[0] if isinstance(x, ast.Assign) and len(x.targets) == 1 else None)
            return isinstance(t, ast.Attribute) and t.attr == '_grad'
        return not s.orelse and len(s.body) >= 1 and all(isinstance(x, (ast.AugAssign, ast.Assign)) and acc(x) for x in s.body)

    def st_If(self, s, env, fr, cont):
        if fr.mode == 'tensor' and self.is_grad_guard(s):
            self.cond(s.test, env, fr)
            for x in s.body:
                fr.guards = getattr(fr, 'guards', {})
                fr.guards[x.lineno] = ast.unparse(s.test)
            return self.exec_block(s.body, env, fr, cont)
        c = self.cond(s.test, env, fr)
        # `if not isinstance(x, Tensor): raise ...`  refines x to a Tensor afterwards
        refined = env
        if fr.mode == 'tensor' and terminates(s.body) and not s.orelse:
            for sub in ast.walk(s.test):
                if isinstance(sub, ast.Call) and ast.unparse(sub.func) == 'isinstance' and len(sub.args) == 2 and \
                        ast.unparse(sub.args[1]) == 'Tensor' and isinstance(sub.args[0], ast.Name) and env.has(sub.args[0].id):
                    old = env.get(sub.args[0].id)
                    refined = refined.set(sub.args[0].id, V(old.e, 'T', old.st))
        if isinstance(c, tuple) and c[0] == 'static':
            return self.exec_block(s.body if c[1] else s.orelse, env, fr, cont)
        tb, te = terminates(s.body), terminates(s.orelse)
        if tb or te:
            if fr.in_loop and any(isinstance(x, ast.Return) for br in (s.body, s.orelse) for y in br for x in ast.walk(y)):
                self.U(fr, s, "return inside a loop")
            A = self.exec_block(s.body, env, fr, cont)
            B = self.exec_block(s.orelse, refined, fr, cont)
            return ('If', c, A, B)
        # neither branch terminates: merge the modified variables
        mod = sorted(assigned_names(s.body) | assigned_names(s.orelse))
        tags = {}

        def kend(e2):
            for n in mod:
                x = e2.get(n)
                if x is not None:
                    tags.setdefault(n, []).append(x)
            return ('Tuple', [(e2.get(n).e if e2.has(n) else UNBOUND) for n in mod])
        old_floor = getattr(fr, 'scope_floor', None)
        fr.scope_floor = env.depth if old_floor is None else min(old_floor, env.depth)
        A = self.exec_block(s.body, env, fr, kend)
        B = self.exec_block(s.orelse, env, fr, kend)
        fr.scope_floor = old_floor
        if not mod:
            return cont(env)
        merged = V(('If', c, A, B), 'A')

        def after(r, e2):
            e3 = e2
            for i, n in enumerate(mod):
                xs = tags.get(n, [])
                tg = xs[0].tag if xs and all(x.tag == xs[0].tag for x in xs) and len(xs) == 2 else ('A' if fr.mode == 'kernel' else 'U')
                st = None
                if len(xs) == 2 and xs[0].st is not None and xs[0].st == xs[1].st and xs[0].st[0] in ('str', 'arity'):
                    st = xs[0].st
                e3 = e3.set(n, V(('Proj', i, r.e), tg, st))
            return cont(e3)
        return bind(merged, env, after)

    # ---- loops --------------------------------------------------------------------------------------
    def bind_loop_targets(self, target, itnode, env, fr):
        def set_t(t, v, e):
            if isinstance(t, ast.Name):
                return e.set(t.id, v)
            if isinstance(t, (ast.Tuple, ast.List)):
                for i, x in enumerate(t.elts):
                    e = set_t(x, V(('Proj', i, v.e), v.tag), e)
                return e
            self.U(fr, t, "loop target")
        etag = 'A' if fr.mode == 'kernel' else 'U'
        if isinstance(itnode, ast.Call) and isinstance(itnode.func, ast.Name) and itnode.func.id == 'zip':
            vs = [self.ev(a, env, fr) for a in itnode.args]
            if not (isinstance(target, (ast.Tuple, ast.List)) and len(target.elts) == len(vs)):
                self.U(fr, target, "zip target")
            e = env
            for t, v in zip(target.elts, vs):
                e = set_t(t, V(('Elem', v.e), etag if v.tag != 'A' else 'A'), e)
            return e
        if isinstance(itnode, ast.Call) and isinstance(itnode.func, ast.Name) and itnode.func.id == 'enumerate':
            v = self.ev(itnode.args[0], env, fr)
            if not (isinstance(target, (ast.Tuple, ast.List)) and len(target.elts) == 2):
                self.U(fr, target, "enumerate target")
            e = set_t(target.elts[0], V(PYINT, 'A'), env)
            return set_t(target.elts[1], V(('Elem', v.e), etag if v.tag != 'A' else 'A'), e)
        v = self.ev(itnode, env, fr)
        return set_t(target, V(('Elem', v.e), etag if v.tag != 'A' else 'A'), env)

    def loop(self, s, env, fr, cont, target, itnode):
        if s.orelse:
            self.U(fr, s, "loop else")
        for sub in ast.walk(s):
            if isinstance(sub, (ast.Break, ast.Continue)):
                self.U(fr, sub, "break/continue")
        carried = sorted(n for n in assigned_names(s.body) if env.has(n))
        if not isinstance(s, ast.For):
            self.cond(s.test, env, fr)

        def body_env(e, keep):
            e2 = e
            for n in carried:
                if n != keep:
                    e2 = e2.set(n, V(('Poison', n), 'A'))
            if keep is not None:
                old = e.get(keep)
                e2 = e2.set(keep, V(('LoopVar',), old.tag))
            if target is not None:
                e2 = self.bind_loop_targets(target, itnode, e2, fr)
            return e2
        fr.in_loop += 1
        old_floor = getattr(fr, 'scope_floor', None)
        try:
            if not carried:
                fr.scope_floor = env.depth if old_floor is None else min(old_floor, env.depth)
                self.exec_block(s.body, body_env(env, None), fr, lambda e: NONE)   # closedness (and gradient accumulations)
                fr.scope_floor = old_floor
                fr.in_loop -= 1
                return cont(env)

            def go(i, e):
                if i == len(carried):
                    fr.in_loop -= 1
                    return cont(e)
                n = carried[i]
                saved = len(fr.accs)
                fr.scope_floor = -1                      # no gradient accumulation may be recorded in these passes
                b = self.exec_block(s.body, body_env(e, n), fr, lambda e2: e2.get(n).e)
                fr.scope_floor = old_floor
                if len(fr.accs) != saved:
                    self.U(fr, s, "gradient accumulation inside a loop with carried variables")
                for x in subexprs(b):
                    if x[0] == 'Poison':
                        self.U(fr, s, "loop-carried variable %s depends on loop-carried variable %s" % (n, x[1]))
                old = e.get(n)
                return bind(V(('Loop', old.e, b), old.tag), e, lambda r, e2: go(i + 1, e2.set(n, r)))
            return go(0, env)
        except Untranslatable:
            raise

    def st_For(self, s, env, fr, cont):
        return self.loop(s, env, fr, cont, s.target, s.iter)

    def st_While(self, s, env, fr, cont):
        return self.loop(s, env, fr, cont, None, None)

    # ---- expressions ----------------------------------------------------------------------------------
    def lookup(self, name, env, fr, node):
        v = env.get(name)
        if v is not None:
            if v.e[0] == 'Poison':
                self.U(fr, node, "use of loop-carried variable %s inside the loop" % name)
            return v
        mod = fr.mod
        if name in mod.consts:
            c = mod.consts[name]
            if isinstance(c, ast.Constant) and isinstance(c.value, (int, float)) and not isinstance(c.value, bool):
                return V(PYFLOAT if isinstance(c.value, float) else PYINT, 'A')
            if isinstance(c, ast.Attribute) and ast.unparse(c.value) == 'np' and c.attr in DTYPE_CONST:
                return V(NPC(DTYPE_CONST[c.attr]), 'A', ('dtype',))
            if isinstance(c, ast.Constant) and c.value is None:
                self.U(fr, node, "module global %s (None)" % name)
        if name in mod.funcs:
            return V(OPAQUE, 'A', ('func', mod.qual, name))
        if name in mod.alias:
            return V(OPAQUE, 'A', ('alias',) + tuple(mod.alias[name]))
        if name in mod.classes:
            return V(OPAQUE, 'A', ('class', mod.qual, name))
        self.U(fr, node, "unknown name %s" % name)

    def ev(self, n, env, fr):
        m = getattr(self, 'ex_' + type(n).__name__, None)
        if m is None:
            self.U(fr, n, "expression %s" % type(n).__name__)
        return m(n, env, fr)

    def ex_Name(self, n, env, fr):
        return self.lookup(n.id, env, fr, n)

    def ex_Constant(self, n, env, fr):
        v = n.value
        if isinstance(v, bool):
            return V(TRUE if v else FALSE, 'A')
        if isinstance(v, int):
            return V(PYINT, 'A')
        if isinstance(v, float):
            return V(PYFLOAT, 'A')
        if v is None:
            return V(NONE, 'A')
        if isinstance(v, str):
            return V(C(('StrV', v)), 'A', ('str', v))
        if v is Ellipsis:
            return V(OPAQUE, 'A')
        self.U(fr, n, "constant %r" % (v,))

    def ex_JoinedStr(self, n, env, fr):
        return V(OPAQUE, 'A')

    def ex_Slice(self, n, env, fr):
        for x in (n.lower, n.upper, n.step):
            if x is not None:
                self.ev(x, env, fr)
        return V(OPAQUE, 'A')

    def ex_Starred(self, n, env, fr):
        return self.ev(n.value, env, fr)

    def seq(self, elts, env, fr):
        vs = [self.ev(x, env, fr) for x in elts]
        st = ('list', vs) if not any(isinstance(x, ast.Starred) for x in elts) else None
        return V(('Seq', [x.e for x in vs]), 'A', st)

    def ex_Tuple(self, n, env, fr):
        return self.seq(n.elts, env, fr)

    ex_List = ex_Tuple

    def comp(self, n, env, fr):
        e = env
        for g in n.generators:
            if g.is_async:
                self.U(fr, n, "async comprehension")
            e = self.bind_loop_targets(g.target, g.iter, e, fr)
            for c in g.ifs:
                self.cond(c, e, fr)
        v = self.ev(n.elt, e, fr)
        return v

    def ex_ListComp(self, n, env, fr):
        if fr.mode == 'tensor' and len(n.generators) == 1 and not n.generators[0].ifs and isinstance(n.generators[0].target, ast.Name) \
                and isinstance(n.elt, ast.Attribute) and n.elt.attr == 'data' and isinstance(n.elt.value, ast.Name) and n.elt.value.id == n.generators[0].target.id:
            it = self.ev(n.generators[0].iter, env, fr)
            if it.tag != 'A':
                return V(it.e, 'A')         # [t.data for t in x]: the data of a list-of-tensors operand
        v = self.comp(n, env, fr)
        return V(('Seq', [v.e]), 'A')

    ex_GeneratorExp = ex_ListComp

    def tag2(self, a, b, fr):
        if fr.mode == 'kernel':
            return 'A'
        return a.tag if a.tag == b.tag else 'U'

    def ex_IfExp(self, n, env, fr):
        c = self.cond(n.test, env, fr)
        if isinstance(c, tuple) and c[0] == 'static':
            return self.ev(n.body if c[1] else n.orelse, env, fr)
        a, b = self.ev(n.body, env, fr), self.ev(n.orelse, env, fr)
        tg = a.tag if a.tag == b.tag else (a.tag if b.e == NONE else (b.tag if a.e == NONE else 'U'))
        al = a.alias if b.e == NONE else (b.alias if a.e == NONE else (a.alias if a.alias == b.alias else None))
        return V(('If', c, a.e, b.e), tg, None, al)    # `self.rm if cond else None` is self.rm or nothing

    def ex_BoolOp(self, n, env, fr):
        vs = [self.ev(x, env, fr) for x in n.values]
        cur = vs[-1]
        for v in reversed(vs[:-1]):
            if isinstance(n.op, ast.And):
                cur = V(('If', v.e, cur.e, v.e), self.tag2(v, cur, fr))
            else:
                cur = V(('If', v.e, v.e, cur.e), self.tag2(v, cur, fr))
        return cur

    def ex_Compare(self, n, env, fr):
        c = self.cond(n, env, fr, value_ctx=True)
        if isinstance(c, tuple) and c[0] == 'static':
            return V(TRUE if c[1] else FALSE, 'A')
        return V(c, 'A')

    def ex_UnaryOp(self, n, env, fr):
        if isinstance(n.op, ast.Not):
            c = self.cond(n, env, fr)
            if isinstance(c, tuple) and c[0] == 'static':
                return V(TRUE if c[1] else FALSE, 'A')
            return V(c, 'A')
        v = self.ev(n.operand, env, fr)
        if isinstance(n.op, ast.UAdd):
            return v
        if not isinstance(n.op, ast.USub):
            self.U(fr, n, "unary operator %s" % type(n.op).__name__)
        if v.tag == 'A':
            return V(('Neg', v.e), 'A')
        cn, _ = self.w.func('method', 'tensor', '__neg__', 'Tensor')
        app = ('App', cn, [v.e])
        if v.tag == 'T':
            return V(app, 'T')
        return V(('If', ('IsNp', v.e), app, ('Neg', v.e)), 'U')

    def binop(self, op, a, b, fr, node):
        if type(op) not in BINOPS:
            self.U(fr, node, "binary operator %s" % type(op).__name__)
        plain = (BINOPS[type(op)], a.e, b.e)
        if a.tag == 'A' and b.tag == 'A':
            return V(plain, 'A')
        if type(op) not in OVERLOADS:
            self.U(fr, node, "operator %s on a Tensor" % type(op).__name__)
        fwd, rev = OVERLOADS[type(op)]
        f = lambda: ('App', self.w.func('method', 'tensor', fwd, 'Tensor')[0], [a.e, b.e])
        r = lambda: ('App', self.w.func('method', 'tensor', rev, 'Tensor')[0], [b.e, a.e])
        if a.tag == 'T':
            return V(f(), 'T')
        if a.tag == 'A':          # python/numpy value on the left, b is T or U
            if b.tag == 'T':
                return V(r(), 'T')
            return V(('If', ('IsNp', b.e), r(), plain), 'U')
        # a is U
        if b.tag == 'T':
            return V(('If', ('IsNp', a.e), f(), r()), 'T')
        if b.tag == 'A':
            return V(('If', ('IsNp', a.e), f(), plain), 'U')
        return V(('If', ('IsNp', a.e), f(), ('If', ('IsNp', b.e), r(), plain)), 'U')

    def ex_BinOp(self, n, env, fr):
        a, b = self.ev(n.left, env, fr), self.ev(n.right, env, fr)
        # string building in error messages etc.
        if (a.st and a.st[0] == 'str') or (b.st and b.st[0] == 'str'):
            return V(OPAQUE, 'A')
        if isinstance(n.op, (ast.Add, ast.Mult)) and a.st and a.st[0] == 'list' and b.st and b.st[0] == 'list' and isinstance(n.op, ast.Add):
            return V(('Seq', [a.e, b.e]), 'A', ('list', a.st[1] + b.st[1]))
        return self.binop(n.op, a, b, fr, n)

    def ex_Subscript(self, n, env, fr):
        b = self.ev(n.value, env, fr)
        if b.st is not None and b.st[0] == 'list' and isinstance(n.slice, ast.Constant) and isinstance(n.slice.value, int) \
                and -len(b.st[1]) <= n.slice.value < len(b.st[1]):
            return b.st[1][n.slice.value]
        self.ev(n.slice, env, fr)
        if b.tag == 'T':
            cn, _ = self.w.func('method', 'tensor', '__getitem__', 'Tensor')
            return V(('App', cn, [b.e, OPAQUE]), 'T')
        return V(('Index', b.e, 'ISlice' if has_slice(n.slice) else 'IUnknown'), b.tag)

    # ---- conditions -------------------------------------------------------------------------------------
    def cond(self, n, env, fr, value_ctx=False):
        if isinstance(n, ast.UnaryOp) and isinstance(n.op, ast.Not):
            c = self.cond(n.operand, env, fr)
            if isinstance(c, tuple) and c[0] == 'static':
                return ('static', not c[1])
            return ('Not', c)
        if isinstance(n, ast.BoolOp):
            cs = [self.cond(x, env, fr) for x in n.values]
            cur = cs[-1]
            for c in reversed(cs[:-1]):
                isand = isinstance(n.op, ast.And)
                if isinstance(c, tuple) and c[0] == 'static':
                    if c[1] == isand:
                        continue            # True and X = X ; False or X = X
                    cur = c                 # False and X = False ; True or X = True
                    continue
                if isinstance(cur, tuple) and cur[0] == 'static':
                    cur = TRUE if cur[1] else FALSE
                cur = ('If', c, cur, FALSE) if isand else ('If', c, TRUE, cur)
            return cur
        if isinstance(n, ast.Compare):
            vals = [self.ev(x, env, fr) for x in [n.left] + n.comparators]
            if len(n.ops) == 1:
                a, b, op = vals[0], vals[1], n.ops[0]
                if isinstance(op, (ast.Is, ast.IsNot)):
                    if b.e == NONE:
                        c = ('IsNone', a.e)
                    elif a.e == NONE:
                        c = ('IsNone', b.e)
                    else:
                        return PYBOOL
                    return c if isinstance(op, ast.Is) else ('Not', c)
                if a.st and b.st and a.st[0] == 'str' and b.st[0] == 'str' and isinstance(op, (ast.Eq, ast.NotEq)):
                    return ('static', (a.st[1] == b.st[1]) == isinstance(op, ast.Eq))
                if isinstance(op, (ast.In, ast.NotIn)):
                    return PYBOOL
                if a.st and b.st and a.st[0] in ('dtype', 'dtypeof') and b.st[0] in ('dtype', 'dtypeof') and isinstance(op, (ast.Eq, ast.NotEq)):
                    c = ('DtypeEq', a.e, b.e)
                    return c if isinstance(op, ast.Eq) else ('Not', c)
                if a.tag != 'A' or b.tag != 'A':
                    return PYBOOL       # Tensor defines no comparison: identity
                if isinstance(op, ast.NotEq) and not value_ctx:
                    return ('Not', ('Cmp', a.e, b.e))
                return ('Cmp', a.e, b.e)
            return PYBOOL
        if isinstance(n, ast.Call) and ast.unparse(n.func) == 'isinstance' and len(n.args) == 2:
            v = self.ev(n.args[0], env, fr)
            ty = ast.unparse(n.args[1])
            if ty == 'Tensor':
                if v.tag == 'T':
                    return ('Not', ('IsNone', v.e))      # an optional tensor operand may still be None
                if v.tag == 'U':
                    return ('IsNp', v.e)
                return ('static', False)
            tys = ty.replace(' ', '').strip('()').split(',')
            if tys and all(t in ('int', 'float') for t in tys):
                if v.tag == 'T':
                    return ('static', False)
                return ('IsPy', 'int' in tys, 'float' in tys, v.e)
            return PYBOOL
        v = self.ev(n, env, fr)
        if v.st is not None and v.st[0] == 'str':
            return ('static', bool(v.st[1]))
        if v.tag == 'T':
            # truth value of a Tensor is len(data) > 0 (Tensor defines __len__): unknown unless it is None
            return ('If', ('IsNone', v.e), FALSE, PYBOOL)
        return v.e

    # ---- attributes ----------------------------------------------------------------------------------------
    def tensor_property(self, b, name, n, env, fr):
        """<tensor>.<property>: the property's body (a single `return <expr>` over self) evaluated for this tensor"""
        tmod = self.w.mods['tensor']
        fd = None
        for st in tmod.classes['Tensor'].body:
            if isinstance(st, ast.FunctionDef) and st.name == name and any(ast.unparse(d) == 'property' for d in st.decorator_list):
                fd = st
        if fd is None or len(fd.body) != 1 or not isinstance(fd.body[0], ast.Return) or [a.arg for a in fd.args.args] != ['self']:
            self.U(fr, n, "Tensor property %s is not a single return statement" % name)
        pfr = Frame(tmod, 'tensor', None)
        return self.ev(fd.body[0].value, Env({'self': V(b.e, 'T')}, env.depth), pfr)

    def ex_Attribute(self, n, env, fr):
        # self.<attr> of a layer
        if isinstance(n.value, ast.Name) and n.value.id == 'self' and fr.cls is not None:
            v = env.get('self.' + n.attr)
            if v is not None:
                return V(v.e, v.tag, v.st, 'self.' + n.attr)
            self.U(fr, n, "unknown attribute self.%s" % n.attr)
        u = ast.unparse(n)
        if isinstance(n.value, ast.Name) and not env.has(n.value.id):
            base = self.lookup(n.value.id, env, fr, n)
            st = base.st
            if st and st[0] == 'alias':
                if st[1] == 'np':
                    if n.attr in DTYPE_CONST:
                        return V(NPC(DTYPE_CONST[n.attr]), 'A', ('dtype',))
                    if n.attr in ('inf', 'pi', 'e'):
                        return V(PYFLOAT, 'A')
                    return V(OPAQUE, 'A', ('npattr', n.attr))
                if st[1] == 'mod':
                    return V(OPAQUE, 'A', ('modfunc', st[2], n.attr))
                if st[1] == 'pkg':
                    return V(OPAQUE, 'A', ('pkgattr', st[2], n.attr))
                if st[1] == 'from' and st[3] == 'Device':
                    return V(OPAQUE, 'A')
                if st[1] == 'other' and st[2].endswith('Device'):
                    return V(OPAQUE, 'A')
                if st[1] == 'math':
                    return V(OPAQUE, 'A', ('math', n.attr))
            self.U(fr, n, "attribute %s" % u)
        if n.attr == 'grad' and fr.mode == 'tensor' and getattr(fr, 'in_closure', False) and fr.grad is not None:
            return V(fr.grad, 'T')      # `out.grad` / `out[i].grad`: the upstream gradient handed to the closure
        b = self.ev(n.value, env, fr)
        if b.st and b.st[0] in ('dtypeof', 'dtype') and n.attr in ('kind', 'name', 'itemsize', 'char'):
            return V(OPAQUE, 'A')       # <dtype>.kind ...: not tracked, a test on it takes both branches
        if b.st and b.st[0] in ('npattr', 'pkgattr'):
            return V(OPAQUE, 'A', b.st + (n.attr,))
        a = n.attr
        if a == 'data':
            return V(b.e, 'A')
        if a == 'shape':
            return V(('Seq', [('ToInt', b.e)]), 'A')
        if a in ('ndim', 'size'):
            return V(('ToInt', b.e), 'A')
        if a == 'dtype':
            return V(b.e, 'A', ('dtypeof',))
        if a == 'T':
            return V(('View', b.e), 'A')
        if a == 'strides':
            return V(('Seq', [('ToInt', b.e)]), 'A')
        if a == 'flags':
            return V(OPAQUE, 'A')
        if fr.mode == 'tensor' and a == 'is_floating_point':
            return self.tensor_property(b, a, n, env, fr)
        if fr.mode == 'tensor':
            if a in ('device', '_operation', 'name', '_name'):
                return V(OPAQUE, 'A')
            if a in ('requires_grad', 'is_leaf', 'training'):
                return V(PYBOOL, 'A')
            if a == '_grad' and getattr(fr, 'in_closure', False):
                return V(('Like', b.e), 'A')      # the operand's buffer: zeros_like(data) (zero_), same dtype
            if a == 'grad':
                if not getattr(fr, 'in_closure', False) or fr.grad is None:
                    self.U(fr, n, ".grad outside a backward closure")
                return V(fr.grad, 'T')
        self.U(fr, n, "attribute .%s" % a)

    # ---- calls ------------------------------------------------------------------------------------------------
    def kwmap(self, n):
        d = {}
        for k in n.keywords:
            if k.arg is None:
                return None
            d[k.arg] = k.value
        return d

    def bind_args(self, fd, callee_mod, n, env, fr, pre=()):
        """dexprs of the callee's parameters (declaration order) for call node n; pre = already evaluated leading values"""
        names, defaults, vararg, kwonly, kwdefaults = World.signature(fd)
        kws = self.kwmap(n)
        if kws is None:
            self.U(fr, n, "**kwargs in a call")
        pos = list(pre)
        for a in n.args:
            if isinstance(a, ast.Starred):
                v = self.ev(a.value, env, fr)
                if not (v.st and v.st[0] == 'list'):
                    self.U(fr, n, "starred argument of unknown length")
                pos += v.st[1]
            else:
                pos.append(self.ev(a, env, fr))
        out = []
        dfr = Frame(callee_mod, 'kernel', None)
        for i, nm in enumerate(names):
            if i < len(pos):
                if nm in kws:
                    self.U(fr, n, "argument %s given twice" % nm)
                out.append(pos[i])
            elif nm in kws:
                out.append(self.ev(kws.pop(nm), env, fr))
            elif defaults[i] is not None:
                out.append(self.ev(defaults[i], Env(), dfr))
            else:
                self.U(fr, n, "missing argument %s" % nm)
        if vararg:
            rest = pos[len(names):]
            out.append(V(('Seq', [x.e for x in rest]), 'A', ('list', rest)))
        elif len(pos) > len(names):
            self.U(fr, n, "too many positional arguments")
        for nm, d in zip(kwonly, kwdefaults):
            if nm in kws:
                out.append(self.ev(kws.pop(nm), env, fr))
            elif d is not None:
                out.append(self.ev(d, Env(), dfr))
            else:
                self.U(fr, n, "missing keyword argument %s" % nm)
        if kws:
            self.U(fr, n, "unknown keyword arguments %s" % sorted(kws))
        return out

    def app(self, kind, modq, name, n, env, fr, pre=(), cls=None):
        mod = self.w.mods[modq]
        if kind == 'method':
            fd = [s for s in mod.classes[cls].body if isinstance(s, ast.FunctionDef) and s.name == name]
            if not fd:
                self.U(fr, n, "Tensor has no method %s" % name)
            fd = fd[0]
        else:
            fd = mod.funcs.get(name)
            if fd is None:
                self.U(fr, n, "%s has no function %s" % (modq, name))
        cn, meta = self.w.func(kind, modq, name, cls)
        args = self.bind_args(fd, mod, n, env, fr, pre)
        if kind == 'wrapper':
            e = ('Proj', 0, ('App', cn, [a.e for a in args] + [ERR]))
            return V(e, 'T')
        e = ('App', cn, [a.e for a in args])
        if kind == 'kernel':
            ar = meta.get('ret_arity')
            return V(e, 'A', ('arity', ar) if ar else None)
        return V(e, 'T')

    def dtype_kw(self, node, env, fr):
        """value of a dtype= keyword -> carrier dexpr or None"""
        if node is None or (isinstance(node, ast.Constant) and node.value is None):
            return None
        v = self.ev(node, env, fr)
        return v.e

    def tensor_ctor(self, n, env, fr):
        if len(n.args) != 1:
            self.U(fr, n, "Tensor(...) with %d positional arguments" % len(n.args))
        kws = self.kwmap(n)
        if kws is None:
            self.U(fr, n, "Tensor(**kwargs)")
        for k in kws:
            if k not in IGNORED_TENSOR_KW and k != 'dtype':
                self.U(fr, n, "Tensor(%s=...)" % k)
        for k in IGNORED_TENSOR_KW:
            if k in kws:
                self.ev(kws[k], env, fr) if k in ('device',) else None
        data = self.ev(n.args[0], env, fr)
        dt = self.dtype_kw(kws.get('dtype'), env, fr)
        if not getattr(fr, 'in_closure', False) and 'children' in kws:
            fr.ctor_dtype_kw = 'dtype' in kws
            fr.out_kernel = ast.unparse(n.args[0])
        return V(('Ctor', data.e, dt), 'T')

    BUILTIN_NAMES = ('len', 'range', 'int', 'float', 'tuple', 'list', 'sorted', 'set', 'sum', 'isinstance', 'slice', 'str', 'any', 'all', 'abs', 'bool', 'type', 'max', 'min')

    def builtin(self, name, n, env, fr):
        if n.keywords:
            self.U(fr, n, "keyword arguments to builtin %s" % name)
        if name in ('any', 'all'):
            for a in n.args:
                self.ev(a, env, fr)
            return V(PYBOOL, 'A')
        if name == 'isinstance':
            c = self.cond(n, env, fr)
            return V((TRUE if c[1] else FALSE) if (isinstance(c, tuple) and c[0] == 'static') else c, 'A')
        args = [self.ev(a, env, fr) for a in n.args]
        if name == 'len':
            if args[0].st and args[0].st[0] == 'list':
                return V(PYINT, 'A')
            return V(('ToInt', args[0].e), 'A')
        if name == 'range':
            return V(('Seq', [('ToInt', a.e) for a in args]), 'A')
        if name == 'int':
            return V(('ToInt', args[0].e), 'A')
        if name == 'float':
            return V(('Bin', PYFLOAT, ('ToInt', args[0].e)), 'A')
        if name in ('tuple', 'list', 'sorted', 'set'):      # containers: same elements (order / multiplicity are shape-level)
            if not args:
                return V(('Seq', []), 'A', ('list', []))
            a = args[0]
            if isinstance(n.args[0], (ast.GeneratorExp, ast.ListComp)):
                if fr.mode == 'tensor' and isinstance(n.args[0].elt, ast.Call) and ast.unparse(n.args[0].elt.func) == 'Tensor':
                    fr.multi = True
                    return V(self.comp(n.args[0], env, fr).e, 'T')   # stands for every element of a multi-result
                return a
            if a.st and a.st[0] == 'list':
                return a if name in ('tuple', 'list') else V(a.e, a.tag)
            if a.tag != 'A':
                return V(a.e, a.tag)        # tuple(x) of a list-of-tensors operand: the same pile
            return V(('Seq', [('Elem', a.e)]), 'A')
        if name == 'sum':
            return V(('Bin', PYINT, ('Elem', args[0].e)), 'A')
        if name in ('max', 'min') and len(args) == 2:
            return V(('Choice', args[0].e, args[1].e), 'A')      # one of its arguments
        if name == 'slice':
            return V(OPAQUE, 'A')
        if name in ('str', 'type'):
            return V(OPAQUE, 'A')
        if name == 'abs':
            return V(('Neg', args[0].e), 'A')
        if name == 'bool':
            return V(('Cmp', args[0].e, PYINT), 'A')
        self.U(fr, n, "builtin %s" % name)

    def red(self, op, a, n, env, fr, ax_pos):
        """reduction: axis = keyword `axis` or positional ax_pos; keepdims keyword or next positional"""
        kws = self.kwmap(n) or {}
        for k in kws:
            if k not in ('axis', 'keepdims'):
                self.U(fr, n, "reduction keyword %s" % k)
        axn = kws.get('axis', n.args[ax_pos] if len(n.args) > ax_pos else None)
        kdn = kws.get('keepdims', n.args[ax_pos + 1] if len(n.args) > ax_pos + 1 else None)
        ax = self.ev(axn, env, fr).e if axn is not None else NONE
        kd = self.ev(kdn, env, fr).e if kdn is not None else FALSE
        return V(('Reduce', op, a.e, ax, kd), 'A')

    NP_FLOATFN = ('exp', 'log', 'sqrt', 'tanh')
    NP_VIEW = ('swapaxes', 'moveaxis', 'squeeze', 'reshape', 'transpose')
    NP_TOARR = ('expand_dims', 'pad', 'ascontiguousarray', 'rollaxis', 'split',
                'lib.stride_tricks.as_strided', 'lib.stride_tricks.sliding_window_view')
    NP_RED = {'sum': 'RSum', 'prod': 'RSum', 'mean': 'RMean', 'var': 'RMean', 'max': 'RMax', 'min': 'RMax',
              'argmax': 'RArg', 'argmin': 'RArg'}

    def np_call(self, name, n, env, fr):
        kws = self.kwmap(n)
        if kws is None:
            self.U(fr, n, "np.%s(**kwargs)" % name)
        arg = lambda i: self.ev(n.args[i], env, fr)

        def evall(skip=()):
            for i, a in enumerate(n.args):
                self.ev(a, env, fr)
            for k, v in kws.items():
                if k not in skip:
                    self.ev(v, env, fr)
        if name in DTYPE_CONST and len(n.args) == 1 and not kws:
            return V(('Cast', arg(0).e, NPC(DTYPE_CONST[name])), 'A')
        if name in self.NP_FLOATFN and len(n.args) == 1 and not kws:
            return V(('FloatFn', arg(0).e), 'A')
        if name == 'abs' and len(n.args) == 1 and not kws:
            return V(('Neg', arg(0).e), 'A')
        if name == 'floor' and len(n.args) == 1 and not kws:
            return V(('Floor', arg(0).e), 'A')
        if name in ('maximum', 'minimum') and len(n.args) == 2 and not kws:
            return V(('Bin', arg(0).e, arg(1).e), 'A')
        if name in ('multiply', 'add', 'subtract', 'divide', 'true_divide', 'power') and len(n.args) == 2 and set(kws) <= {'dtype'}:
            # the binary ufuncs called by name; dtype=<e>.dtype / np.floatXX fixes the result dtype
            node = {'divide': 'Div', 'true_divide': 'Div', 'power': 'Pow'}.get(name, 'Bin')
            e = (node, arg(0).e, arg(1).e)
            dt = self.dtype_kw(kws.get('dtype'), env, fr) if 'dtype' in kws else None
            return V(('Astype', e, dt) if dt is not None else e, 'A')
        if name == 'where' and len(n.args) == 3 and not kws:
            return V(('Where', arg(0).e, arg(1).e, arg(2).e), 'A')
        if name in self.NP_RED and n.args:
            return self.red(self.NP_RED[name], arg(0), n, env, fr, 1)
        if name == 'cumprod' and len(n.args) == 1 and not kws:
            return V(('ToArr', ('Reduce', 'RSum', arg(0).e, SHAPE, PYBOOL)), 'A')
        if name in ('zeros', 'ones', 'empty') and len(n.args) == 1 and set(kws) <= {'dtype'}:
            arg(0)
            return V(('Alloc', self.dtype_kw(kws.get('dtype'), env, fr)), 'A')
        if name == 'full' and len(n.args) == 2 and set(kws) <= {'dtype'}:
            arg(0)
            if 'dtype' in kws:
                return V(('Alloc', self.dtype_kw(kws['dtype'], env, fr)), 'A')
            return V(('ToArr', ('AsArray', arg(1).e)), 'A')
        if name in ('zeros_like', 'ones_like') and len(n.args) == 1 and set(kws) <= {'dtype'}:
            if 'dtype' in kws:
                arg(0)
                return V(('Alloc', self.dtype_kw(kws['dtype'], env, fr)), 'A')
            return V(('Like', arg(0).e), 'A')
        if name == 'arange' and n.args and set(kws) <= {'dtype'}:
            evall(('dtype',))
            if 'dtype' in kws:
                return V(('Alloc', self.dtype_kw(kws['dtype'], env, fr)), 'A')
            e = arg(0).e
            for i in range(1, len(n.args)):
                e = ('Bin', e, arg(i).e)
            return V(('Arange', e), 'A')
        if name in ('array', 'asarray') and len(n.args) == 1 and set(kws) <= {'dtype'}:
            if 'dtype' in kws:
                arg(0)
                dt = self.dtype_kw(kws['dtype'], env, fr)
                if dt is None:
                    return V(('AsArray', arg(0).e), 'A')
                return V(('Alloc', dt), 'A')
            return V(('AsArray', arg(0).e), 'A')
        if name == 'broadcast_to' and len(n.args) == 2 and not kws:
            arg(1)
            return V(('AsArray', arg(0).e), 'A')
        if name in self.NP_VIEW and n.args:
            if 'dtype' in kws:
                self.U(fr, n, "np.%s(dtype=...)" % name)
            evall()
            return V(('View', arg(0).e), 'A')
        if name in self.NP_TOARR and n.args:
            if 'dtype' in kws:
                if name != 'ascontiguousarray' or len(n.args) != 1 or set(kws) != {'dtype'}:
                    self.U(fr, n, "np.%s(dtype=...)" % name)
                dt = self.dtype_kw(kws['dtype'], env, fr)      # np.ascontiguousarray(a, dtype=D): a fresh array of dtype D
                return V(('ToArr', arg(0).e) if dt is None else ('Astype', ('ToArr', arg(0).e), dt), 'A')
            evall()
            return V(('ToArr', arg(0).e), 'A')
        if name in ('concatenate', 'stack') and len(n.args) == 1 and set(kws) <= {'axis'}:
            evall()
            return V(('Concat', arg(0).e), 'A')
        if name == 'tensordot' and len(n.args) == 2 and set(kws) <= {'axes'}:
            evall()
            return V(('Tensordot', arg(0).e, arg(1).e), 'A')
        if name == 'argsort' and len(n.args) == 1 and not kws:
            return V(('ToArr', ('Reduce', 'RArg', ('AsArray', arg(0).e), SHAPE, TRUE)), 'A')     # an int64 index array
        if name == 'unravel_index' and len(n.args) == 2 and not kws:
            evall()
            return V(OPAQUE, 'A')
        if name == 'broadcast_shapes':
            evall()
            return V(SHAPE, 'A')
        if name == 'ndindex':
            evall()
            return V(OPAQUE, 'A')
        if name == 'random.rand' and not kws:
            evall()
            return V(NPC('F64'), 'A')
        self.U(fr, n, "NumPy function np.%s with this argument pattern" % name)

    def method_call(self, b, name, n, env, fr):
        """<value>.<name>(...) on a NumPy/Python value"""
        kws = self.kwmap(n) or {}
        if name in ('reshape', 'transpose', 'swapaxes', 'squeeze', 'ravel', 'flatten'):
            for a in n.args:
                self.ev(a, env, fr)
            if kws:
                self.U(fr, n, ".%s(keywords)" % name)
            return V(('View', b.e), 'A')
        if name == 'copy' and not n.args and not kws:
            return V(('Copy', b.e), 'A')
        if name == 'astype' and len(n.args) + len(kws) == 1:
            node = n.args[0] if n.args else kws.get('dtype')
            if node is None:
                self.U(fr, n, ".astype(?)")
            dt = self.dtype_kw(node, env, fr)
            if dt is None:
                self.U(fr, n, ".astype(None)")
            return V(('Astype', b.e, dt), 'A')
        if name == 'item' and not n.args and not kws:
            return V(('Item', b.e), 'A')
        if name in self.NP_RED:
            return self.red(self.NP_RED[name], b, n, env, fr, 0)
        self.U(fr, n, "method .%s" % name)

    def callable_param_call(self, n, env, fr):
        """call of a PARAMETER of the function being translated (first_extremum_mask's arg_fn): resolved from the call
        sites - every call site must pass a NumPy function, and all of them must have the same dtype-transfer for this call"""
        fd = getattr(fr, 'fd', None)
        pname = n.func.id
        if fd is None or pname not in [a.arg for a in fd.args.args]:
            return None
        pidx = [a.arg for a in fd.args.args].index(pname)
        sites = []
        for q, mod in self.w.mods.items():
            for sub in ast.walk(mod.tree):
                if isinstance(sub, ast.Call):
                    fn = sub.func
                    hit = (isinstance(fn, ast.Name) and fn.id == fd.name and (q == fr.mod.qual or (mod.alias.get(fn.id, (None,))[0] == 'from' and mod.alias[fn.id][1] == fr.mod.qual))) or \
                          (isinstance(fn, ast.Attribute) and fn.attr == fd.name and isinstance(fn.value, ast.Name) and mod.alias.get(fn.value.id) == ('mod', fr.mod.qual))
                    if hit:
                        kw = {k.arg: k.value for k in sub.keywords}
                        a = sub.args[pidx] if pidx < len(sub.args) else kw.get(pname)
                        sites.append((q, sub.lineno, a))
        if not sites:
            self.U(fr, n, "callable parameter %s of %s: no call site found" % (pname, fd.name))
        results = []
        for q, ln, a in sites:
            if not (isinstance(a, ast.Attribute) and isinstance(a.value, ast.Name) and self.w.mods[q].alias.get(a.value.id) == ('np',)):
                self.U(fr, n, "callable parameter %s of %s: the call site %s:%d passes %s, not a NumPy function" % (pname, fd.name, q, ln, ast.unparse(a) if a is not None else None))
            results.append((a.attr, self.np_call(a.attr, n, env, fr)))
        if any(r.e != results[0][1].e for _, r in results):
            self.U(fr, n, "callable parameter %s of %s: call sites pass functions with different dtype behaviour: %s" % (pname, fd.name, sorted(set(x for x, _ in results))))
        fr_used = getattr(self.w, 'callable_params', None)
        if fr_used is None:
            self.w.callable_params = fr_used = {}
        fr_used[(fr.mod.qual, fd.name, pname)] = sorted(set(x for x, _ in results))
        return results[0][1]

    def ex_Call(self, n, env, fr):
        f = n.func
        if isinstance(f, ast.Name) and env.has(f.id) and fr.mode == 'kernel':
            r = self.callable_param_call(n, env, fr)
            if r is not None:
                return r
        if isinstance(f, ast.Name) and not env.has(f.id):
            name = f.id
            if name in self.BUILTIN_NAMES and name not in fr.mod.funcs:
                return self.builtin(name, n, env, fr)
            st = self.lookup(name, env, fr, n).st
            if st[0] == 'func':
                kind = {'cpu_ops': 'kernel', 'conv_tools': 'kernel', 'tensor': 'tfun'}.get(st[1])
                if kind is None:
                    self.U(fr, n, "call of %s.%s" % (st[1], name))
                return self.app(kind, st[1], name, n, env, fr)
            if st[0] == 'class' and name == 'Tensor':
                return self.tensor_ctor(n, env, fr)
            if st[0] == 'alias' and st[1] == 'from':
                modq, nm = st[2], st[3]
                if nm in ('Tensor', 'Parameter'):
                    return self.tensor_ctor(n, env, fr)
                if nm == 'BackwardFunction':
                    return V(OPAQUE, 'A')
                if modq in ('cpu_ops', 'conv_tools') and nm in self.w.mods[modq].funcs:
                    return self.app('kernel', modq, nm, n, env, fr)
            self.U(fr, n, "call of %s" % name)
        if isinstance(f, ast.Attribute):
            u = ast.unparse(f)
            root = f
            chain = []
            while isinstance(root, ast.Attribute):
                chain.append(root.attr)
                root = root.value
            chain.reverse()
            if isinstance(root, ast.Name) and not env.has(root.id) and fr.mod.qual == 'tensor' and root.id in ('F', 'utils'):
                # tensor.py imports these lazily (`F = importlib.import_module("synapgrad.functional")`)
                if root.id == 'F' and len(chain) == 1:
                    return self.app('wrapper', 'functional', chain[0], n, env, fr)
                if root.id == 'utils' and len(chain) == 1 and chain[0] in self.w.mods['utils'].funcs:
                    return self.app('kernel', 'utils', chain[0], n, env, fr)
                self.U(fr, n, "call of %s" % u)
            if isinstance(root, ast.Name) and not env.has(root.id) and root.id != 'self':
                st = self.lookup(root.id, env, fr, n).st
                if st and st[0] == 'alias':
                    if st[1] == 'np':
                        return self.np_call('.'.join(chain), n, env, fr)
                    if st[1] == 'math':
                        vs = [self.ev(a, env, fr) for a in n.args]
                        if chain == ['prod'] and len(vs) == 1:
                            return V(('Bin', PYINT, ('Elem', vs[0].e)), 'A')      # product of the elements (Python ints stay ints)
                        return V(PYFLOAT, 'A')
                    if st[1] == 'mod' and len(chain) == 1:
                        modq = st[2]
                        if modq in ('cpu_ops', 'conv_tools'):
                            return self.app('kernel', modq, chain[0], n, env, fr)
                        if modq in ('functional', 'nn.functional'):
                            return self.app('wrapper', modq, chain[0], n, env, fr)
                        if modq == 'nn.init':
                            for a in n.args:
                                self.ev(a, env, fr)
                            return V(OPAQUE, 'A')
                    if st[1] == 'pkg':
                        if st[2] == 'synapgrad' and len(chain) == 1 and chain[0] in self.w.mods['tensor'].funcs:
                            return self.app('tfun', 'tensor', chain[0], n, env, fr)
                        if st[2] == 'nn' and chain == ['Parameter']:
                            return self.tensor_ctor(n, env, fr)
                        if st[2] == 'nn' and chain[0] == 'init':
                            for a in n.args:
                                self.ev(a, env, fr)
                            return V(OPAQUE, 'A')
                    if st[1] == 'from' and st[3] == 'utils' or (st[1] == 'other'):
                        pass
                # tensor.py: F.<wrapper>, utils.<fn>
                if fr.mod.qual == 'tensor' and root.id == 'F' and len(chain) == 1:
                    return self.app('wrapper', 'functional', chain[0], n, env, fr)
                if fr.mod.qual == 'tensor' and root.id == 'utils' and chain == ['is_floating_point']:
                    return V(PYBOOL, 'A')
                self.U(fr, n, "call of %s" % u)
            if isinstance(root, ast.Name) and root.id == 'self' and fr.cls is not None and len(chain) == 1 and not env.has('self.' + chain[0]):
                self.U(fr, n, "call of self.%s in expression position" % chain[0])
            b = self.ev(f.value, env, fr)
            if b.tag == 'T' and fr.mode == 'tensor' and f.attr in ('matches_shape', 'has_grad'):
                for a in n.args:
                    self.ev(a, env, fr)
                return V(PYBOOL, 'A')
            if b.tag == 'T' and fr.mode == 'tensor':
                return self.app('method', 'tensor', f.attr, n, env, fr, pre=(b,), cls='Tensor')
            if b.tag == 'A':
                return self.method_call(b, f.attr, n, env, fr)
            self.U(fr, n, "method call .%s on a value of unknown type" % f.attr)
        self.U(fr, n, "call of %s" % ast.unparse(f))

    # ---- classes: layers, losses, activations -------------------------------------------------------------------
    CLASS_MODS = ('nn.layers', 'nn.losses', 'nn.activations', 'nn.modules')

    def find_class(self, name, modq):
        mod = self.w.mods[modq]
        if name in mod.classes:
            return modq, mod.classes[name]
        al = mod.alias.get(name.split('.')[-1]) if '.' not in name else None
        short = name.split('.')[-1]
        if '.' in name or al is not None:
            for q in self.CLASS_MODS:
                if short in self.w.mods[q].classes:
                    return q, self.w.mods[q].classes[short]
        return None

    def parent(self, modq, cd):
        if len(cd.bases) != 1:
            raise Untranslatable(self.w.mods[modq].file, cd.lineno, "class %s with %d bases" % (cd.name, len(cd.bases)))
        b = ast.unparse(cd.bases[0])
        r = self.find_class(b, modq)
        if r is None:
            raise Untranslatable(self.w.mods[modq].file, cd.lineno, "unknown base class %s" % b)
        return r

    def find_method(self, modq, cd, mname, skip_self=False):
        """(modq, classdef, fd) of the first class in the chain defining mname, or None at nn.Module"""
        cur = (modq, cd)
        first = True
        while True:
            q, c = cur
            if c.name == 'Module' and q == 'nn.modules':
                for s in c.body:
                    if isinstance(s, ast.FunctionDef) and s.name == mname:
                        return q, c, s
                return None
            if not (first and skip_self):
                for s in c.body:
                    if isinstance(s, ast.FunctionDef) and s.name == mname:
                        return q, c, s
            first = False
            cur = self.parent(q, c)

    def call_method(self, q, c, fd, argvs, env, fr, k):
        names = World.params_of(fd)[1:]
        sig = World.signature(fd)
        if sig is None or sig[2] or sig[3]:
            raise Untranslatable(self.w.mods[q].file, fd.lineno, "signature of method %s" % fd.name)
        defaults = sig[1][1:]
        if len(argvs) > len(names):
            raise Untranslatable(self.w.mods[q].file, fd.lineno, "too many arguments for %s" % fd.name)
        e2 = Env({kk: vv for kk, vv in env.vars.items() if kk.startswith('self.')}, env.depth)
        dfr = Frame(self.w.mods[q], 'kernel', None)
        for i, nm in enumerate(names):
            if i < len(argvs):
                e2 = e2.set(nm, argvs[i])
            elif defaults[i] is not None:
                e2 = e2.set(nm, self.ev(defaults[i], Env(), dfr))
            else:
                raise Untranslatable(self.w.mods[q].file, fd.lineno, "missing argument %s of %s" % (nm, fd.name))

        def back(e3):
            d = dict(env.vars)
            for kk, vv in e3.vars.items():
                if kk.startswith('self.'):
                    d[kk] = vv
            return Env(d, e3.depth)
        fr2 = Frame(self.w.mods[q], 'tensor', lambda v, e3: k(v, back(e3)))
        fr2.cls, fr2.cur = fr.cls, (q, c)
        fr2.fd = fd
        return self.exec_block(fd.body, e2, fr2, lambda e3: k(V(NONE), back(e3)))

    def bind_all(self, vs, env, k):
        out = []

        def go(i, e):
            if i == len(vs):
                return k(out, e)
            return bind(vs[i], e, lambda r, e2: (out.append(r), go(i + 1, e2))[1])
        return go(0, env)

    def method_args(self, fd, node, env, fr):
        """argument values of a self-method call, in the callee's parameter order (without self)"""
        class _Fake:       # bind_args works on a FunctionDef: drop `self`
            pass
        sg = World.signature(fd)
        if sg is None or sg[2] or sg[3]:
            self.U(fr, node, "signature of method %s" % fd.name)
        import copy
        fd2 = copy.copy(fd)
        fd2.args = copy.copy(fd.args)
        fd2.args.args = fd.args.args[1:]
        return self.bind_args(fd2, fr.mod, node, env, fr)

    def effect_call(self, node, env, fr, k):
        """a call F.<wrapper>(...) of a wrapper that rebinds the data of some of its tensor arguments (batch_norm's running
        statistics): the attributes of self those arguments were read from change"""
        f = node.func
        if not (isinstance(f, ast.Attribute) and isinstance(f.value, ast.Name) and not env.has(f.value.id)):
            return None
        al = fr.mod.alias.get(f.value.id)
        if not (al and al[0] == 'mod' and al[1] in ('functional', 'nn.functional')):
            return None
        modq = al[1]
        if f.attr not in self.w.mods[modq].funcs:
            return None
        cn, meta = self.w.func('wrapper', modq, f.attr)
        if not meta.get('rebind_params'):
            return None
        fd = self.w.mods[modq].funcs[f.attr]
        args = self.bind_args(fd, self.w.mods[modq], node, env, fr)
        app = V(('App', cn, [a.e for a in args] + [ERR]), 'A')

        def after(r, e2):
            def go(j, e3):
                if j == len(meta['rebind_params']):
                    return k(V(('Proj', 0, r.e), 'T'), e3)
                pi, pos = meta['rebind_params'][j]
                a = args[pi]
                if a.alias is None:
                    if a.e == NONE:
                        return go(j + 1, e3)
                    self.U(fr, node, "wrapper %s rebinds the data of argument %d, which is not an attribute of self" % (f.attr, pi))
                old = e3.get(a.alias)
                new = V(('If', ('IsNone', a.e), old.e, ('Proj', pos, r.e)), old.tag)
                return bind(new, e3, lambda r2, e4: go(j + 1, e4.set(a.alias, V(r2.e, old.tag))))
            return go(0, e2)
        return bind(app, env, after)

    def inline_call(self, node, env, fr, k):
        """calls of the object's own methods (self.forward(..), super().__call__(..)) are executed inline"""
        if fr.cls is None or not isinstance(node, ast.Call):
            return None
        eff = self.effect_call(node, env, fr, k)
        if eff is not None:
            return eff
        u = ast.unparse(node.func)
        q0, c0 = fr.cls
        target = None
        if u == 'super().__call__':
            r = self.find_method(fr.cur[0], fr.cur[1], '__call__', skip_self=True)
            if r is None:
                self.U(fr, node, "super().__call__ without a parent __call__")
            target = r
        elif u.startswith('self.') and u.count('.') == 1 and not env.has(u):
            r = self.find_method(q0, c0, u[5:])
            if r is None:
                return None
            target = r
        else:
            return None
        q, c, fd = target
        if c.name == 'Module' and fd.name == '__call__':
            if ast.unparse(fd.body[-1]) != 'return self.forward(*inputs, **kwargs)' or len([s for s in fd.body if not isinstance(s, ast.Expr)]) != 1:
                self.U(fr, fd, "Module.__call__ is no longer `return self.forward(*inputs, **kwargs)`")
            r = self.find_method(q0, c0, 'forward')
            q, c, fd = r
        vs = self.method_args(fd, node, env, fr)
        return self.bind_all(vs, env, lambda rs, e2: self.call_method(q, c, fd, rs, e2, fr, k))

    def super_init(self, node, env, fr, cont):
        if fr.cls is None:
            self.U(fr, node, "super().__init__ outside a class")
        q, c = self.parent(fr.cur[0], fr.cur[1])
        r = self.find_method(q, c, '__init__')
        if r is None or (r[1].name == 'Module' and r[0] == 'nn.modules'):
            return cont(env)
        vs = self.method_args(r[2], node, env, fr)
        return self.bind_all(vs, env, lambda rs, e2: self.call_method(r[0], r[1], r[2], rs, e2, fr, lambda v, e3: cont(e3)))

    def run_layer(self, modq, clsname, static=None):
        """dexpr of layer(*inputs) over [forward inputs..., training flag, constructor parameters...]
        static: {ctor param: python string} (Loss reduction)"""
        static = static or {}
        mod = self.w.mods[modq]
        cd = mod.classes[clsname]
        ini = self.find_method(modq, cd, '__init__')
        call = self.find_method(modq, cd, '__call__')
        entry = call if (call is not None and call[1].name != 'Module') else self.find_method(modq, cd, 'forward')
        if entry is None or (entry[1].name == 'Module'):
            raise Untranslatable(mod.file, cd.lineno, "class %s has no forward" % clsname)
        fparams = World.params_of(entry[2])[1:]
        cparams = World.params_of(ini[2])[1:] if (ini is not None and ini[1].name != 'Module') else []
        names = list(fparams) + ['training'] + ['ctor:' + c for c in cparams]
        fr = Frame(mod, 'tensor', None)
        fr.cls = (modq, cd)
        vars_ = {'self.training': V(P(len(fparams)), 'A')}
        ienv = Env(dict(vars_), len(names))
        argvs = []
        for j, c in enumerate(cparams):
            st = ('str', static[c]) if c in static else None
            argvs.append(V(P(len(fparams) + 1 + j) if st is None else OPAQUE, 'A', st))
        fann = {a.arg: (ast.unparse(a.annotation) if a.annotation is not None else '') for a in entry[2].args.args}
        fargs = [V(P(i), 'T' if 'Tensor' in fann.get(nm, '') else 'U') for i, nm in enumerate(fparams)]

        def after_init(v, e):
            return self.call_method(entry[0], entry[1], entry[2], fargs, e, fr, lambda v2, e2: v2.e)
        if cparams or (ini is not None and ini[1].name != 'Module'):
            fr.cur = (ini[0], ini[1])
            e = self.call_method(ini[0], ini[1], ini[2], argvs, ienv, fr, after_init)
        else:
            fr.cur = (modq, cd)
            e = after_init(None, ienv)
        return e, {'params': names, 'fparams': fparams, 'cparams': cparams, 'lines': (cd.lineno, cd.end_lineno)}

    def run_layer_stateful(self, modq, clsname):
        """a layer as a state machine: (init, step, attrs) with
             init : dexpr over the constructor parameters            -> TupV of the attributes self.<a> (sorted names)
             step : dexpr over [forward inputs..., training, attrs...] -> TupV (output :: attributes afterwards)"""
        mod = self.w.mods[modq]
        cd = mod.classes[clsname]
        ini = self.find_method(modq, cd, '__init__')
        call = self.find_method(modq, cd, '__call__')
        entry = call if (call is not None and call[1].name != 'Module') else self.find_method(modq, cd, 'forward')
        if entry is None or entry[1].name == 'Module' or ini is None or ini[1].name == 'Module':
            return None
        fparams = World.params_of(entry[2])[1:]
        cparams = World.params_of(ini[2])[1:]
        fr = Frame(mod, 'tensor', None)
        fr.cls = (modq, cd)
        fr.cur = (ini[0], ini[1])
        attrs_box = []

        def end_init(v, e):
            names = sorted(k[5:] for k in e.vars if k.startswith('self.') and k != 'self.training')
            if attrs_box and attrs_box[0] != names:
                raise Untranslatable(mod.file, cd.lineno, "%s.__init__ defines different attributes on different paths" % clsname)
            attrs_box.append(names)
            return ('Tuple', [e.get('self.' + a).e for a in names])
        ienv = Env({'self.training': V(TRUE, 'A')}, len(cparams))
        init_e = self.call_method(ini[0], ini[1], ini[2], [V(P(j), 'A') for j in range(len(cparams))], ienv, fr, end_init)
        if not attrs_box:
            return None
        attrs = attrs_box[0]
        nf = len(fparams)
        fann = {a.arg: (ast.unparse(a.annotation) if a.annotation is not None else '') for a in entry[2].args.args}
        fargs = [V(P(i), 'T' if 'Tensor' in fann.get(nm, '') else 'U') for i, nm in enumerate(fparams)]
        vars_ = {'self.training': V(P(nf), 'A')}
        for j, a in enumerate(attrs):
            vars_['self.' + a] = V(P(nf + 1 + j), 'A')
        fr2 = Frame(mod, 'tensor', None)
        fr2.cls = (modq, cd)
        fr2.cur = (entry[0], entry[1])

        def end_step(v, e):
            return ('Tuple', [v.e] + [e.get('self.' + a).e for a in attrs])
        step_e = self.call_method(entry[0], entry[1], entry[2], fargs, Env(vars_, nf + 1 + len(attrs)), fr2, end_step)
        # does any path of forward change an attribute?
        changes = False
        for x in subexprs(step_e):
            if x[0] == 'Tuple' and len(x[1]) == 1 + len(attrs):
                for j in range(len(attrs)):
                    if x[1][1 + j] != P(nf + 1 + j):
                        changes = True
        return {'init': init_e, 'step': step_e, 'attrs': attrs, 'fparams': fparams, 'cparams': cparams, 'changes': changes,
                'lines': (cd.lineno, cd.end_lineno), 'init_fd': ini, 'entry': entry}
