"""Assembly of a property check from parts written by different work packages.

A part is (module name, function name, kwargs).  A missing module is recorded as a note (the property is then claimed on
the remaining parts only); any other exception propagates (CHECK-ERROR)."""
import importlib


def run_parts(ctx, parts):
    ran = []
    for modname, fname, kw in parts:
        try:
            mod = importlib.import_module(modname)
        except ModuleNotFoundError as ex:
            if ex.name != modname:
                raise
            ctx.notes.append("part %s not available: %s" % (modname, ex))
            continue
        getattr(mod, fname)(ctx, **kw)
        ran.append(modname)
    ctx.extra["parts_run"] = ran
    return ran


def replay_parts(ctx, data, parts, names=("replay", "replay_part", "replay_witness")):
    """Try each part's replay function; the first one that recognises the witness decides."""
    last = 1
    for modname, _f, _kw in parts:
        try:
            mod = importlib.import_module(modname)
        except ModuleNotFoundError:
            continue
        for n in names:
            fn = getattr(mod, n, None)
            if fn is None:
                continue
            try:
                rc = fn(ctx, data)
            except (KeyError, TypeError, ValueError, AttributeError):
                continue
            if rc is not None:
                return rc
    return last
