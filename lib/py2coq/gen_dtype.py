"""py2coq: dtype-transfer expressions (C10).  cpu_ops.py, conv_tools.py, functional.py, nn/functional.py, tensor.py,
nn/layers.py, nn/activations.py, nn/losses.py, nn/modules.py -> coq/Gen/GenDtype.v (+ work/dtype.json)

For every kernel reachable from the public op wrappers, every wrapper (forward result and each accumulated gradient),
every Tensor operator overload / method and every layer / loss class, the abstract interpreter lib/c10_absint.py
produces a `dexpr` (coq/IR/Dtype.v) by symbolic execution of the Python AST.  Flags describing Tensor.__init__,
zero_(), the grad setter, the seeding of the root in backward(), Sequential.forward and the initialisers are
extracted by strict pattern matching.  Anything not understood raises Untranslatable (fail closed).
"""
import ast, itertools, json, os
from lib import common
from lib.py2coq.main import register
from lib.py2coq import gen_wrappers
from lib import c10_absint as A
from lib.c10_absint import Untranslatable

TENSOR_METHODS = ['__add__', '__mul__', '__matmul__', '__rmatmul__', '__pow__', '__rpow__', '__neg__', '__radd__', '__sub__',
                  '__rsub__', '__rmul__', '__truediv__', '__rtruediv__', '__getitem__', 'exp', 'log', 'sqrt', 'sum', 'mean',
                  'max', 'min', 'squeeze', 'unsqueeze', 'reshape', 'movedim', 'moveaxis', 'transpose', 'flatten', 'unfold',
                  'clone', 'detach']
# methods of class Tensor that are not operations on data (properties, engine, printing, device handling)
TENSOR_NON_OPS = {'__init__', 'name', 'shape', 'dtype', 'size', 'ndim', 'is_leaf', 'is_floating_point', 'is_initialized',
                  'requires_grad', 'grad', 'grad_fn', 'numel', 'has_grad', 'retain_grad', 'matches_shape', 'numpy', 'item',
                  'copy_from', 'backward', 'zero_', '_Tensor__move_data', '__move_data', 'to', 'cpu', 'gpu', '__iter__', '__len__',
                  'draw_graph', '__str__', '__repr__'}
SKIP_CLASSES = {'nn.losses': {'Loss'}, 'nn.layers': set(), 'nn.activations': set()}
REDUCTIONS = ('mean', 'sum', 'none')


def U(n):
    return ast.unparse(n)


# ------------------------------------------------------------------------------------------------ tensor.py flags
def tensor_flags(world):
    mod = world.mods['tensor']
    T = mod.classes.get('Tensor')
    if T is None:
        raise Untranslatable(mod.file, 0, "class Tensor not found")
    meth = {s.name: s for s in T.body if isinstance(s, ast.FunctionDef)}
    props = {}
    for s in T.body:
        if isinstance(s, ast.FunctionDef):
            for d in s.decorator_list:
                if U(d) == 'grad.setter':
                    props['grad.setter'] = s
    flags = {}
    # default dtype
    c = mod.consts.get('default_type__')
    if not (isinstance(c, ast.Attribute) and U(c.value) == 'np' and c.attr in A.DTYPE_CONST):
        raise Untranslatable(mod.file, getattr(c, 'lineno', 0), "default_type__ is not a NumPy dtype constant")
    flags['default_dtype'] = A.DTYPE_CONST[c.attr]
    # ---- Tensor.__init__: what happens to `data` before `self.data = data`
    init = meth['__init__']
    body = [s for s in init.body if not (isinstance(s, ast.Expr) and isinstance(s.value, ast.Constant))]
    seen_assign = False
    keeps_generic = False
    converts_other = False
    casts_dtype_kw = False
    for s in body:
        t = U(s)
        if t == 'self.data = data':
            seen_assign = True
            break
        if t.startswith('if F is None'):
            continue
        if t.startswith('if isinstance(data, Tensor):'):
            if [U(x) for x in s.body] != ['self.copy_from(data)', 'return'] or s.orelse:
                raise Untranslatable(mod.file, s.lineno, "Tensor.__init__: Tensor-data branch")
            continue
        if t.startswith('if isinstance(data, np.generic):'):
            if [U(x) for x in s.body] != ['data = np.asarray(data)'] or s.orelse or converts_other:
                raise Untranslatable(mod.file, s.lineno, "Tensor.__init__: np.generic branch")
            keeps_generic = True
            continue
        if t.startswith('if not isinstance(data, np.ndarray):'):
            ok = len(s.body) == 1 and isinstance(s.body[0], ast.Try) and [U(x) for x in s.body[0].body] == ['data = np.array(data, dtype=default_type__)'] and not s.orelse
            if not ok:
                raise Untranslatable(mod.file, s.lineno, "Tensor.__init__: conversion of non-array data")
            converts_other = True
            continue
        if t.startswith('if dtype is not None and data.dtype != dtype:'):
            if [U(x) for x in s.body] != ['data = data.astype(dtype)'] or s.orelse:
                raise Untranslatable(mod.file, s.lineno, "Tensor.__init__: dtype= branch")
            casts_dtype_kw = True
            continue
        if isinstance(s, ast.Assert):
            continue
        if 'data' in [n.id for n in ast.walk(s) if isinstance(n, ast.Name)]:
            raise Untranslatable(mod.file, s.lineno, "Tensor.__init__: unexpected statement on data: %s" % t[:60])
    if not (seen_assign and converts_other and casts_dtype_kw):
        raise Untranslatable(mod.file, init.lineno, "Tensor.__init__: skeleton (convert non-arrays, dtype= cast, self.data = data) not found")
    flags['ctor_keeps_generic'] = keeps_generic
    # dtype property must be the data's
    if [U(x) for x in meth['dtype'].body] != ['return self.data.dtype'] or [U(x) for x in meth['shape'].body] != ['return self.data.shape']:
        raise Untranslatable(mod.file, meth['dtype'].lineno, "Tensor.dtype / Tensor.shape are not the data's")
    # ---- zero_ and the grad setter
    z = [U(x) for x in meth['zero_'].body]
    flags['zero_is_zeros_like_data'] = z == ['self.grad = Tensor(np.zeros_like(self.data), device=self.device)']
    if not flags['zero_is_zeros_like_data']:
        raise Untranslatable(mod.file, meth['zero_'].lineno, "Tensor.zero_ is not `self.grad = Tensor(np.zeros_like(self.data), ...)`: %s" % z)
    gs = props.get('grad.setter')
    if gs is None:
        raise Untranslatable(mod.file, 0, "grad setter not found")
    g = [U(x) for x in gs.body]
    ok = len(g) == 2 and g[0].startswith('if not self.matches_shape(grad):\n    raise') and g[1] == 'self._grad = grad.data'
    if not ok:
        raise Untranslatable(mod.file, gs.lineno, "grad setter is not (shape check; self._grad = grad.data)")
    flags['grad_setter_checks_shape_then_binds_data'] = True
    # ---- backward: children buffers and the seeding of the root
    bw = meth['backward']
    txt = [U(x) for x in ast.walk(bw) if isinstance(x, ast.stmt)]
    child_zero = any(t.startswith('if child.requires_grad and (child._grad is None or not child.is_leaf):\n    child.zero_()') for t in txt)
    flags['children_zeroed_before_use'] = child_zero
    if not child_zero:
        raise Untranslatable(mod.file, bw.lineno, "backward: children gradient buffers are not created by child.zero_()")
    top = [U(x) for x in bw.body]
    seeds = [t for t in top if t.startswith('self._grad') or t.startswith('self.grad')]
    guard = 'if self._grad is None or not self.is_leaf:\n    self.zero_()'
    if seeds == ['self._grad += grad.data'] and guard in top and top.index(guard) < top.index('self._grad += grad.data'):
        flags['seed_added_in_place'] = True
    elif seeds == ['self.grad = grad']:
        flags['seed_added_in_place'] = False
    else:
        raise Untranslatable(mod.file, bw.lineno, "backward: root seeding not recognised: %s" % seeds)
    # shape check of the upstream gradient (either explicit or through the setter)
    flags['seed_shape_checked'] = any(t.startswith('if not self.matches_shape(grad):') for t in top) or not flags['seed_added_in_place']
    # default upstream gradient
    dflt = [t for t in txt if t.startswith('grad = ') and 'ones_like' in t]
    if dflt != ['grad = ones_like(self.data, device=self.device)']:
        raise Untranslatable(mod.file, bw.lineno, "backward: default gradient is not ones_like(self.data)")
    return flags


def misc_flags(world):
    flags = {}
    # Sequential.forward = composition
    mod = world.mods['nn.modules']
    seq = mod.classes.get('Sequential')
    fwd = [s for s in seq.body if isinstance(s, ast.FunctionDef) and s.name == 'forward']
    want = ['inp = x', 'for module in self.submodules():\n    out = module(inp)\n    inp = out', 'return out']
    if not fwd or [U(x) for x in fwd[0].body] != want:
        raise Untranslatable(mod.file, seq.lineno, "Sequential.forward is not the composition of its submodules")
    sub = [s for s in mod.classes['Module'].body if isinstance(s, ast.FunctionDef) and s.name == 'submodules']
    if [U(x) for x in sub[0].body] != ['return [m for m in self._submodules.values()]']:
        raise Untranslatable(mod.file, sub[0].lineno, "Module.submodules")
    flags['sequential_is_composition'] = True
    # initialisers keep the parameter's dtype
    im = world.mods['nn.init']
    for fn in ('uniform_', 'ones_', 'zeros_'):
        fd = im.funcs.get(fn)
        if fd is None:
            raise Untranslatable(im.file, 0, "initialiser %s not found" % fn)
        asg = [s for s in ast.walk(fd) if isinstance(s, ast.Assign) and U(s.targets[0]) == 'tensor.data']
        if len(asg) != 1 or not U(asg[0].value).endswith('.astype(tensor.dtype)'):
            raise Untranslatable(im.file, fd.lineno, "%s does not assign tensor.data = <...>.astype(tensor.dtype)" % fn)
    flags['init_keeps_dtype'] = True
    return flags


# ------------------------------------------------------------------------------------------------ argument kinds
PYB_T, PYB_F = ('PyBool', True), ('PyBool', False)


def config_kinds(fdname, pname, ann, default, file, line):
    """abstract values a configuration parameter may take, from its annotation / default"""
    kinds = []
    a = (ann or '').replace("'", '').replace('"', '').replace(' ', '')
    table = {'int': ['PyInt'], 'float': ['PyFloat'], 'int|float': ['PyInt', 'PyFloat'], 'bool': [PYB_F, PYB_T],
             'tuple': ['ShapeV'], 'int|tuple': ['PyInt', 'ShapeV'], 'int|tuple[int]': ['PyInt', 'ShapeV'], 'slice': ['OpaqueV'],
             'None|int|tuple': ['PyInt', 'ShapeV']}
    dnone = isinstance(default, ast.Constant) and default.value is None
    if pname == 'dtype' and a == '':
        return ['NoneV', 'ATensor2']       # dtype=None or a floating dtype (instantiated like a further operand's dtype)
    if a in table:
        kinds = list(table[a])
    elif a == '':
        if default is None or dnone:
            kinds = ['PyInt', 'ShapeV']
        elif isinstance(default, ast.Constant) and isinstance(default.value, bool):
            kinds = [PYB_F, PYB_T]
        elif isinstance(default, ast.Constant) and isinstance(default.value, int):
            kinds = ['PyInt', 'ShapeV']
        elif isinstance(default, ast.Constant) and isinstance(default.value, float):
            kinds = ['PyFloat']
        elif isinstance(default, ast.UnaryOp) and isinstance(default.operand, ast.Constant) and isinstance(default.operand.value, int):
            kinds = ['PyInt']
        else:
            raise Untranslatable(file, line, "%s: cannot type parameter %s (default %s)" % (fdname, pname, U(default)))
    else:
        raise Untranslatable(file, line, "%s: unknown annotation %r of parameter %s" % (fdname, ann, pname))
    if dnone:
        kinds = ['NoneV'] + kinds
    return kinds


def noneable_ctor_params(it, modq, cd):
    """constructor parameters p stored as `self.p = p` and tested with `self.p is None` by some method of the class chain"""
    stored, tested = set(), set()
    q, c_ = modq, cd
    while True:
        for sub in ast.walk(c_):
            if isinstance(sub, ast.Assign) and len(sub.targets) == 1 and isinstance(sub.targets[0], ast.Attribute) and U(sub.targets[0].value) == 'self' \
                    and isinstance(sub.value, ast.Name) and sub.value.id == sub.targets[0].attr:
                stored.add(sub.value.id)
            if isinstance(sub, ast.Compare) and len(sub.ops) == 1 and isinstance(sub.ops[0], (ast.Is, ast.IsNot)) and isinstance(sub.left, ast.Attribute) \
                    and U(sub.left.value) == 'self' and isinstance(sub.comparators[0], ast.Constant) and sub.comparators[0].value is None:
                tested.add(sub.left.attr)
        if c_.name == 'Module':
            break
        q, c_ = it.parent(q, c_)
    return stored & tested


def ctor_choices(it, world, modq, cd, cname, cparams, ini, static=None):
    choices = []
    ifd = ini[2]
    ann = {a.arg: (U(a.annotation) if a.annotation is not None else None) for a in ifd.args.args}
    sig = A.World.signature(ifd)
    defaults = dict(zip(sig[0], sig[1]))
    noneable = noneable_ctor_params(it, modq, cd)
    for p in cparams:
        if static is not None and p in static:
            choices.append(['OpaqueV'])
        elif isinstance(defaults.get(p), ast.Constant) and isinstance(defaults[p].value, str):
            choices.append(['OpaqueV'])
        else:
            ks = config_kinds(cname, p, ann.get(p), defaults.get(p), world.mods[ini[0]].file, ifd.lineno)
            # an unannotated constructor parameter is "int or tuple" only if the constructor broadcasts it
            bc = any(isinstance(x, ast.Call) and U(x.func) == 'np.broadcast_to' and x.args and U(x.args[0]) == p for x in ast.walk(ifd))
            if ann.get(p) is None and not bc and 'ShapeV' in ks:
                ks = [k for k in ks if k != 'ShapeV']
            if p in noneable and 'NoneV' not in ks:
                ks = ks + ['NoneV']          # e.g. BatchNorm(momentum=None): `if self.momentum is None`
            choices.append(ks)
    return choices


def argspec_coq(a):
    if a in ('ATensor', 'ATensor2', 'ALabel', 'AList'):
        return a
    return "(AFix %s)" % A.coq_absval(a)


def index_params(world):
    """kernel parameters used as (part of) an index: they hold integer labels / positions, not floating data"""
    res = {}
    changed = True
    funcs = {}
    for q in ('cpu_ops', 'conv_tools'):
        for n, fd in world.mods[q].funcs.items():
            funcs[(q, n)] = fd
            res[(q, n)] = set()
    while changed:
        changed = False
        for (q, n), fd in funcs.items():
            params = [a.arg for a in fd.args.args]
            for sub in ast.walk(fd):
                if isinstance(sub, ast.Subscript):
                    direct = sub.slice.elts if isinstance(sub.slice, ast.Tuple) else [sub.slice]
                    for x in direct:
                        if isinstance(x, ast.Name) and x.id in params and x.id not in res[(q, n)]:
                            res[(q, n)].add(x.id); changed = True
                if isinstance(sub, ast.Call) and isinstance(sub.func, ast.Name) and (q, sub.func.id) in funcs:
                    cal = funcs[(q, sub.func.id)]
                    cparams = [a.arg for a in cal.args.args]
                    for i, a in enumerate(sub.args):
                        if isinstance(a, ast.Name) and a.id in params and i < len(cparams) and cparams[i] in res[(q, sub.func.id)] and a.id not in res[(q, n)]:
                            res[(q, n)].add(a.id); changed = True
    return res


# ------------------------------------------------------------------------------------------------ the generator
def extract():
    world = A.World(common.REPO)
    flags = tensor_flags(world)
    flags.update(misc_flags(world))
    summaries = gen_wrappers.extract_all()
    by = {(s['module'], s['name']): s for s in summaries}
    idxp = index_params(world)
    rows = []            # op rows (wrappers + Tensor methods)
    lrows = []           # layer / loss rows
    wmeta = []
    # ---- wrappers ------------------------------------------------------------------------------------
    for modq in ('functional', 'nn.functional'):
        mod = world.mods[modq]
        for st in mod.tree.body:
            if isinstance(st, ast.ClassDef):
                if st.name != 'BackwardFunction':
                    raise Untranslatable(mod.file, st.lineno, "unexpected class %s" % st.name)
                continue
            if not isinstance(st, ast.FunctionDef):
                continue
            name = st.name
            cn, meta = world.func('wrapper', modq, name)
            s = by.get((modq, name))
            if s is None:
                raise Untranslatable(mod.file, st.lineno, "wrapper %s has no summary" % name)
            if meta['ctor_dtype_kw'] is not False:
                raise Untranslatable(mod.file, st.lineno, "wrapper %s: result is not Tensor(out_data, ...) without dtype=" % name)
            params = meta['params']
            tensors_req, tensors_opt, tensors_list = s['required'], s['optional'], s['list']
            # label operands: passed as `<p>.data` to an index parameter of the forward kernel
            labels = set()
            for kname, kargs in s['fwd_kernels']:
                kq, kn = kname.split('.')
                kfd = world.mods[kq].funcs.get(kn)
                if kfd is None:
                    continue
                kparams = [a.arg for a in kfd.args.args]
                for i, atxt in enumerate(kargs):
                    if i < len(kparams) and kparams[i] in idxp[(kq, kn)] and atxt.endswith('.data') and atxt[:-5] in tensors_req:
                        labels.add(atxt[:-5])
            # accumulations: operand index and in-place flag
            accs = []
            for am in meta['accs']:
                tgt = am['target']
                if tgt in params:
                    idx = params.index(tgt)
                elif tensors_list and len(tensors_list) == 1:
                    idx = params.index(tensors_list[0])
                else:
                    raise Untranslatable(mod.file, am['line'], "wrapper %s: accumulation target %s is not an operand" % (name, tgt))
                accs.append((idx, am['in_place'], tgt, am['op']))
            # every summary accumulation must have been seen by the interpreter and vice versa
            if len(accs) != len(s['accs']):
                raise Untranslatable(mod.file, st.lineno, "wrapper %s: %d accumulations interpreted, %d in the summary" % (name, len(accs), len(s['accs'])))
            ann = {a.arg: (U(a.annotation) if a.annotation is not None else None) for a in st.args.args}
            sig = A.World.signature(st)
            defaults = dict(zip(sig[0], sig[1]))
            choices = []
            first_tensor = True
            for p in params:
                if p in tensors_list:
                    choices.append(['AList'])
                elif p in tensors_req:
                    if p in labels:
                        choices.append(['ALabel'])
                    else:
                        choices.append(['ATensor' if first_tensor else 'ATensor2'])
                        first_tensor = False
                elif p in tensors_opt:
                    choices.append(['NoneV', 'ATensor2'])
                else:
                    choices.append(config_kinds(name, p, ann.get(p), defaults.get(p), mod.file, st.lineno))
            nrow = 0
            for combo in itertools.product(*choices):
                rows.append({'name': "%s.%s#%d" % (modq, name, nrow), 'fn': modq + '.' + name, 'args': list(combo),
                             'expr': "(DApp %s [%s])" % (cn, "; ".join("(DParam %d)" % i for i in range(len(params) + 1))),
                             'accs': [(i, ip) for (i, ip, _, _) in accs], 'kind': 'wrapper'})
                nrow += 1
            wmeta.append({'coq': cn, 'fn': modq + '.' + name, 'params': params, 'accs': [{'operand': i, 'in_place': ip, 'target': t, 'op': op} for (i, ip, t, op) in accs],
                          'labels': sorted(labels), 'multi': meta['multi'], 'rebinds': meta['rebinds'], 'rows': nrow,
                          'fwd_kernels': s['fwd_kernels'], 'bwd_kernels': s['bwd_kernels'], 'out_kernel': meta['out_kernel']})
    # ---- Tensor operator overloads and methods ---------------------------------------------------------------
    tmod = world.mods['tensor']
    T = tmod.classes['Tensor']
    mmeta = []
    helpers = []
    for st in T.body:
        if not isinstance(st, ast.FunctionDef):
            continue
        if st.name in TENSOR_NON_OPS or any(U(d).endswith('.setter') or U(d) == 'property' for d in st.decorator_list):
            continue
        if st.name.startswith('_') and not st.name.startswith('__'):
            # a private helper is not a public operation: it is translated (from its AST) where an operation calls it
            helpers.append(st.name)
            continue
        if st.name not in TENSOR_METHODS:
            raise Untranslatable(tmod.file, st.lineno, "Tensor method %s is neither a known operation nor a known non-operation" % st.name)
        cn, meta = world.func('method', 'tensor', st.name, 'Tensor')
        params = meta['params']
        ann = {a.arg: (U(a.annotation) if a.annotation is not None else None) for a in st.args.args}
        sig = A.World.signature(st)
        defaults = dict(zip(sig[0], sig[1]))
        choices = []
        for p in params:
            a = (ann.get(p) or '').replace("'", '').replace('"', '')
            if p == 'self':
                choices.append(['ATensor'])
            elif 'Tensor' in a or (a == '' and defaults.get(p) is None and st.name.startswith('__') and st.name != '__getitem__'):
                choices.append(['ATensor2', 'PyFloat', 'PyInt', ('PyBool', None)])     # operand of an operator: tensor or Python scalar
            elif st.name == '__getitem__' or (st.name in ('unsqueeze',) and a == ''):
                choices.append(['OpaqueV'] if st.name == '__getitem__' else ['PyInt', 'ShapeV'])
            elif st.name == 'moveaxis' or st.name == 'movedim':
                choices.append(['PyInt'])
            else:
                choices.append(config_kinds('Tensor.' + st.name, p, ann.get(p), defaults.get(p), tmod.file, st.lineno))
        nrow = 0
        for combo in itertools.product(*choices):
            rows.append({'name': "Tensor.%s#%d" % (st.name, nrow), 'fn': 'Tensor.' + st.name, 'args': list(combo),
                         'expr': "(DTuple [DApp %s [%s]])" % (cn, "; ".join("(DParam %d)" % i for i in range(len(params)))),
                         'accs': [], 'kind': 'method',
                         'scalar_operand': any(a in ('PyFloat', 'PyInt', ('PyBool', None)) for a in combo) and st.name.startswith('__')})
            nrow += 1
        mmeta.append({'coq': cn, 'fn': 'Tensor.' + st.name, 'params': params, 'rows': nrow})
    # how a non-Tensor operand of `+` is turned into a tensor: the else-branch of
    #   summand = summand if isinstance(summand, Tensor) else <E>      in Tensor.__add__, over (self, operand)
    it = A.Interp(world)
    addfd = [st for st in T.body if isinstance(st, ast.FunctionDef) and st.name == '__add__'][0]
    wrap = None
    for sub in ast.walk(addfd):
        if isinstance(sub, ast.IfExp) and U(sub.test).startswith('isinstance(') and U(sub.test).endswith(', Tensor)'):
            other = [a.arg for a in addfd.args.args][1]
            wfr = A.Frame(tmod, 'tensor', None)
            wrap = it.ev(sub.orelse, A.Env({'self': A.V(A.P(0), 'T'), other: A.V(A.P(1), 'A')}, 2), wfr).e
    if wrap is None:
        raise Untranslatable(tmod.file, addfd.lineno, "Tensor.__add__: wrapping of a non-Tensor operand not found")
    world.scalar_wrap = wrap
    world.helpers = helpers
    dflt_cn, _ = world.func('tfun', 'tensor', 'ones_like')
    # ---- layers, activations, losses -----------------------------------------------------------------------------
    layer_defs = []
    lmeta = []
    for modq in ('nn.layers', 'nn.activations', 'nn.losses'):
        mod = world.mods[modq]
        for cname, cd in mod.classes.items():
            if cname in SKIP_CLASSES[modq]:
                continue
            statics = [None] if modq != 'nn.losses' else [{'reduction': r} for r in REDUCTIONS]
            for static in statics:
                e, meta = it.run_layer(modq, cname, static)
                cn = 'l_' + cname + ('' if static is None else '_' + static['reduction'])
                layer_defs.append((cn, e, {'kind': 'layer', 'module': modq, 'name': cname, 'lines': meta['lines'], 'params': meta['params'], 'size': A.size(e)}))
                # argument kinds
                ini = it.find_method(modq, cd, '__init__')
                call = it.find_method(modq, cd, '__call__')
                entry = call if (call is not None and call[1].name != 'Module') else it.find_method(modq, cd, 'forward')
                fwd_fd = it.find_method(modq, cd, 'forward')[2]
                # label inputs: the functional wrapper the forward calls
                labels = set()
                for sub in ast.walk(fwd_fd):
                    if isinstance(sub, ast.Call) and isinstance(sub.func, ast.Attribute) and U(sub.func.value) == 'F':
                        wm = [w for w in wmeta if w['fn'] == 'nn.functional.' + sub.func.attr]
                        if wm:
                            for i, a in enumerate(sub.args):
                                if isinstance(a, ast.Name) and i < len(wm[0]['params']) and wm[0]['params'][i] in wm[0]['labels']:
                                    labels.add(a.id)
                choices = []
                first = True
                for p in meta['fparams']:
                    if p in labels:
                        choices.append(['ALabel'])
                    else:
                        choices.append(['ATensor' if first else 'ATensor2'])
                        first = False
                choices.append([PYB_T, PYB_F])      # training
                if meta['cparams']:
                    choices += ctor_choices(it, world, modq, cd, cname, meta['cparams'], ini, static)
                nrow = 0
                for combo in itertools.product(*choices):
                    lrows.append({'name': "%s#%d" % (cn[2:], nrow), 'fn': cn[2:], 'args': list(combo),
                                  'expr': "(DTuple [DApp %s [%s]])" % (cn, "; ".join("(DParam %d)" % i for i in range(len(meta['params'])))),
                                  'accs': [], 'kind': 'layer'})
                    nrow += 1
                # does the constructor (or a parent's) create tensors (parameters / running statistics)?
                creates = False
                q, c_ = modq, cd
                while True:
                    for sub in [x for m_ in c_.body if isinstance(m_, ast.FunctionDef) and m_.name == '__init__' for x in ast.walk(m_)]:
                        if isinstance(sub, ast.Call) and (U(sub.func) in ('nn.Parameter', 'Parameter', 'Tensor') or U(sub.func).startswith('synapgrad.')):
                            creates = True
                    if c_.name == 'Module':
                        break
                    q, c_ = it.parent(q, c_)
                for r_ in lrows[len(lrows) - nrow:]:
                    r_['param_free'] = not creates
                lmeta.append({'coq': cn, 'class': cname, 'module': modq, 'param_free': not creates, 'params': meta['params'], 'fparams': meta['fparams'],
                              'cparams': meta['cparams'], 'static': static, 'labels': sorted(labels), 'rows': nrow})
    # ---- stateful layers: classes whose forward changes attributes of self (BatchNorm: running statistics, counter) -------
    srows, smeta = [], []
    for cname, cd in world.mods['nn.layers'].classes.items():
        r = it.run_layer_stateful('nn.layers', cname)
        if r is None or not r['changes']:
            continue
        ci, cs = 'ls_%s_init' % cname, 'ls_%s_step' % cname
        layer_defs.append((ci, r['init'], {'kind': 'stateful-init', 'module': 'nn.layers', 'name': cname, 'lines': r['lines'], 'params': r['cparams'], 'size': A.size(r['init'])}))
        layer_defs.append((cs, r['step'], {'kind': 'stateful-step', 'module': 'nn.layers', 'name': cname, 'lines': r['lines'],
                                          'params': r['fparams'] + ['training'] + ['self.' + a for a in r['attrs']], 'size': A.size(r['step'])}))
        choices = ctor_choices(it, world, 'nn.layers', cd, cname, r['cparams'], r['init_fd'])
        n = 0
        for combo in itertools.product(*choices):
            srows.append({'name': "%s#%d" % (cname, n), 'ctor': list(combo), 'init': ci, 'step': cs})
            n += 1
        smeta.append({'class': cname, 'init': ci, 'step': cs, 'attrs': r['attrs'], 'cparams': r['cparams'], 'fparams': r['fparams'], 'rows': n})
    world.srows, world.smeta = srows, smeta
    return world, flags, rows, lrows, wmeta, mmeta, lmeta, layer_defs, dflt_cn


def emit(world, flags, rows, lrows, wmeta, mmeta, lmeta, layer_defs, dflt_cn):
    cb = lambda b: "true" if b else "false"
    out = ["(* GENERATED by lib/py2coq/gen_dtype.py from synapgrad/{cpu_ops,conv_tools,functional,tensor}.py and synapgrad/nn/*.py. DO NOT EDIT. *)",
           "From Coq Require Import List String Bool.", "Import ListNotations.", "Open Scope string_scope.",
           "From SG Require Import IR.Dtype.", "",
           "(* Tensor.__init__: np.generic data kept as is? ; tensor.default_type__ *)",
           "Definition gen_cfg : cfg := mkCfg %s %s." % (cb(flags['ctor_keeps_generic']), flags['default_dtype']),
           "(* Tensor.zero_ is `self.grad = Tensor(np.zeros_like(self.data))`, the grad setter checks the shape and binds grad.data *)",
           "Definition zero_is_zeros_like_data : bool := %s." % cb(flags['zero_is_zeros_like_data'] and flags['grad_setter_checks_shape_then_binds_data']),
           "(* backward(): operands' buffers are created by child.zero_() before any closure runs *)",
           "Definition children_zeroed_before_use : bool := %s." % cb(flags['children_zeroed_before_use']),
           "(* backward(): the root is seeded with `self._grad += grad.data` into a zero_() buffer (else: `self.grad = grad`) *)",
           "Definition seed_added_in_place : bool := %s." % cb(flags['seed_added_in_place']),
           "Definition seed_shape_checked : bool := %s." % cb(flags['seed_shape_checked']),
           "Definition sequential_is_composition : bool := %s." % cb(flags['sequential_is_composition']),
           "Definition init_keeps_dtype : bool := %s." % cb(flags['init_keeps_dtype']), ""]
    for cn, e, meta in world.defs + layer_defs:
        out.append("(* %s %s.%s : lines %d-%d ; parameters %s *)" % (meta['kind'], meta['module'], meta['name'], meta['lines'][0], meta['lines'][1], " ".join(meta['params'])))
        out.append("Definition %s : dexpr :=\n  %s." % (cn, A.coq(e)))
        out.append("")
    out.append("(* default upstream gradient of backward(): ones_like(self.data) *)")
    out.append("Definition default_upstream : dexpr := DApp %s [DParam 0; DConst NoneV; DConst (PyBool (Some false)); DConst NoneV; DConst NoneV]." % dflt_cn)
    out.append("")
    kerns = [(cn, m) for cn, e, m in world.defs if m['kind'] == 'kernel']
    out.append("Definition kernel_table : list (string * nat * dexpr) :=\n  [%s]." % ";\n   ".join(
        '("%s.%s", %d, %s)' % (m['module'], m['name'], len(m['params']), cn) for cn, m in kerns))
    out.append("")

    def row(r):
        return 'mkOp "%s" [%s] %s [%s]' % (r['name'], "; ".join(argspec_coq(a) for a in r['args']), r['expr'],
                                            "; ".join("(%d, %s)" % (i, cb(ip)) for i, ip in r['accs']))
    for nm, rs in (('wrapper_rows', [r for r in rows if r['kind'] == 'wrapper']), ('method_rows', [r for r in rows if r['kind'] == 'method']), ('layer_rows', lrows)):
        out.append("Definition %s : list oprow :=\n  [%s]." % (nm, ";\n   ".join(row(r) for r in rs)))
        out.append("")
    out.append("Definition op_rows : list oprow := wrapper_rows ++ method_rows.")
    out.append("")
    out.append("(* Tensor.__add__: what a non-Tensor operand becomes, over [self; operand] *)")
    out.append("Definition scalar_wrap : dexpr :=\n  %s." % A.coq(world.scalar_wrap))
    out.append("")
    sc = [r for r in rows if r['kind'] == 'method' and r.get('scalar_operand')]
    out.append("(* rows of the operator overloads with a Python int / float / bool second operand; a Python scalar is not a valid")
    out.append("   operand of @ (functional.matmul rejects operands with fewer than two dimensions): those rows are listed apart *)")
    out.append("(* layers with state (forward rebinds attributes of self): constructor configurations *)")
    out.append("Definition stateful_rows : list slrow :=\n  [%s]." % ";\n   ".join(
        'mkSL "%s" [%s] %s %s' % (r['name'], "; ".join(argspec_coq(a) for a in r['ctor']), r['init'], r['step']) for r in world.srows))
    out.append("")
    out.append("Definition scalar_operand_rows : list oprow :=\n  [%s]." % ";\n   ".join(row(r) for r in sc if 'matmul' not in r['fn']))
    out.append("Definition matmul_scalar_rows : list oprow :=\n  [%s]." % ";\n   ".join(row(r) for r in sc if 'matmul' in r['fn']))
    out.append("")
    out.append("(* rows of layer / loss classes whose constructors create no tensor (no parameters, no running statistics) *)")
    out.append("Definition param_free_layer_rows : list oprow :=\n  [%s]." % ";\n   ".join(row(r) for r in lrows if r.get('param_free')))
    return "\n".join(out) + "\n"


@register("dtype")
def generate():
    world, flags, rows, lrows, wmeta, mmeta, lmeta, layer_defs, dflt_cn = extract()
    text = emit(world, flags, rows, lrows, wmeta, mmeta, lmeta, layer_defs, dflt_cn)
    common.write_if_changed(os.path.join(common.COQ, "Gen", "GenDtype.v"), text)
    os.makedirs(os.path.join(common.ROOT, "work"), exist_ok=True)
    info = {'flags': flags,
            'kernels': [{'coq': cn, 'module': m['module'], 'name': m['name'], 'params': m['params'], 'lines': m['lines'], 'size': m['size'], 'ret_arity': m.get('ret_arity')}
                        for cn, e, m in world.defs if m['kind'] == 'kernel'],
            'tfuns': [{'coq': cn, 'name': m['name'], 'params': m['params']} for cn, e, m in world.defs if m['kind'] == 'tfun'],
            'wrappers': wmeta, 'methods': mmeta, 'layers': lmeta, 'stateful': world.smeta, 'stateful_rows': world.srows, 'tensor_helpers': getattr(world, 'helpers', []),
            'rows': [{'name': r['name'], 'fn': r['fn'], 'args': r['args']} for r in rows],
            'layer_rows': [{'name': r['name'], 'fn': r['fn'], 'args': r['args']} for r in lrows]}
    json.dump(info, open(os.path.join(common.ROOT, "work", "dtype.json"), "w"), indent=1, default=str)
    return info
