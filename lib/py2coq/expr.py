"""Scalar expression IR shared by the py2coq translators of elementwise code.

   IR (plain tuples, exact literals):
     ('num', Fraction)                 numeric literal (decimal text of the source taken exactly)
     ('var', name)                     parameter or let-bound name
     ('const', name)                   module constant (value in Kernel.consts / the CONSTS passed around)
     ('neg', e)
     ('bin', op, a, b)                 op in '+', '-', '*', '/'
     ('gpow', a, b)                    a ** b, run-time exponent  -> RealOps.gpow
     ('powi', a, k)                    a ** k, literal integer k  -> a ^ k / powerRZ a k
     ('cmp', op, a, b)                 op in gt ge lt le eq ne; value 1 or 0
     ('fn', f, [args])                 f in exp ln sqrt tanh abs max min
     ('where', c, a, b)                c a 0/1 mask (non-zero = true)
     ('let', name, e1, e2)
     ('call', kernel, [args], k)       k-th output of another translated kernel

   Three consumers, kept independent of each other on purpose:
     * coq_shallow : IR -> Gallina term over R (Analysis/RealOps.v vocabulary)
     * coq_deep    : IR -> term of Analysis/Expr.v's [expr] (de Bruijn, calls inlined)
     * evaluate    : IR -> float, with `math` only (the translator self-check compares this with the
                     real NumPy kernel; it does not look at the Coq text)
"""
import math
from fractions import Fraction


class Untranslatable(Exception):
    def __init__(self, file, line, construct):
        super().__init__("%s:%s: cannot translate %s" % (file, line, construct))
        self.file, self.line, self.construct = file, line, construct


class Undefined(Exception):
    """The real-number model gives no meaning here (log of a non-positive number, 0 ** -1, overflow...)."""


BINOPS = {'+': 'Rplus', '-': 'Rminus', '*': 'Rmult', '/': 'Rdiv'}
CMPS = {'gt': 'ind_gt', 'ge': 'ind_ge', 'lt': 'ind_lt', 'le': 'ind_le', 'eq': 'ind_eq', 'ne': 'ind_ne'}
FNS = {'exp': ('exp', 1), 'ln': ('ln', 1), 'sqrt': ('sqrt', 1), 'tanh': ('tanh', 1), 'abs': ('Rabs', 1),
       'max': ('Rmax', 2), 'min': ('Rmin', 2)}
COQ_RESERVED = {'exp', 'ln', 'sqrt', 'tanh', 'Rabs', 'Rmax', 'Rmin', 'where_', 'gpow', 'pow', 'powerRZ', 'epsilon', 'R',
                'fun', 'let', 'in', 'if', 'then', 'else', 'match', 'with', 'end', 'forall', 'exists', 'fix', 'as', 'at',
                'Type', 'Prop', 'Set', 'return', 'using', 'IZR', 'sin', 'cos', 'PI'} | set(CMPS.values())


class Kernel:
    """One translated Python function: `outs` has one IR term per returned value."""

    def __init__(self, name, params, outs, lines, file, dropped=(), note=""):
        self.name, self.params, self.outs, self.lines, self.file = name, list(params), list(outs), lines, file
        self.dropped = list(dropped)      # parameters that only carry shapes/dtypes (elided in the scalar model)
        self.note = note

    def out_names(self):
        return [self.name] if len(self.outs) == 1 else ["%s_%d" % (self.name, i) for i in range(len(self.outs))]


# ------------------------------------------------------------------------------------------------
# shallow printer
def coq_ident(name):
    return name + "_" if name in COQ_RESERVED else name


def coq_num(fr):
    fr = Fraction(fr)
    if fr.denominator == 1:
        n = fr.numerator
        return "(IZR (%d))" % n if n < 0 else str(n)
    n, d = fr.numerator, fr.denominator
    return "(IZR (%d) / %d)" % (n, d) if n < 0 else "(%d / %d)" % (n, d)


def coq_shallow(e, kernels):
    """kernels: dict name -> Kernel (for the output naming of calls)."""
    t = e[0]
    rec = lambda x: coq_shallow(x, kernels)
    if t == 'num':
        return coq_num(e[1])
    if t == 'var':
        return coq_ident(e[1])
    if t == 'const':
        return e[1]
    if t == 'neg':
        return "(- %s)" % rec(e[1])
    if t == 'bin':
        return "(%s %s %s)" % (rec(e[2]), e[1], rec(e[3]))
    if t == 'gpow':
        return "(gpow %s %s)" % (rec(e[1]), rec(e[2]))
    if t == 'powi':
        k = e[2]
        return "(%s ^ %d)" % (rec(e[1]), k) if k >= 0 else "(powerRZ %s (%d))" % (rec(e[1]), k)
    if t == 'cmp':
        return "(%s %s %s)" % (CMPS[e[1]], rec(e[2]), rec(e[3]))
    if t == 'fn':
        name, ar = FNS[e[1]]
        assert len(e[2]) == ar
        return "(%s %s)" % (name, " ".join(rec(a) for a in e[2]))
    if t == 'where':
        return "(where_ %s %s %s)" % (rec(e[1]), rec(e[2]), rec(e[3]))
    if t == 'let':
        return "(let %s := %s in %s)" % (coq_ident(e[1]), rec(e[2]), rec(e[3]))
    if t == 'call':
        k = kernels[e[1]]
        return "(%s %s)" % (k.out_names()[e[3]], " ".join(rec(a) for a in e[2]))
    raise AssertionError(e)


# ------------------------------------------------------------------------------------------------
# deep printer (de Bruijn; calls inlined as lets; module constants inlined as rationals)
_DEEP_BIN = {'+': 'BAdd', '-': 'BSub', '*': 'BMul', '/': 'BDiv'}
_DEEP_FN1 = {'exp': 'FExp', 'ln': 'FLn', 'sqrt': 'FSqrt', 'tanh': 'FTanh', 'abs': 'FAbs'}
_DEEP_FN2 = {'max': 'BMax', 'min': 'BMin'}
_DEEP_CMP = {'gt': 'CGt', 'ge': 'CGe', 'lt': 'CLt', 'le': 'CLe', 'eq': 'CEq', 'ne': 'CNe'}


def _deep_num(fr):
    fr = Fraction(fr)
    if fr.denominator == 1:
        return "(EInt (%d))" % fr.numerator
    return "(ERat (%d) %d)" % (fr.numerator, fr.denominator)


def coq_deep(e, scope, kernels, consts):
    """scope: list of names, innermost first (index = de Bruijn index)."""
    t = e[0]
    rec = lambda x, s=scope: coq_deep(x, s, kernels, consts)
    if t == 'num':
        return _deep_num(e[1])
    if t == 'var':
        return "(EVar %d)" % scope.index(e[1])
    if t == 'const':
        return _deep_num(consts[e[1]])
    if t == 'neg':
        return "(ENeg %s)" % rec(e[1])
    if t == 'bin':
        return "(EBin %s %s %s)" % (_DEEP_BIN[e[1]], rec(e[2]), rec(e[3]))
    if t == 'gpow':
        return "(EBin BPow %s %s)" % (rec(e[1]), rec(e[2]))
    if t == 'powi':
        return "(EPowN %s %d)" % (rec(e[1]), e[2]) if e[2] >= 0 else "(EPowZ %s (%d))" % (rec(e[1]), e[2])
    if t == 'cmp':
        return "(ECmp %s %s %s)" % (_DEEP_CMP[e[1]], rec(e[2]), rec(e[3]))
    if t == 'fn':
        if e[1] in _DEEP_FN1:
            return "(EFn %s %s)" % (_DEEP_FN1[e[1]], rec(e[2][0]))
        return "(EBin %s %s %s)" % (_DEEP_FN2[e[1]], rec(e[2][0]), rec(e[2][1]))
    if t == 'where':
        return "(EWhere %s %s %s)" % (rec(e[1]), rec(e[2]), rec(e[3]))
    if t == 'let':
        return "(ELet %s %s)" % (rec(e[2]), coq_deep(e[3], [e[1]] + scope, kernels, consts))
    if t == 'call':
        # let p1 := a1 in ... let pk := ak in body   (arguments are evaluated in the caller's scope; the
        # binders get names that cannot clash with source names)
        k = kernels[e[1]]
        out = []
        sc = list(scope)
        for p, a in zip(k.params, e[2]):
            out.append(coq_deep(a, sc, kernels, consts))
            sc = ["%s$%s" % (k.name, p)] + sc            # the argument terms never refer to these
        body_scope = ["%s$%s" % (k.name, p) for p in reversed(k.params)]
        # the callee body only sees its own parameters (names prefixed) - rename on the fly
        body = coq_deep(_rename(k.outs[e[3]], {p: "%s$%s" % (k.name, p) for p in k.params}), body_scope + list(scope), kernels, consts)
        for a in reversed(out):
            body = "(ELet %s %s)" % (a, body)
        return body
    raise AssertionError(e)


def _rename(e, m):
    t = e[0]
    if t == 'var':
        return ('var', m.get(e[1], e[1]))
    if t in ('num', 'const'):
        return e
    if t == 'neg':
        return ('neg', _rename(e[1], m))
    if t == 'bin':
        return ('bin', e[1], _rename(e[2], m), _rename(e[3], m))
    if t == 'gpow':
        return ('gpow', _rename(e[1], m), _rename(e[2], m))
    if t == 'powi':
        return ('powi', _rename(e[1], m), e[2])
    if t == 'cmp':
        return ('cmp', e[1], _rename(e[2], m), _rename(e[3], m))
    if t == 'fn':
        return ('fn', e[1], [_rename(a, m) for a in e[2]])
    if t == 'where':
        return ('where', _rename(e[1], m), _rename(e[2], m), _rename(e[3], m))
    if t == 'let':
        m2 = dict(m); m2.pop(e[1], None)
        return ('let', e[1], _rename(e[2], m), _rename(e[3], m2))
    if t == 'call':
        return ('call', e[1], [_rename(a, m) for a in e[2]], e[3])
    raise AssertionError(e)


# ------------------------------------------------------------------------------------------------
# independent evaluator (floats + math); raises Undefined outside the real-number model's domain
def evaluate(e, env, kernels, consts):
    t = e[0]
    rec = lambda x: evaluate(x, env, kernels, consts)
    try:
        if t == 'num':
            return float(e[1])
        if t == 'var':
            return float(env[e[1]])
        if t == 'const':
            return float(consts[e[1]])
        if t == 'neg':
            return -rec(e[1])
        if t == 'bin':
            a, b = rec(e[2]), rec(e[3])
            if e[1] == '+':
                return a + b
            if e[1] == '-':
                return a - b
            if e[1] == '*':
                return a * b
            if b == 0:
                raise Undefined("division by zero")
            return a / b
        if t == 'gpow':
            return _gpow(rec(e[1]), rec(e[2]))
        if t == 'powi':
            return _gpow(rec(e[1]), float(e[2]))
        if t == 'cmp':
            a, b = rec(e[2]), rec(e[3])
            r = {'gt': a > b, 'ge': a >= b, 'lt': a < b, 'le': a <= b, 'eq': a == b, 'ne': a != b}[e[1]]
            return 1.0 if r else 0.0
        if t == 'fn':
            args = [rec(a) for a in e[2]]
            f = e[1]
            if f == 'exp':
                return math.exp(args[0])
            if f == 'ln':
                if args[0] <= 0:
                    raise Undefined("ln of non-positive")
                return math.log(args[0])
            if f == 'sqrt':
                if args[0] < 0:
                    raise Undefined("sqrt of negative")
                return math.sqrt(args[0])
            if f == 'tanh':
                return math.tanh(args[0])
            if f == 'abs':
                return abs(args[0])
            if f == 'max':
                return max(args)
            if f == 'min':
                return min(args)
        if t == 'where':
            c = rec(e[1])
            a, b = rec(e[2]), rec(e[3])      # NumPy evaluates both branches
            return a if c != 0 else b
        if t == 'let':
            v = rec(e[2])
            env2 = dict(env); env2[e[1]] = v
            return evaluate(e[3], env2, kernels, consts)
        if t == 'call':
            k = kernels[e[1]]
            args = [rec(a) for a in e[2]]
            return evaluate(k.outs[e[3]], dict(zip(k.params, args)), kernels, consts)
    except (OverflowError, ZeroDivisionError, ValueError) as ex:
        raise Undefined(repr(ex))
    raise AssertionError(e)


def _gpow(a, n):
    if n == int(n) and abs(n) < 2 ** 53:
        if a == 0 and n < 0:
            raise Undefined("0 ** negative")
        return math.pow(a, n)               # C pow: exact integer-exponent semantics for any sign of a
    if a <= 0:
        raise Undefined("non-integer power of a non-positive base")   # NumPy: nan (a<0); model: Rpower, a>0 only
    return math.pow(a, n)


def free_vars(e, bound=()):
    t = e[0]
    if t == 'var':
        return set() if e[1] in bound else {e[1]}
    if t in ('num', 'const'):
        return set()
    if t == 'let':
        return free_vars(e[2], bound) | free_vars(e[3], tuple(bound) + (e[1],))
    out = set()
    for x in e[1:]:
        if isinstance(x, tuple) and x and isinstance(x[0], str) and x[0] in ('num', 'var', 'const', 'neg', 'bin', 'gpow', 'powi', 'cmp', 'fn', 'where', 'let', 'call'):
            out |= free_vars(x, bound)
        elif isinstance(x, list):
            for y in x:
                out |= free_vars(y, bound)
    return out
