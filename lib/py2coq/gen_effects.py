"""py2coq: effect IR (property C11).  cpu_ops.py, conv_tools.py, functional.py, nn/functional.py, tensor.py,
nn/layers.py (Dropout.forward) -> coq/Gen/GenEffects.v ;  whole package -> the census of in-place writes to tensor data.

For every function the translator emits three-address statements of the IR of coq/IR/Effects.v

    Bind x (Fresh | ViewOf y | Alias y | Join [..] | CallRet f args)      Write x      Return x

Variables stand for the set of array storages a Python value may share memory with.  A Python name N has up to
three IR variables: `N` (the value itself: an array, or a tuple/list of arrays), `N.data` and `N._grad` (the
storages of the tensor(s) N stands for: their data arrays and their gradient buffers).  Control flow is dropped:
the analysis and the semantics of IR/Effects.v are flow-insensitive (every statement may run at any time, any
number of times), so every path of the real function is covered.

FAIL-CLOSED: every expression is classified by the tables below; an unknown NumPy function, method, call or
statement raises Untranslatable.  The classification tables (which NumPy calls allocate, which may return views)
are part of the trusted base and are probed dynamically by checks/c11.py with np.shares_memory.
"""
import ast, json, os
from lib import common
from lib.py2coq.main import register


class Untranslatable(Exception):
    pass


def U(n):
    return ast.unparse(n)


# --------------------------------------------------------------------------------------------------------------
# classification tables (trusted, probed dynamically)
NP_FRESH = {  # allocate a new array / return a non-array: result never shares memory with an argument
    "zeros", "ones", "empty", "full", "zeros_like", "ones_like", "empty_like", "full_like", "eye", "arange", "array",
    "exp", "log", "sqrt", "tanh", "abs", "maximum", "minimum", "where", "sum", "mean", "max", "min", "prod", "var",
    "argmax", "argmin", "unravel_index", "concatenate", "stack", "tensordot", "pad", "repeat", "tile", "cumprod",
    "floor", "broadcast_shapes", "ndindex", "unique", "copy", "matmul", "dot", "isnan", "isinf", "any", "all",
    "issubdtype", "float32", "float64", "int32", "int64", "int16", "array2string", "log1p", "sign", "clip", "power",
    "argsort", "cumsum", "ceil", "round",
}
NP_VIEW = {   # may return a view of (share memory with) an array argument
    "reshape", "transpose", "moveaxis", "swapaxes", "rollaxis", "expand_dims", "squeeze", "broadcast_to", "split",
    "ascontiguousarray", "asarray", "ravel", "atleast_1d", "atleast_2d", "as_strided", "sliding_window_view",
    "asanyarray", "array_split", "diagonal", "flip",
}
NP_WRITE_FIRST = {"add.at", "subtract.at", "put_along_axis", "put", "place", "copyto", "fill_diagonal", "putmask",
                  "random.shuffle"}      # mutate their first argument in place
NP_RANDOM_FRESH = {"rand", "randn", "normal", "uniform", "randint", "random", "permutation", "choice", "seed", "standard_normal"}
M_FRESH = {"copy", "astype", "sum", "max", "min", "mean", "var", "std", "prod", "argmax", "argmin", "item", "tolist",
           "flatten", "dot", "any", "all", "clip", "round", "cumsum", "nonzero", "tobytes", "index", "count", "format",
           "find", "join", "startswith", "endswith", "get", "keys", "values", "items", "name", "numel", "has_grad",
           "matches_shape", "splitlines", "is_integer"}
M_VIEW = {"reshape", "transpose", "swapaxes", "squeeze", "ravel", "view", "numpy"}
M_WRITE = {"fill", "sort", "resize", "itemset", "partition", "setfield", "byteswap"}          # in-place array methods
M_CONTAINER_ADD = {"append", "extend", "insert", "add", "update"}                               # the container now holds the argument
M_CONTAINER_TAKE = {"pop"}                                                                     # returns an element
ATTR_FRESH = {"shape", "ndim", "size", "dtype", "strides", "flags", "itemsize", "nbytes", "requires_grad", "device",
              "is_leaf", "_operation", "grad_fn", "_grad_fn", "_retain_grad", "name", "_name", "is_floating_point",
              "_requires_grad", "training", "p", "args", "kwargs", "operation", "backward", "inf", "newaxis", "CPU",
              "float32", "float64", "int32", "int64", "generic", "ndarray", "pi", "e", "_initialized", "is_initialized"}
ATTR_VIEW = {"T", "real", "imag", "flat", "_children"}
BUILTIN_FRESH = {"len", "int", "float", "bool", "str", "range", "slice", "isinstance", "type", "abs", "round", "any", "all",
                 "print", "hasattr", "getattr", "id", "repr", "min", "max", "sum", "pow", "divmod",
                 "ValueError", "RuntimeError", "TypeError", "IndexError", "NotImplementedError", "Exception", "BackwardFunction"}
BUILTIN_JOIN = {"tuple", "list", "zip", "enumerate", "reversed", "iter", "next", "sorted", "set", "dict", "map", "filter"}
SCALAR_ANN = {"int", "float", "bool", "str"}
FIELDS = ("", ".data", "._grad")


class Val:
    """abstract value of an expression: for each of the three components the IR variables it may share storage with"""
    __slots__ = ("c", "tag")

    def __init__(self, s=(), d=(), g=(), tag="join"):
        self.c = [list(dict.fromkeys(s)), list(dict.fromkeys(d)), list(dict.fromkeys(g))]
        self.tag = tag

    @staticmethod
    def join(vals, tag="join"):
        r = Val(tag=tag)
        for v in vals:
            for i in range(3):
                for x in v.c[i]:
                    if x not in r.c[i]:
                        r.c[i].append(x)
        return r


FRESH = lambda: Val(tag="fresh")


class Fun:
    def __init__(self, qual, params, tensorish, writable_fields=()):
        self.qual = qual
        self.params = params                   # python parameter names in order
        self.tensorish = tensorish             # subset with .data / ._grad IR parameters
        self.vars = {}
        self.body = []                         # ("Bind", x, rhs) | ("Write", x) | ("Return", x)
        for p in params:
            self.var(p)
        for p in params:
            if p in tensorish:
                self.var(p + ".data"); self.var(p + "._grad")
        self.nparams = len(self.vars)
        self.writable = [self.vars[w] for w in writable_fields]
        self.ntmp = 0
        self.line = None

    def var(self, name):
        if name not in self.vars:
            self.vars[name] = len(self.vars)
        return self.vars[name]

    def tmp(self):
        self.ntmp += 1
        return self.var("%%t%d" % self.ntmp)

    def arg_layout(self):
        """IR parameter list as (python name, field)"""
        lay = [(p, "") for p in self.params]
        for p in self.params:
            if p in self.tensorish:
                lay += [(p, ".data"), (p, "._grad")]
        return lay


class Translator:
    """translates the functions of one module"""

    def __init__(self, modkey, tree, resolver, path):
        self.modkey, self.tree, self.resolver, self.path = modkey, tree, resolver, path
        self.used_np = set()
        self.used_methods = set()

    def err(self, node, what):
        raise Untranslatable("%s:%s: %s" % (self.path, getattr(node, "lineno", "?"), what))

    # ------------------------------------------------------------------ helpers
    def bind(self, F, name, val):
        """name := val, component-wise (a component without sources and tagged fresh binds Fresh on the value itself only)"""
        for i, fld in enumerate(FIELDS):
            srcs = val.c[i]
            if i == 0:
                x = F.var(name)
                if not srcs:
                    F.body.append(("Bind", x, ("Fresh",)))
                elif len(srcs) == 1:
                    F.body.append(("Bind", x, ("Alias" if val.tag == "alias" else "ViewOf" if val.tag == "view" else "Join", srcs[0])
                                   if val.tag in ("alias", "view") else ("Join", srcs)))
                else:
                    F.body.append(("Bind", x, ("Join", srcs)))
            elif srcs:
                F.body.append(("Bind", F.var(name + fld), ("Join", srcs)))

    def as_var(self, F, val):
        """a single IR variable holding component 0 of val"""
        if len(val.c[0]) == 1:
            return val.c[0][0]
        t = F.tmp()
        F.body.append(("Bind", t, ("Join", val.c[0]) if val.c[0] else ("Fresh",)))
        return t

    def name_val(self, F, name, node):
        if name in F.vars or name + ".data" in F.vars:
            v = Val([F.var(name)], tag="alias")
            for i, fld in enumerate(FIELDS[1:], 1):
                if name + fld in F.vars:
                    v.c[i] = [F.vars[name + fld]]
            return v
        if name in ("None", "True", "False", "epsilon", "default_type__", "gradient__", "retain_grads__", "np", "math", "Device",
                    "Tensor", "F", "utils", "synapgrad", "nn", "init", "self_placeholder") or name in BUILTIN_FRESH or name in BUILTIN_JOIN:
            return FRESH()
        if name in self.resolver.module_functions(self.modkey):
            return FRESH()
        self.err(node, "unknown name %s" % name)

    # ------------------------------------------------------------------ expressions
    def ev(self, F, e):
        F.line = getattr(e, "lineno", F.line)
        if e is None or isinstance(e, (ast.Constant, ast.JoinedStr)):
            return FRESH()
        if isinstance(e, ast.Name):
            return self.name_val(F, e.id, e)
        if isinstance(e, (ast.Tuple, ast.List, ast.Set)):
            return Val.join([self.ev(F, x) for x in e.elts])
        if isinstance(e, ast.Dict):
            return Val.join([self.ev(F, x) for x in list(e.keys) + list(e.values) if x is not None])
        if isinstance(e, ast.Starred):
            return self.ev(F, e.value)
        if isinstance(e, ast.Slice):
            for x in (e.lower, e.upper, e.step):
                self.ev(F, x)
            return FRESH()
        if isinstance(e, ast.BinOp):
            l, r = self.ev(F, e.left), self.ev(F, e.right)
            cont = lambda n: isinstance(n, (ast.Tuple, ast.List)) or (isinstance(n, ast.Call) and U(n.func) in ("tuple", "list"))
            if isinstance(e.op, (ast.Add, ast.Mult)) and (cont(e.left) or cont(e.right)):
                return Val.join([l, r])          # tuple / list concatenation keeps the elements
            return FRESH()                       # NumPy (and Tensor) arithmetic allocates its result
        if isinstance(e, ast.UnaryOp):
            self.ev(F, e.operand); return FRESH()
        if isinstance(e, ast.Compare):
            self.ev(F, e.left)
            for c in e.comparators:
                self.ev(F, c)
            return FRESH()
        if isinstance(e, ast.BoolOp):
            return Val.join([self.ev(F, v) for v in e.values])     # `a or b` returns one of its operands
        if isinstance(e, ast.IfExp):
            self.ev(F, e.test)
            return Val.join([self.ev(F, e.body), self.ev(F, e.orelse)])
        if isinstance(e, ast.Subscript):
            base = self.ev(F, e.value)
            self.ev(F, e.slice)
            return Val(base.c[0], base.c[1], base.c[2], tag="view")      # basic index = view; fancy index = copy (conservative)
        if isinstance(e, ast.Attribute):
            return self.ev_attr(F, e)
        if isinstance(e, (ast.ListComp, ast.GeneratorExp, ast.SetComp)):
            for g in e.generators:
                self.bind_target(F, g.target, self.ev(F, g.iter), g.iter)
                for c in g.ifs:
                    self.ev(F, c)
            return Val.join([self.ev(F, e.elt)])
        if isinstance(e, ast.Call):
            return self.ev_call(F, e)
        self.err(e, "expression %s" % type(e).__name__)

    def ev_attr(self, F, e):
        a = e.attr
        dotted = U(e)
        if dotted.startswith(("np.", "math.", "Device.")):
            return FRESH()
        base = self.ev(F, e.value)
        if a == "data":
            return Val(base.c[1] or base.c[0], tag="view")      # x.data of a tensor; of an ndarray (.data = memoryview): the array itself
        if a == "_grad":
            return Val(base.c[2], tag="view")
        if a == "grad":                                          # property: Tensor(self._grad) shares the buffer
            return Val((), base.c[2], (), tag="view")
        if a in ATTR_VIEW:
            return Val(base.c[0], base.c[1], base.c[2], tag="view")
        if a in ATTR_FRESH:
            return FRESH()
        if isinstance(e.value, ast.Name) and e.value.id == "self":
            return Val(base.c[0], base.c[1], base.c[2], tag="view")     # any other attribute of self: part of the object
        self.err(e, "attribute .%s" % a)

    def call_args(self, F, call):
        vals = [self.ev(F, a) for a in call.args]
        kws = {k.arg: self.ev(F, k.value) for k in call.keywords}
        return vals, kws

    def ev_call(self, F, call):
        f = call.func
        name = U(f)
        n = f
        while isinstance(n, ast.Attribute):
            n = n.value
        if not isinstance(n, ast.Name):
            name = "<expr>." + (f.attr if isinstance(f, ast.Attribute) else "")     # a method of a computed value, not a dotted name
        # ---- NumPy ---------------------------------------------------------------------------------------
        if name.startswith("np."):
            short = name[3:]
            vals, kws = self.call_args(F, call)
            allv = vals + [v for k, v in kws.items()]
            if "out" in kws:
                self.write(F, kws["out"], call)
                return Val.join([kws["out"]])
            if short in NP_WRITE_FIRST:
                self.used_np.add(short)
                self.write(F, vals[0], call)
                return FRESH()
            if short.startswith("lib.stride_tricks."):
                short = short.split(".")[-1]
            if short.startswith("random."):
                if short[7:] in NP_RANDOM_FRESH:
                    return FRESH()
                self.err(call, "numpy random function %s" % short)
            if short in NP_VIEW:
                self.used_np.add(short)
                return Val.join(allv, tag="view")
            if short in NP_FRESH:
                self.used_np.add(short)
                return FRESH()
            self.err(call, "unclassified NumPy function np.%s" % short)
        if name.startswith("math.") or name.startswith("utils."):
            self.call_args(F, call); return FRESH()
        # ---- package functions --------------------------------------------------------------------------------
        target = self.resolver.resolve(self.modkey, f)
        if target is not None:
            return self.ev_pkg_call(F, call, target, recv=None)
        # ---- method calls -----------------------------------------------------------------------------------------
        if isinstance(f, ast.Attribute):
            m = f.attr
            recv = self.ev(F, f.value)
            vals, kws = self.call_args(F, call)
            allv = vals + list(kws.values())
            mt = self.resolver.resolve_method(m)
            if mt is not None and not (m in M_VIEW | M_FRESH and not recv.c[1] and not recv.c[2]):
                return self.ev_pkg_call(F, call, mt, recv=(f.value, recv))
            self.used_methods.add(m)
            if "out" in kws:
                self.write(F, kws["out"], call)
            if m in M_VIEW:
                return Val(recv.c[0], recv.c[1], recv.c[2], tag="view")
            if m in M_FRESH:
                return FRESH()
            if m in M_WRITE:
                self.write(F, recv, call); return FRESH()
            if m in M_CONTAINER_ADD:
                # list.append / set.add ...: the Python container is mutated (no array storage is); it now holds the argument.
                # (ndarray has none of these methods)
                if isinstance(f.value, ast.Name):
                    self.bind_more(F, f.value.id, Val.join(allv))
                else:
                    self.err(call, "container method on a non-name")
                return FRESH()
            if m in M_CONTAINER_TAKE:
                return Val(recv.c[0], recv.c[1], recv.c[2])
            if m == "grad_fn" or U(f).endswith(".grad_fn"):
                # node.grad_fn(): runs the backward closure of the node, which (closures_write_only_grad_buffers)
                # writes only gradient buffers of the node's children
                self.write_comp(F, recv, 2, call)
                return FRESH()
            if m in ("__enter__", "__exit__"):
                return FRESH()
            self.err(call, "unclassified method .%s()" % m)
        # ---- call of a parameter that every call site binds to a pure, allocating NumPy function ----------------------
        if isinstance(f, ast.Name) and f.id in self.resolver.callable_params.get(F.qual, {}):
            vals, kws = self.call_args(F, call)
            if "out" in kws:
                self.write(F, kws["out"], call)
                return Val.join([kws["out"]])
            for nm in self.resolver.callable_params[F.qual][f.id]:
                self.used_np.add(nm)
            return FRESH()
        # ---- builtins / constructors -----------------------------------------------------------------------------
        if isinstance(f, ast.Name):
            vals, kws = self.call_args(F, call)
            allv = vals + list(kws.values())
            if f.id in ("Tensor", "Parameter"):
                # Tensor(data): an ndarray is stored as is (shares), anything else is converted (fresh)
                d = vals[0] if vals else kws.get("data", FRESH())
                if d.c[1] or d.c[2]:            # Tensor(tensor): copy_from -> shares everything
                    return Val(d.c[0], d.c[1], d.c[2])
                # (children= only records graph edges: references to the operand objects, no array storage of the result)
                return Val((), d.c[0], ())
            if f.id in BUILTIN_JOIN:
                return Val.join(allv)
            if f.id in BUILTIN_FRESH:
                return FRESH()
        if isinstance(f, ast.Call) or name in ("super().__init__", "super().step"):
            self.call_args(F, call); return FRESH()
        self.err(call, "unknown call %s" % name)

    def ev_pkg_call(self, F, call, target, recv):
        """call of a translated function: CallRet with the callee's IR parameter layout"""
        callee = self.resolver.signature(target)
        if callee is None:
            self.err(call, "call of untranslated package function %s" % target)
        params, tensorish, defaults_from = callee
        pos = []
        if recv is not None:
            pos.append(recv[1])
        star = None
        for a in call.args:
            if isinstance(a, ast.Starred):
                star = self.ev(F, a.value)
            elif star is not None:
                self.err(call, "positional argument after *args")
            else:
                pos.append(self.ev(F, a))
        kws = {}
        for k in call.keywords:
            if k.arg is None:
                self.err(call, "**kwargs")
            kws[k.arg] = self.ev(F, k.value)
        bound = {}
        for i, p in enumerate(params):
            if i < len(pos):
                bound[p] = pos[i]
            elif p in kws:
                bound[p] = kws.pop(p)
            elif star is not None:
                bound[p] = star            # *bw_data: any remaining parameter may receive any element
            else:
                bound[p] = None            # default value: a fresh / immutable object
        if len(pos) > len(params) or kws:
            self.err(call, "arguments do not match the signature of %s" % target)
        args = []
        for p in params:
            v = bound[p]
            args.append(self.as_var(F, v) if v is not None else self.as_var(F, FRESH()))
        for p in params:
            if p in tensorish:
                v = bound[p]
                for i in (1, 2):
                    vv = Val(v.c[i]) if v is not None else FRESH()
                    args.append(self.as_var(F, vv))
        t = F.tmp()
        F.body.append(("Bind", t, ("CallRet", target, args)))
        eff = self.resolver.method_effect(target)
        if eff is not None and recv is not None:
            # the callee rebinds <receiver>.<field> to (a part of) its result
            if not isinstance(recv[0], ast.Name):
                self.err(call, "field-rebinding method on a non-name receiver")
            F.body.append(("Bind", F.var(recv[0].id + eff), ("Alias", t)))
            return FRESH()
        if self.resolver.kinds.get(target) == "kernel":
            return Val([t])                 # kernels return arrays (or tuples of arrays)
        return Val([t], [t], [t])           # tensors: the summary covers the object, its data and its gradient buffer

    # ------------------------------------------------------------------ writes and bindings
    def write_comp(self, F, val, comp, node):
        for x in val.c[comp]:
            F.body.append(("Write", x))

    def write(self, F, val, node):
        self.write_comp(F, val, 0, node)

    def bind_more(self, F, name, val):
        for i, fld in enumerate(FIELDS):
            if val.c[i]:
                F.body.append(("Bind", F.var(name + fld), ("Join", val.c[i])))

    def bind_target(self, F, tgt, val, valnode=None):
        if isinstance(tgt, ast.Name):
            self.bind(F, tgt.id, val)
        elif isinstance(tgt, (ast.Tuple, ast.List)):
            # positional destructuring of a tuple display or of zip(...): element-wise
            elts = None
            if isinstance(valnode, (ast.Tuple, ast.List)) and len(valnode.elts) == len(tgt.elts) and not any(isinstance(x, ast.Starred) for x in valnode.elts + tgt.elts):
                elts = [self.ev(F, x) for x in valnode.elts]
            for i, t in enumerate(tgt.elts):
                t2 = t.value if isinstance(t, ast.Starred) else t
                self.bind_target(F, t2, elts[i] if elts else val, valnode.elts[i] if elts else None)
        elif isinstance(tgt, ast.Subscript):
            base = self.ev(F, tgt.value)
            self.ev(F, tgt.slice)
            nm = tgt.value.id if isinstance(tgt.value, ast.Name) else None
            kind = self.name_kind(F.fn, nm) if nm else "unknown"
            if kind != "list":
                self.write(F, base, tgt)                       # x[...] = v : in-place write into the array x (values are copied)
            if kind != "array":
                if nm is None:
                    self.err(tgt, "subscript store into a computed container")
                self.bind_more(F, nm, val)                     # a list / dict now holds v
        elif isinstance(tgt, ast.Attribute):
            self.attr_store(F, tgt, val)
        else:
            self.err(tgt, "assignment target %s" % type(tgt).__name__)

    def attr_store(self, F, tgt, val):
        if not isinstance(tgt.value, ast.Name):
            self.err(tgt, "attribute store on a non-name")
        n, a = tgt.value.id, tgt.attr
        if a == "_grad":
            F.body.append(("Bind", F.var(n + "._grad"), ("Join", val.c[0]) if val.c[0] else ("Fresh",)))
        elif a == "grad":        # property setter: self._grad = grad.data   (shape validated by checks; see validate_tensor_py)
            F.body.append(("Bind", F.var(n + "._grad"), ("Join", val.c[1]) if val.c[1] else ("Fresh",)))
        elif a == "data":
            F.body.append(("Bind", F.var(n + ".data"), ("Join", val.c[0]) if val.c[0] else ("Fresh",)))
        else:                    # any other attribute: the object now refers to the value
            self.bind_more(F, n, val)

    def name_kind(self, fn, name):
        """'list' : every binding of the local is a list/dict display, comprehension or list()/dict() call;
           'array': every binding is an allocating NumPy call or arithmetic; otherwise 'unknown' (treated as both)"""
        if fn is None or name in [a.arg for a in fn.args.args + fn.args.kwonlyargs]:
            return "unknown"

        def listy(e):
            if isinstance(e, (ast.List, ast.ListComp, ast.Dict, ast.DictComp)):
                return True
            if isinstance(e, ast.Call) and U(e.func) in ("list", "dict"):
                return True
            if isinstance(e, ast.BinOp) and isinstance(e.op, (ast.Mult, ast.Add)):
                return listy(e.left) or listy(e.right)
            return False

        def arrayish(e):
            if isinstance(e, ast.Call) and U(e.func).startswith("np.") and U(e.func)[3:] in NP_FRESH and U(e.func)[3:] not in ("unravel_index", "broadcast_shapes", "ndindex"):
                return True
            if isinstance(e, (ast.BinOp, ast.UnaryOp)) and not listy(e):
                return not any(isinstance(x, (ast.Tuple, ast.List)) for x in ast.walk(e))
            return False
        kinds = set()
        for n in ast.walk(fn):
            if isinstance(n, ast.Assign):
                for t in n.targets:
                    if isinstance(t, ast.Name) and t.id == name:
                        kinds.add("list" if listy(n.value) else "array" if arrayish(n.value) else "unknown")
                    elif any(isinstance(x, ast.Name) and x.id == name and isinstance(x.ctx, ast.Store) for x in ast.walk(t)):
                        kinds.add("unknown")
            elif isinstance(n, (ast.For, ast.comprehension, ast.With, ast.AugAssign)) and not isinstance(n, ast.AugAssign):
                tg = n.target if not isinstance(n, ast.With) else None
                if tg is not None and any(isinstance(x, ast.Name) and x.id == name for x in ast.walk(tg)):
                    kinds.add("unknown")
        return kinds.pop() if len(kinds) == 1 else "unknown"

    def is_scalar_name(self, fn, name):
        for a in fn.args.args + fn.args.kwonlyargs:
            if a.arg == name:
                return a.annotation is not None and U(a.annotation).strip("'\"") in SCALAR_ANN

        def scalar_expr(e):
            if isinstance(e, ast.Constant):
                return isinstance(e.value, (int, float, bool))
            if isinstance(e, ast.BinOp):
                return scalar_expr(e.left) and scalar_expr(e.right)
            if isinstance(e, ast.UnaryOp):
                return scalar_expr(e.operand)
            if isinstance(e, ast.Call):
                return U(e.func) in ("len", "int", "float") or (isinstance(e.func, ast.Attribute) and e.func.attr == "item")
            if isinstance(e, ast.Subscript):
                return isinstance(e.value, ast.Attribute) and e.value.attr == "shape"
            if isinstance(e, ast.Attribute):
                return e.attr in ("ndim", "size")
            if isinstance(e, ast.Name):
                return self.is_scalar_name(fn, e.id) if e.id != name else True
            return False
        found = False
        for n in ast.walk(fn):
            if isinstance(n, ast.Assign) and any(isinstance(t, ast.Name) and t.id == name for t in n.targets):
                found = True
                if not scalar_expr(n.value):
                    return False
            elif isinstance(n, (ast.For, ast.comprehension)) and any(isinstance(t, ast.Name) and t.id == name for t in ast.walk(n.target)):
                return False
            elif isinstance(n, ast.Assign) and any(isinstance(t, (ast.Tuple, ast.List)) and any(isinstance(x, ast.Name) and x.id == name for x in ast.walk(t)) for t in n.targets):
                return False
        return found

    # ------------------------------------------------------------------ statements
    def stmts(self, F, fn, body):
        for st in body:
            self.stmt(F, fn, st)

    def stmt(self, F, fn, st):
        F.line = st.lineno
        if isinstance(st, ast.Assign):
            v = self.ev(F, st.value)
            for t in st.targets:
                self.bind_target(F, t, v, st.value)
        elif isinstance(st, ast.AnnAssign):
            if st.value is not None:
                self.bind_target(F, st.target, self.ev(F, st.value), st.value)
        elif isinstance(st, ast.AugAssign):
            v = self.ev(F, st.value)
            t = st.target
            if isinstance(t, ast.Name):
                if self.is_scalar_name(fn, t.id):
                    self.bind(F, t.id, FRESH())                     # int/float rebinding
                elif isinstance(st.value, (ast.Tuple, ast.List)):
                    self.bind_more(F, t.id, v)                       # tuple/list `+=`: the container (re)bound holds both; no array storage is written
                else:
                    cur = self.name_val(F, t.id, t)
                    self.write(F, cur, st)                           # ndarray `x op= v` is in place
            elif isinstance(t, ast.Subscript):
                base = self.ev(F, t.value); self.ev(F, t.slice)
                self.write(F, base, st)
            elif isinstance(t, ast.Attribute):
                if not isinstance(t.value, ast.Name):
                    self.err(st, "augmented attribute store on a non-name")
                base = self.ev(F, t.value)
                if t.attr == "_grad":
                    self.write_comp(F, base, 2, st)
                elif t.attr == "data":
                    self.write_comp(F, base, 1, st)
                elif t.attr == "grad":
                    self.err(st, "augmented assignment through the grad property")
                else:
                    pass        # self.t += 1 and the like: a Python number attribute is rebound (not array storage);
                                # recorded by the census of attribute writes
            else:
                self.err(st, "augmented assignment target")
        elif isinstance(st, ast.Return):
            if st.value is not None:
                v = self.ev(F, st.value)
                allsrc = v.c[0] + [x for x in v.c[1] + v.c[2] if x not in v.c[0]]
                t = self.as_var(F, Val(allsrc))
                F.body.append(("Return", t))
        elif isinstance(st, ast.Expr):
            if isinstance(st.value, ast.Constant):
                return
            self.ev(F, st.value)
        elif isinstance(st, ast.If):
            self.ev(F, st.test); self.stmts(F, fn, st.body); self.stmts(F, fn, st.orelse)
        elif isinstance(st, ast.While):
            self.ev(F, st.test); self.stmts(F, fn, st.body); self.stmts(F, fn, st.orelse)
        elif isinstance(st, ast.For):
            it = self.ev(F, st.iter)
            if isinstance(st.target, (ast.Tuple, ast.List)) and isinstance(st.iter, ast.Call) and U(st.iter.func) == "zip" \
                    and len(st.iter.args) == len(st.target.elts):
                for t, a in zip(st.target.elts, st.iter.args):
                    self.bind_target(F, t, self.ev(F, a))
            else:
                self.bind_target(F, st.target, it)
            self.stmts(F, fn, st.body); self.stmts(F, fn, st.orelse)
        elif isinstance(st, ast.With):
            for it in st.items:
                v = self.ev(F, it.context_expr)
                if it.optional_vars is not None:
                    self.bind_target(F, it.optional_vars, v)
            self.stmts(F, fn, st.body)
        elif isinstance(st, ast.Try):
            self.stmts(F, fn, st.body)
            for h in st.handlers:
                self.stmts(F, fn, h.body)
            self.stmts(F, fn, st.orelse); self.stmts(F, fn, st.finalbody)
        elif isinstance(st, ast.Raise):
            pass
        elif isinstance(st, ast.Assert):
            self.ev(F, st.test)
        elif isinstance(st, ast.Delete):
            for t in st.targets:
                if isinstance(t, ast.Subscript):
                    self.write(F, self.ev(F, t.value), st)           # del a[i]
                elif isinstance(t, (ast.Name, ast.Attribute)):
                    pass                                              # unbinding a name / attribute
                else:
                    self.err(st, "del target")
        elif isinstance(st, (ast.Pass, ast.Continue, ast.Break, ast.Global, ast.Nonlocal)):
            pass
        elif isinstance(st, ast.ImportFrom) or isinstance(st, ast.Import):
            pass
        elif isinstance(st, ast.FunctionDef):
            F.var(st.name)      # nested closures are translated as functions of their own; the name denotes a fresh function object
        else:
            self.err(st, "statement %s" % type(st).__name__)


# --------------------------------------------------------------------------------------------------------------
class Resolver:
    """names of translated functions, their IR signatures, call resolution across modules"""

    def __init__(self):
        self.sigs = {}          # qual -> (params, tensorish, None)
        self.modfuns = {}       # modkey -> set of function names
        self.effects = {}       # qual -> field its receiver gets rebound to (zero_ -> "._grad")
        self.methods = {}       # method name -> qual (methods of Tensor translated)
        self.kinds = {}         # qual -> kernel | wrapper | closure | initialiser | method | layer
        self.live_guards = []       # (closure qual, every accumulation is guarded by `<its own target>.requires_grad`, read when backward runs)
        self.callable_params = {}   # qual -> {param name: sorted list of the pure NumPy functions every call site passes}

    def module_functions(self, modkey):
        return self.modfuns.get(modkey, set())

    def signature(self, qual):
        return self.sigs.get(qual)

    def method_effect(self, qual):
        return self.effects.get(qual)

    def resolve_method(self, m):
        return self.methods.get(m)

    ALIASES = {"cpu_ops": "cpu_ops", "conv_tools": "conv_tools", "F": None}

    def resolve(self, modkey, f):
        """qualified name of the package function a call expression refers to, or None"""
        if isinstance(f, ast.Name):
            if f.id in self.modfuns.get(modkey, ()):
                return modkey + "." + f.id
            if modkey == "cpu_ops" and f.id in self.modfuns.get("conv_tools", ()):
                return "conv_tools." + f.id          # from synapgrad.conv_tools import extract_windows, place_windows
            return None
        if isinstance(f, ast.Attribute) and isinstance(f.value, ast.Name):
            base = f.value.id
            if base in ("cpu_ops", "conv_tools") and f.attr in self.modfuns.get(base, ()):
                return base + "." + f.attr
            if base == "F":
                tgt = "functional" if modkey == "tensor" else "nn.functional"
                if f.attr in self.modfuns.get(tgt, ()):
                    return tgt + "." + f.attr
            if base in ("cpu_ops", "conv_tools", "F"):
                raise Untranslatable("call of unknown package function %s.%s" % (base, f.attr))
        return None


def tensorish_names(fn, extra=()):
    """names that (may) stand for tensors or containers of tensors: a field is read from them, or they flow from/to such a name"""
    names = set(extra)
    for n in ast.walk(fn):
        if isinstance(n, ast.Attribute) and n.attr in ("data", "_grad", "grad", "_children") and isinstance(n.value, ast.Name):
            names.add(n.value.id)
    for a in fn.args.args:
        if a.annotation is not None and "Tensor" in U(a.annotation):
            names.add(a.arg)

    def loads(e):
        """names occurring as whole elements of e (not under an attribute / call)"""
        if isinstance(e, ast.Name):
            return {e.id}
        if isinstance(e, (ast.Tuple, ast.List)):
            return set().union(*[loads(x) for x in e.elts]) if e.elts else set()
        if isinstance(e, ast.IfExp):
            return loads(e.body) | loads(e.orelse)
        if isinstance(e, ast.Starred):
            return loads(e.value)
        if isinstance(e, ast.Call) and U(e.func) in ("zip", "enumerate", "reversed", "tuple", "list", "iter"):
            return set().union(*[loads(x) for x in e.args]) if e.args else set()
        return set()
    changed = True
    while changed:
        changed = False
        pairs = []
        for n in ast.walk(fn):
            if isinstance(n, ast.Assign):
                # only plain value flow (names, tuples, tuple()/list()/zip() of names): not through calls of kernels
                v = n.value
                if isinstance(v, ast.Call) and U(v.func) in ("tuple", "list") and v.args:
                    v = v.args[0]
                if isinstance(v, (ast.Name, ast.Tuple, ast.List, ast.IfExp)):
                    pairs.append((set().union(*[loads(t) for t in n.targets]), loads(v)))
            elif isinstance(n, ast.AugAssign) and isinstance(n.value, (ast.Tuple, ast.List)):
                pairs.append((loads(n.target), loads(n.value)))
            elif isinstance(n, (ast.For, ast.comprehension)):
                pairs.append((loads(n.target), loads(n.iter)))
        for a, b in pairs:
            if (a & names) or (b & names):
                new = (a | b) - names
                if new:
                    names |= new; changed = True
    return names


def free_vars(closure, enclosing_names):
    """names read in the closure that are bound in the enclosing function"""
    bound = {a.arg for a in closure.args.args}
    for n in ast.walk(closure):
        if isinstance(n, ast.Name) and isinstance(n.ctx, ast.Store):
            bound.add(n.id)
    free = []
    for n in ast.walk(closure):
        if isinstance(n, ast.Name) and isinstance(n.ctx, ast.Load) and n.id not in bound and n.id in enclosing_names and n.id not in free:
            free.append(n.id)
    return free


def local_names(fn):
    names = [a.arg for a in fn.args.args + fn.args.kwonlyargs]
    if fn.args.vararg:
        names.append(fn.args.vararg.arg)
    for n in ast.walk(fn):
        if isinstance(n, ast.Name) and isinstance(n.ctx, ast.Store) and n.id not in names:
            names.append(n.id)
        if isinstance(n, ast.FunctionDef) and n is not fn and n.name not in names:
            names.append(n.name)
    return names


def fn_params(fn):
    ps = [a.arg for a in fn.args.args]
    if fn.args.vararg:
        ps.append(fn.args.vararg.arg)
    ps += [a.arg for a in fn.args.kwonlyargs]
    if fn.args.kwarg:
        raise Untranslatable("%s: **kwargs parameter" % fn.name)
    return ps


TENSOR_METHODS = ["zero_", "backward", "detach", "clone"]       # + the grad property (getter / setter are inlined)


def validate_tensor_py(cls):
    """the shapes of the tensor.py methods that the translator inlines: fail closed if they change"""
    found = {}
    for st in cls.body:
        if isinstance(st, ast.FunctionDef) and st.name == "grad":
            decos = [U(d) for d in st.decorator_list]
            found["setter" if "grad.setter" in decos else "getter"] = st
        if isinstance(st, ast.FunctionDef) and st.name == "zero_":
            found["zero_"] = st
    s = found.get("setter")
    ok = s is not None and len(s.body) == 2 and isinstance(s.body[0], ast.If) and isinstance(s.body[0].body[0], ast.Raise) \
        and U(s.body[1]) == "self._grad = grad.data"
    if not ok:
        raise Untranslatable("tensor.py: the grad setter is not `<shape check>; self._grad = grad.data`")
    g = found.get("getter")
    rets = [n for n in ast.walk(g) if isinstance(n, ast.Return)] if g else []
    if not (len(rets) == 1 and U(rets[0].value).startswith("Tensor(self._grad")):
        raise Untranslatable("tensor.py: the grad getter does not return Tensor(self._grad ...)")
    for n in ast.walk(g):
        if isinstance(n, (ast.Assign, ast.AugAssign, ast.Delete)):
            raise Untranslatable("tensor.py: the grad getter has a side effect")
    z = found.get("zero_")
    if not (z is not None and len(z.body) == 1 and isinstance(z.body[0], ast.Assign) and U(z.body[0].targets[0]) == "self.grad"):
        raise Untranslatable("tensor.py: zero_ is not a single `self.grad = ...`")


def children_flag(cls):
    """Tensor.__init__ stores `children` only when the result requires grad (so the walk of backward, which follows
    `_children`, never crosses a value computed under no_grad / from non-requiring operands)"""
    for st in cls.body:
        if isinstance(st, ast.FunctionDef) and st.name == "__init__":
            stores = [n for n in ast.walk(st) if isinstance(n, ast.Assign) and any(U(t) == "self._children" for t in n.targets)]
            reqs = [n for n in ast.walk(st) if isinstance(n, ast.Assign) and any(U(t) == "req_grad" for t in n.targets)]
            return (len(stores) == 1 and U(stores[0].value) == "children if req_grad else ()"
                    and len(reqs) == 1 and U(reqs[0].value) == "requires_grad and gradient__")
    return False


def walk_flag(cls):
    """Tensor.backward creates / re-zeroes a child's buffer only under a test whose first conjunct is the LIVE flag
    `child.requires_grad`, and refuses a root that does not require grad"""
    for st in cls.body:
        if isinstance(st, ast.FunctionDef) and st.name == "backward":
            ok_child = False
            for n in ast.walk(st):
                if isinstance(n, ast.If) and any(isinstance(b, ast.Expr) and U(b.value) == "child.zero_()" for b in n.body):
                    t = n.test
                    ok_child = isinstance(t, ast.BoolOp) and isinstance(t.op, ast.And) and U(t.values[0]) == "child.requires_grad"
            zero_calls = [n for n in ast.walk(st) if isinstance(n, ast.Call) and U(n.func).endswith(".zero_")]
            only_known = all(U(c.func) in ("child.zero_", "self.zero_") for c in zero_calls)
            first = st.body[1] if isinstance(st.body[0], ast.Expr) and isinstance(st.body[0].value, ast.Constant) else st.body[0]
            ok_root = isinstance(first, ast.If) and U(first.test) == "not self.requires_grad" and isinstance(first.body[0], ast.Raise)
            return ok_child and only_known and ok_root
    return False


def load(rel):
    path = os.path.join(common.REPO, rel)
    return path, ast.parse(open(path).read())


def translate_all():
    R = Resolver()
    mods = {}
    for key, rel in (("conv_tools", "synapgrad/conv_tools.py"), ("cpu_ops", "synapgrad/cpu_ops.py"),
                     ("functional", "synapgrad/functional.py"), ("nn.functional", "synapgrad/nn/functional.py"),
                     ("tensor", "synapgrad/tensor.py"), ("nn.layers", "synapgrad/nn/layers.py")):
        mods[key] = load(rel)
    # ---- pass 1: signatures ------------------------------------------------------------------------------
    jobs = []        # (modkey, qual, fn, params, tensorish, writable_fields, kind, enclosing)
    for key in ("conv_tools", "cpu_ops"):
        path, tree = mods[key]
        R.modfuns[key] = set()
        for st in tree.body:
            if isinstance(st, ast.FunctionDef):
                R.modfuns[key].add(st.name)
                jobs.append((key, key + "." + st.name, st, fn_params(st), set(), (), "kernel", None))
            elif isinstance(st, ast.ClassDef):
                raise Untranslatable("%s: unexpected class %s" % (path, st.name))
    for key in ("functional", "nn.functional"):
        path, tree = mods[key]
        R.modfuns[key] = set()
        for st in tree.body:
            if isinstance(st, ast.FunctionDef):
                R.modfuns[key].add(st.name)
                ps = fn_params(st)
                tens = tensorish_names(st) & set(ps)
                jobs.append((key, key + "." + st.name, st, ps, tens, (), "wrapper", None))
                for sub in st.body:
                    if isinstance(sub, ast.FunctionDef):
                        if sub.name != "backward":
                            raise Untranslatable("%s: nested function %s.%s" % (path, st.name, sub.name))
                        encl = local_names(st)
                        free = free_vars(sub, set(encl))
                        cps = fn_params(sub) + free
                        ctens = tensorish_names(st) & set(cps)
                        # the result tensor (the one whose .grad is read) is not an operand: its buffers are read-only here
                        results = set()
                        for n in ast.walk(sub):
                            if isinstance(n, ast.Attribute) and n.attr == "grad" and isinstance(n.ctx, ast.Load):
                                b = n.value
                                while isinstance(b, ast.Subscript):
                                    b = b.value
                                if isinstance(b, ast.Name):
                                    results.add(b.id)
                        from lib.py2coq import gen_wrappers
                        ws = gen_wrappers.summarize(key, st)
                        kids = set(ws["kids_required"]) | set(ws["kids_optional"]) | set(ws["kids_list"]) | {"inputs"}
                        operands = [p for p in cps if p in ctens and p not in results and p in kids]
                        live = bool(ws["accs"]) and all(a["guard_own"] or (a["loop"] and a["guard"] == "inp.requires_grad") for a in ws["accs"])
                        R.live_guards.append((key + "." + st.name + "/backward", live))
                        jobs.append((key, key + "." + st.name + "/backward", sub, cps, ctens,
                                     tuple(p + "._grad" for p in operands), "closure", st))
            elif isinstance(st, ast.ClassDef) and st.name != "BackwardFunction":
                raise Untranslatable("%s: unexpected class %s" % (path, st.name))
    # tensor.py: module-level initialisers and the listed Tensor methods
    path, tree = mods["tensor"]
    R.modfuns["tensor"] = set()
    for st in tree.body:
        if isinstance(st, ast.FunctionDef) and st.name != "lazy_import":
            R.modfuns["tensor"].add(st.name)
            ps = fn_params(st)
            jobs.append(("tensor", "tensor." + st.name, st, ps, tensorish_names(st) & set(ps), (), "initialiser", None))
        if isinstance(st, ast.ClassDef) and st.name == "Tensor":
            validate_tensor_py(st)
            R.children_flag = children_flag(st)
            R.walk_flag = walk_flag(st)
            for m in st.body:
                if isinstance(m, ast.FunctionDef) and m.name in TENSOR_METHODS:
                    ps = fn_params(m)
                    tens = (tensorish_names(m) & set(ps)) | {"self"}
                    wr = ("self._grad",) if m.name == "backward" else ()
                    q = "tensor.Tensor." + m.name
                    jobs.append(("tensor", q, m, ps, tens, wr, "method", None))
                    R.methods[m.name] = q
                    if m.name == "zero_":
                        R.effects[q] = "._grad"
    # nn/layers.py: Dropout.forward is the only layer method with array code of its own
    path, tree = mods["nn.layers"]
    R.modfuns["nn.layers"] = set()
    for st in tree.body:
        if isinstance(st, ast.ClassDef) and st.name == "Dropout":
            for m in st.body:
                if isinstance(m, ast.FunctionDef) and m.name == "forward":
                    ps = fn_params(m)
                    jobs.append(("nn.layers", "nn.layers.Dropout.forward", m, ps, {"x"}, (), "layer", None))
    for (key, qual, fn, ps, tens, wr, kind, encl) in jobs:
        R.sigs[qual] = (ps, tens, None)
        R.kinds[qual] = kind
    # ---- callable parameters: resolved from ALL call sites (fail closed) --------------------------------------------
    for (key, qual, fn, ps, tens, wr, kind, encl) in jobs:
        called = sorted({n.func.id for n in ast.walk(fn) if isinstance(n, ast.Call) and isinstance(n.func, ast.Name) and n.func.id in ps})
        if not called:
            continue
        if kind != "kernel":
            raise Untranslatable("%s: calls its parameter(s) %s (only kernels may take function arguments)" % (qual, called))
        found = {c: set() for c in called}
        nsites = 0
        for key2, (path2, tree2) in mods.items():
            for n in ast.walk(tree2):
                if not isinstance(n, ast.Call):
                    continue
                try:
                    tgt = R.resolve(key2, n.func)
                except Untranslatable:
                    tgt = None
                if tgt != qual:
                    continue
                nsites += 1
                if any(isinstance(a, ast.Starred) for a in n.args) or any(k.arg is None for k in n.keywords):
                    raise Untranslatable("%s:%d: star-arguments in a call of %s, whose parameter is called" % (path2, n.lineno, qual))
                for c in called:
                    i = ps.index(c)
                    val = n.args[i] if i < len(n.args) else next((k.value for k in n.keywords if k.arg == c), None)
                    txt = U(val) if val is not None else "<default>"
                    if not (txt.startswith("np.") and txt[3:] in NP_FRESH):
                        raise Untranslatable("%s:%d: %s is called with %s=%s, which is not a known pure allocating NumPy function"
                                             % (path2, n.lineno, qual, c, txt))
                    found[c].add(txt[3:])
        # the function must not be used as a value (aliased / passed on): there would be call sites we cannot see
        for key2, (path2, tree2) in mods.items():
            funcs = {id(n.func) for n in ast.walk(tree2) if isinstance(n, ast.Call)}
            for n2 in ast.walk(tree2):
                is_ref = (isinstance(n2, ast.Name) and isinstance(n2.ctx, ast.Load) and n2.id == fn.name and (key2 == key or (key2 == "cpu_ops" and key == "conv_tools"))) \
                    or (isinstance(n2, ast.Attribute) and n2.attr == fn.name and isinstance(n2.value, ast.Name) and n2.value.id == key)
                if is_ref and id(n2) not in funcs:
                    raise Untranslatable("%s:%d: %s (which calls its parameter) is used as a value" % (path2, n2.lineno, qual))
        if nsites == 0:
            raise Untranslatable("%s: calls its parameter(s) %s but has no call site in the translated modules" % (qual, called))
        R.callable_params[qual] = {c: sorted(v) for c, v in found.items()}
    # ---- pass 2: bodies -----------------------------------------------------------------------------------------
    funs = []
    used_np, used_methods = set(), set()
    for (key, qual, fn, ps, tens, wr, kind, encl) in jobs:
        T = Translator(key, mods[key][1], R, mods[key][0])
        F = Fun(qual, ps, tens, wr)
        F.fn = fn
        F.kind = kind
        F.lines = (fn.lineno, fn.end_lineno)
        if kind == "method" and fn.name == "zero_":
            # zero_: `self.grad = E`  ==> returns the new buffer E.data ; the caller rebinds <receiver>._grad to it
            v = T.ev(F, fn.body[0].value)
            F.body.append(("Return", T.as_var(F, Val(v.c[1]))))
        else:
            T.stmts(F, fn, fn.body)
        used_np |= T.used_np; used_methods |= T.used_methods
        funs.append(F)
    translate_all.children_flag = R.children_flag
    translate_all.walk_flag = R.walk_flag
    translate_all.live_guards = R.live_guards
    return funs, sorted(used_np), sorted(used_methods)


# --------------------------------------------------------------------------------------------------------------
# census of in-place effects on tensor data over the whole package (syntactic)
def census():
    rows = []
    root = os.path.join(common.REPO, "synapgrad")
    for dp, dn, fns in sorted(os.walk(root)):
        dn.sort()
        for fnm in sorted(fns):
            if not fnm.endswith(".py"):
                continue
            path = os.path.join(dp, fnm)
            rel = os.path.relpath(path, root)[:-3].replace(os.sep, ".")
            tree = ast.parse(open(path).read())

            def field_of(n, aliases):
                """'data' / '_grad' if the expression denotes (a subscript of) a tensor field or a local alias of one"""
                while isinstance(n, ast.Subscript):
                    n = n.value
                if isinstance(n, ast.Attribute) and n.attr == "data" and isinstance(n.value, ast.Attribute) and n.value.attr == "grad":
                    return "_grad"
                if isinstance(n, ast.Attribute) and n.attr in ("data", "_grad", "grad"):
                    return "data" if n.attr == "data" else "_grad"
                if isinstance(n, ast.Name) and n.id in aliases:
                    return aliases[n.id]
                return None

            def fn_aliases(fn):
                al = {}
                for n in ast.walk(fn):
                    if isinstance(n, ast.Assign) and len(n.targets) == 1 and isinstance(n.targets[0], ast.Name):
                        v = n.value
                        if isinstance(v, ast.IfExp):
                            cands = [v.body, v.orelse]
                        else:
                            cands = [v]
                        for c in cands:
                            f = field_of(c, {}) if isinstance(c, (ast.Attribute, ast.Subscript)) else None
                            if f:
                                al[n.targets[0].id] = f
                return al

            def visit(node, qual, aliases=None):
                aliases = aliases or {}
                for ch in ast.iter_child_nodes(node):
                    q = qual
                    if isinstance(ch, (ast.FunctionDef, ast.ClassDef)):
                        q = (qual + "." if qual else "") + ch.name
                        if isinstance(ch, ast.FunctionDef) and any(U(d).endswith(".setter") for d in ch.decorator_list):
                            q += ".setter"
                        if isinstance(ch, ast.FunctionDef):
                            aliases = dict(aliases); aliases.update(fn_aliases(ch))
                    if isinstance(ch, (ast.Assign, ast.AugAssign, ast.Delete, ast.AnnAssign)):
                        tgts = ch.targets if isinstance(ch, (ast.Assign, ast.Delete)) else [ch.target]
                        for t in tgts:
                            for n in (t.elts if isinstance(t, (ast.Tuple, ast.List)) else [t]):
                                sub = isinstance(n, ast.Subscript)
                                f = field_of(n, aliases)
                                is_alias_name = isinstance(n, ast.Name)
                                if f and not (is_alias_name and not isinstance(ch, ast.AugAssign)):     # plain rebinding of a local alias is no effect
                                    fld = "Data" if f == "data" else "Grad"
                                    if isinstance(ch, ast.Delete):
                                        kind = fld + ("InPlace" if sub else "Del")
                                    elif isinstance(ch, ast.AugAssign) or sub:
                                        kind = fld + "InPlace"
                                    else:
                                        kind = fld + "Rebind"
                                    rows.append({"module": rel, "function": qual, "kind": kind, "target": U(t), "line": ch.lineno})
                    if isinstance(ch, ast.Call):
                        nm = U(ch.func)
                        a0 = ch.args[0] if ch.args else None
                        hits = [k.value for k in ch.keywords if k.arg == "out"]
                        if nm.startswith("np.") and nm[3:] in NP_WRITE_FIRST and a0 is not None:
                            hits.append(a0)
                        if isinstance(ch.func, ast.Attribute) and ch.func.attr in M_WRITE:
                            hits.append(ch.func.value)
                        for h in hits:
                            f = field_of(h, aliases)
                            if f:
                                rows.append({"module": rel, "function": qual, "kind": ("Data" if f == "data" else "Grad") + "InPlace",
                                             "target": U(h), "line": ch.lineno})
                        if isinstance(ch.func, ast.Attribute) and ch.func.attr == "zero_":
                            rows.append({"module": rel, "function": qual, "kind": "ZeroCall", "target": U(ch.func.value), "line": ch.lineno})
                    visit(ch, q, aliases)
            visit(tree, "")
    return rows


# documented in-place effects (module, function-prefix) -> category
DOCUMENTED = [
    ("optim.optimizers", "SGD.step", "optimizer_step"), ("optim.optimizers", "Adam.step", "optimizer_step"),
    ("optim.optimizers", "AdamW.step", "optimizer_step"), ("optim.optimizers", "Optimizer.zero_grad", "zero_grad"),
    ("nn.modules", "Module.zero_grad", "zero_grad"),
    ("nn.init", "uniform_", "initialiser"), ("nn.init", "normal_", "initialiser"), ("nn.init", "constant_", "initialiser"),
    ("nn.init", "ones_", "initialiser"), ("nn.init", "zeros_", "initialiser"),
    ("nn.functional", "batch_norm", "batch_norm_running_stats"),
    ("tensor", "Tensor.zero_", "zero_grad"), ("tensor", "Tensor.grad.setter", "grad_assignment"),
    ("tensor", "Tensor.backward", "gradient_accumulation"), ("tensor", "Tensor.__init__", "construction"),
]


def categorize(row):
    if row["function"].endswith(".backward") and row["module"] in ("functional", "nn.functional") and row["kind"] == "GradInPlace":
        return "gradient_accumulation"
    for m, f, cat in DOCUMENTED:
        if row["module"] == m and row["function"] == f:
            if cat == "batch_norm_running_stats" and not (row["kind"] == "DataRebind" and row["target"].startswith("running_")):
                continue
            return cat
    return "UNDOCUMENTED"


# --------------------------------------------------------------------------------------------------------------
def coq_str(s):
    return '"%s"' % s.replace('"', "'")


def emit(funs, rows):
    idx = {F.qual: i for i, F in enumerate(funs)}

    def rhs(r):
        if r[0] == "Fresh":
            return "Fresh"
        if r[0] in ("Alias", "ViewOf"):
            return "(%s %d)" % (r[0], r[1])
        if r[0] == "Join":
            return "(Join [%s])" % "; ".join(str(x) for x in r[1])
        if r[0] == "CallRet":
            return "(CallRet %d [%s])" % (idx[r[1]], "; ".join(str(x) for x in r[2]))
        raise AssertionError(r)
    out = ["(* GENERATED by lib/py2coq/gen_effects.py from synapgrad/{cpu_ops,conv_tools,functional,tensor}.py, nn/{functional,layers}.py. DO NOT EDIT. *)",
           "From Coq Require Import List String.", "Import ListNotations.", "Open Scope string_scope.",
           "From SG Require Import IR.Effects.", ""]
    names = []
    for i, F in enumerate(funs):
        ident = "fx_%d" % i
        names.append(ident)
        inv = sorted(F.vars.items(), key=lambda kv: kv[1])
        out.append("(* %d: %s  lines %d-%d  [%s]   vars: %s *)" % (i, F.qual, F.lines[0], F.lines[1], F.kind,
                                                                  ", ".join("%d=%s" % (v, k) for k, v in inv)))
        body = []
        for s in F.body:
            if s[0] == "Bind":
                body.append("Bind %d %s" % (s[1], rhs(s[2])))
            else:
                body.append("%s %d" % (s[0], s[1]))
        out.append("Definition %s : fundef := mkFun %s %d [%s]\n  [%s]." % (
            ident, coq_str(F.qual), F.nparams, "; ".join(str(w) for w in F.writable), ";\n   ".join(body)))
        out.append("")
    out.append("Definition program : prog := [%s]." % "; ".join(names))
    out.append("")
    for kind in ("kernel", "wrapper", "closure", "initialiser", "method", "layer"):
        out.append("Definition %s_names : list string := [%s]." % (kind, "; ".join(coq_str(F.qual) for F in funs if F.kind == kind)))
    out.append("")
    out.append("(* names of the parameters each function may update in place (its f_writable), for the statement `only gradient buffers` *)")
    out.append("Definition writable_names : list (string * list string) := [%s]." % ";\n  ".join(
        "(%s, [%s])" % (coq_str(F.qual), "; ".join(coq_str(n) for n, v in sorted(F.vars.items(), key=lambda kv: kv[1]) if v in F.writable))
        for F in funs if F.writable))
    out.append("")
    for F in funs:
        if F.qual == "tensor.Tensor.backward":
            out.append("(* IR parameters of Tensor.backward, in order *)")
            out.append("Definition backward_layout : list string := [%s]." % "; ".join(coq_str(p + f) for p, f in F.arg_layout()))
            out.append("")
    out.append("(* every `<t>._grad op= ...` of the closure is guarded by exactly `<t>.requires_grad` (the LIVE flag, read when backward runs) *)")
    out.append("Definition closure_guards_live : list (string * bool) := [%s]." % ";\n  ".join(
        "(%s, %s)" % (coq_str(q), "true" if b else "false") for q, b in translate_all.live_guards))
    out.append("(* Tensor.backward: child buffers are created / re-zeroed only under `child.requires_grad and ...`; a root that does not require grad is refused *)")
    out.append("Definition walk_zeroes_only_requiring : bool := %s." % ("true" if translate_all.walk_flag else "false"))
    out.append("")
    out.append("(* Tensor.__init__: `self._children = children if req_grad else ()` with `req_grad = requires_grad and gradient__` *)")
    out.append("Definition untracked_results_keep_no_children : bool := %s." % ("true" if translate_all.children_flag else "false"))
    out.append("")
    out.append("(* census of statements that change tensor data / gradient buffers, whole package: (module, function, kind, line) *)")
    out.append("Definition mutator_census : list census_row := [")
    out.append(";\n".join("  (%s, %s, %s, %d)   (* %s : %s *)" % (coq_str(r["module"]), coq_str(r["function"]), coq_str(r["kind"]),
                                                       r["line"], r["target"].replace("*)", "* )"), r["category"]) for r in rows).replace(")   (*", ")   (*") )
    out.append("].")
    return "\n".join(out) + "\n"


@register("effects")
def generate():
    funs, used_np, used_methods = translate_all()
    rows = census()
    for r in rows:
        r["category"] = categorize(r)
    text = emit(funs, rows)
    common.write_if_changed(os.path.join(common.COQ, "Gen", "GenEffects.v"), text)
    os.makedirs(os.path.join(common.ROOT, "work"), exist_ok=True)
    dump = {"functions": [{"qual": F.qual, "kind": F.kind, "nparams": F.nparams, "writable": F.writable, "vars": F.vars,
                           "params": F.params, "tensorish": sorted(F.tensorish), "layout": F.arg_layout(),
                           "body": F.body, "lines": F.lines} for F in funs],
            "used_np": used_np, "used_methods": used_methods, "census": rows}
    json.dump(dump, open(os.path.join(common.ROOT, "work", "effects.json"), "w"), indent=1)
    return dump
