"""py2coq driver: regenerate coq/Gen/*.v from /repo's working tree.  `python -m lib.py2coq.main all|<name>...`"""
import sys

GENERATORS = {}

def register(name):
    def deco(f):
        GENERATORS[name] = f
        return f
    return deco

def load():
    import importlib, pkgutil, os
    here = os.path.dirname(__file__)
    for m in pkgutil.iter_modules([here]):
        if m.name.startswith("gen_"):
            importlib.import_module("lib.py2coq." + m.name)

def main(argv):
    load()
    names = list(GENERATORS) if (not argv or argv == ["all"]) else argv
    rc = 0
    for n in names:
        try:
            GENERATORS[n]()
        except Exception as ex:
            print("py2coq %s: %r" % (n, ex), file=sys.stderr)
            rc = 1
    return rc

if __name__ == "__main__":
    sys.exit(main(sys.argv[1:]))
