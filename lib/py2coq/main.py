"""py2coq driver: regenerate coq/Gen/*.v from /repo's working tree.  `python -m lib.py2coq.main all|<name>...`

Generators are modules lib/py2coq/gen_*.py that decorate a zero-argument function with @register(name)."""
import sys

GENERATORS = {}


def register(name):
    def deco(f):
        GENERATORS[name] = f
        return f
    return deco


def load():
    import importlib, pkgutil, os
    here = os.path.dirname(__file__)
    for m in pkgutil.iter_modules([here]):
        if m.name.startswith("gen_"):
            importlib.import_module("lib.py2coq." + m.name)


def run(names=None):
    """Run the named generators (all if None). Returns {name: None | exception}."""
    from lib.py2coq import main as M      # the registry lives in the imported module, not in __main__
    M.load()
    res = {}
    for n in (names or sorted(M.GENERATORS)):
        try:
            M.GENERATORS[n]()
            res[n] = None
        except Exception as ex:
            res[n] = ex
    return res


if __name__ == "__main__":
    argv = sys.argv[1:]
    r = run(None if (not argv or argv == ["all"]) else argv)
    for n, ex in r.items():
        if ex is not None:
            print("py2coq %s: %r" % (n, ex), file=sys.stderr)
    sys.exit(1 if any(ex is not None for ex in r.values()) else 0)
