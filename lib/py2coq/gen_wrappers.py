"""py2coq: wrapper summaries.  functional.py and nn/functional.py -> coq/Gen/GenWrappers.v

Every op wrapper of synapgrad has the same skeleton:

    <argument checks / raises>
    out_data = cpu_ops.<kernel>_forward(<operand data>, <args>)
    inputs = (<tensor operands>)                       (several syntactic forms)
    req_grad = any(inp.requires_grad for inp in inputs)   | x.requires_grad
    out = Tensor(out_data, children=<inputs>, requires_grad=<req_grad>, operation=...)
    def backward(): grad_output = out.grad; <kernel call>; if x.requires_grad: x._grad += <piece> ...
    if out.requires_grad: out.grad_fn = BackwardFunction(backward, out._operation)
    return out

The translator extracts, fail-closed (anything it does not recognise raises Untranslatable), one summary per
wrapper: operand names (required / optional), children, the requires_grad expression, whether the closure is
attached exactly under `out.requires_grad`, every gradient accumulation (target, operator, guard), the kernels
called in forward/backward with their argument expressions (as text), and the names the closure writes.
The summaries are data; their meaning is given by coq/IR/Wrappers.v, and they are validated against the
observed behaviour of the real wrappers by checks/wrappers.py.
"""
import ast, os
from lib import common
from lib.py2coq.main import register


class Untranslatable(Exception):
    pass


SOURCES = [("functional", "synapgrad/functional.py"), ("nn.functional", "synapgrad/nn/functional.py")]


def U(n):
    return ast.unparse(n)


def is_attr(n, base, attr):
    return isinstance(n, ast.Attribute) and n.attr == attr and isinstance(n.value, ast.Name) and (base is None or n.value.id == base)


def tensor_params(fn):
    """names checked with isinstance(<name>, Tensor) (operands), and list-operands (isinstance(x, list))"""
    req, opt, lst = [], [], []
    for st in fn.body:
        if not isinstance(st, ast.If):
            continue
        t = st.test
        # if not isinstance(x, Tensor): raise
        if isinstance(t, ast.UnaryOp) and isinstance(t.op, ast.Not) and isinstance(t.operand, ast.Call) and U(t.operand.func) == "isinstance":
            name = U(t.operand.args[0]); ty = U(t.operand.args[1])
            if ty == "Tensor":
                req.append(name)
        # if bias is not None and (not isinstance(bias, Tensor)): raise
        elif isinstance(t, ast.BoolOp) and isinstance(t.op, ast.And) and len(t.values) == 2:
            a, b = t.values
            if isinstance(a, ast.Compare) and isinstance(a.ops[0], ast.IsNot) and isinstance(b, ast.UnaryOp) and isinstance(b.operand, ast.Call) and U(b.operand.func) == "isinstance":
                name = U(b.operand.args[0])
                if U(b.operand.args[1]) == "Tensor":
                    opt.append(name)
            elif U(t).startswith("not isinstance(x, list) and not isinstance(x, tuple)") or U(t) == "not isinstance(x, list) and (not isinstance(x, tuple))":
                lst.append("x")
    return req, opt, lst


def summarize(modname, fn):
    req_params, opt_params, list_params = tensor_params(fn)
    s = {"module": modname, "name": fn.name, "lines": (fn.lineno, fn.end_lineno),
         "required": req_params, "optional": opt_params, "list": list_params}
    backward = None
    out_name = None
    tensor_call = None
    multi = False
    inputs_forms = []        # how `inputs` is defined
    req_expr = None
    attach = []
    fwd_kernels = []
    returns = []
    for st in fn.body:
        if isinstance(st, ast.FunctionDef):
            if st.name != "backward":
                raise Untranslatable("%s: nested function %s" % (fn.name, st.name))
            backward = st
        elif isinstance(st, ast.Assign) and len(st.targets) == 1:
            tgt = U(st.targets[0])
            v = st.value
            if isinstance(v, ast.Call) and U(v.func) == "Tensor":
                out_name, tensor_call = tgt, v
            elif isinstance(v, ast.Call) and U(v.func) == "tuple" and isinstance(v.args[0], ast.GeneratorExp) and isinstance(v.args[0].elt, ast.Call) and U(v.args[0].elt.func) == "Tensor":
                out_name, tensor_call, multi = tgt, v.args[0].elt, True
            elif tgt == "inputs":
                inputs_forms.append(("assign", U(v)))
            elif tgt == "req_grad":
                req_expr = U(v)
        elif isinstance(st, ast.AugAssign) and U(st.target) == "inputs":
            inputs_forms.append(("aug", U(st.value)))
        elif isinstance(st, ast.If):
            # conditional definitions of inputs, attach statement, argument checks (raise)
            txt = U(st.test)
            for sub in ast.walk(st):
                if isinstance(sub, ast.Assign) and U(sub.targets[0]) == "inputs":
                    inputs_forms.append(("cond:" + txt, U(sub.value)))
                if isinstance(sub, ast.AugAssign) and U(sub.target) == "inputs":
                    inputs_forms.append(("condaug:" + txt, U(sub.value)))
                if isinstance(sub, ast.Assign) and isinstance(sub.targets[0], ast.Attribute) and sub.targets[0].attr == "grad_fn":
                    attach.append((txt, U(sub.targets[0].value), U(sub.value)))
        elif isinstance(st, ast.For):
            for sub in ast.walk(st):
                if isinstance(sub, ast.If):
                    for a in sub.body:
                        if isinstance(a, ast.Assign) and isinstance(a.targets[0], ast.Attribute) and a.targets[0].attr == "grad_fn":
                            attach.append((U(sub.test), U(a.targets[0].value), U(a.value)))
        elif isinstance(st, ast.Return):
            returns.append(U(st.value))
        for sub in ast.walk(st) if not isinstance(st, ast.FunctionDef) else []:
            if isinstance(sub, ast.Call) and isinstance(sub.func, ast.Attribute) and isinstance(sub.func.value, ast.Name) and sub.func.value.id in ("cpu_ops", "conv_tools"):
                fwd_kernels.append((sub.func.value.id + "." + sub.func.attr, [U(a) for a in sub.args] + ["%s=%s" % (k.arg, U(k.value)) for k in sub.keywords]))
    if backward is None or tensor_call is None:
        raise Untranslatable("%s: no backward closure / Tensor construction" % fn.name)
    # exactly one exit, returning the freshly constructed result (a wrapper that can return anything else -
    # an operand, a cached tensor - escapes the summary)
    all_returns = []

    def collect_returns(nodes):
        for n in nodes:
            if isinstance(n, ast.FunctionDef):
                continue
            if isinstance(n, ast.Return):
                all_returns.append(n)
            for fld in ("body", "orelse", "finalbody", "handlers"):
                sub = getattr(n, fld, None)
                if isinstance(sub, list):
                    collect_returns(sub)
    collect_returns(fn.body)
    if len(all_returns) != 1 or not isinstance(fn.body[-1], ast.Return) or U(all_returns[0].value) != out_name:
        raise Untranslatable("%s: expected a single `return %s` at the end, found %s" % (fn.name, out_name, [U(r.value) if r.value else None for r in all_returns]))
    kw = {k.arg: U(k.value) for k in tensor_call.keywords}
    for need in ("children", "requires_grad", "operation"):
        if need not in kw:
            raise Untranslatable("%s: Tensor(...) lacks %s" % (fn.name, need))
    s["out"] = out_name
    s["multi"] = multi
    s["children_expr"] = kw["children"]
    s["requires_expr"] = kw["requires_grad"]
    s["req_grad_def"] = req_expr
    s["inputs_forms"] = inputs_forms
    s["returns"] = returns
    s["fwd_kernels"] = fwd_kernels

    # ---- resolve children ------------------------------------------------------------------
    kids_req, kids_opt, kids_list = [], [], []
    ce = kw["children"]
    if ce == "inputs":
        for form, val in inputs_forms:
            names = None
            if val.startswith("tuple(") and val.endswith(")"):
                kids_list.append(val[6:-1]); continue
            t = ast.parse(val, mode="eval").body
            if isinstance(t, ast.Tuple) and all(isinstance(e, ast.Name) for e in t.elts):
                names = [e.id for e in t.elts]
            else:
                raise Untranslatable("%s: inputs = %s" % (fn.name, val))
            if form == "assign":
                kids_req += [n for n in names if n not in kids_req]
            elif form == "aug":
                raise Untranslatable("%s: unconditional inputs += %s" % (fn.name, val))
            elif form.startswith("cond:"):
                cond = form[5:]
                # `if bias: inputs = (x, weight, bias) else: inputs = (x, weight)`
                for n in names:
                    if n == cond:
                        if n not in kids_opt:
                            kids_opt.append(n)
                    elif n not in kids_req:
                        kids_req.append(n)
            elif form.startswith("condaug:"):
                cond = form[8:]
                if len(names) == 1 and cond == "%s is not None" % names[0]:
                    kids_opt.append(names[0])
                else:
                    raise Untranslatable("%s: %s" % (fn.name, form))
    else:
        t = ast.parse(ce, mode="eval").body
        if isinstance(t, ast.Tuple) and all(isinstance(e, ast.Name) for e in t.elts):
            kids_req = [e.id for e in t.elts]
        else:
            raise Untranslatable("%s: children=%s" % (fn.name, ce))
    s["kids_required"], s["kids_optional"], s["kids_list"] = kids_req, kids_opt, kids_list

    # ---- requires_grad expression -------------------------------------------------------------
    re_ = kw["requires_grad"]
    if re_ == "req_grad":
        re_ = req_expr or ""
    norm = re_.replace("[", "").replace("]", "")
    if norm in ("any((inp.requires_grad for inp in inputs))", "any(inp.requires_grad for inp in inputs)") and ce == "inputs":
        s["req_any_children"] = True
    elif norm in ("any((t.requires_grad for t in x))", "any(t.requires_grad for t in x)") and kids_list == ["x"]:
        s["req_any_children"] = True
    elif len(kids_req) == 1 and not kids_opt and not kids_list and re_ == "%s.requires_grad" % kids_req[0]:
        s["req_any_children"] = True
    else:
        s["req_any_children"] = False
        s["req_odd"] = re_

    # ---- attach -----------------------------------------------------------------------------------
    ok_attach = False
    if len(attach) == 1:
        test, tgt, val = attach[0]
        if not multi and tgt == out_name and test == "%s.requires_grad" % out_name and val.startswith("BackwardFunction(backward, %s._operation" % out_name):
            ok_attach = True
        if multi and test == "o.requires_grad" and tgt == "o" and val.startswith("BackwardFunction(backward, o._operation, i"):
            ok_attach = True
    s["attach_ok"] = ok_attach
    s["attach_raw"] = attach

    # ---- the closure ---------------------------------------------------------------------------------
    accs = []
    bwd_kernels = []
    writes = []
    reads_out_grad = False
    for sub in ast.walk(backward):
        if isinstance(sub, ast.Call) and isinstance(sub.func, ast.Attribute) and isinstance(sub.func.value, ast.Name) and sub.func.value.id in ("cpu_ops", "conv_tools"):
            bwd_kernels.append((sub.func.value.id + "." + sub.func.attr, [U(a) for a in sub.args] + ["%s=%s" % (k.arg, U(k.value)) for k in sub.keywords]))
        if isinstance(sub, ast.Assign) and U(sub.targets[0]) == "grad_output":
            src = U(sub.value)
            if src in ("%s.grad" % out_name, "%s[out_index].grad" % out_name):
                reads_out_grad = True
        if isinstance(sub, (ast.Assign, ast.AugAssign)):
            tg = sub.targets[0] if isinstance(sub, ast.Assign) else sub.target
            for node in ast.walk(tg):
                if isinstance(node, ast.Attribute) and isinstance(node.ctx, ast.Store):
                    writes.append(U(node))
                if isinstance(node, ast.Subscript) and isinstance(node.ctx, ast.Store):
                    writes.append(U(node))

    def scan(stmts, loopvar=None):
        for st in stmts:
            if isinstance(st, ast.If):
                # a gradient accumulation guarded by a condition
                done = False
                if len(st.body) == 1 and not st.orelse and isinstance(st.body[0], (ast.AugAssign, ast.Assign)):
                    a = st.body[0]
                    tg = a.target if isinstance(a, ast.AugAssign) else a.targets[0]
                    if isinstance(tg, ast.Attribute) and tg.attr == "_grad" and isinstance(tg.value, ast.Name):
                        who = tg.value.id
                        op = {ast.Add: "+=", ast.Sub: "-="}.get(type(a.op), "?") if isinstance(a, ast.AugAssign) else "="
                        test = U(st.test)
                        own = test in ("%s.requires_grad" % who, "%s and %s.requires_grad" % (who, who), "%s is not None and %s.requires_grad" % (who, who))
                        accs.append({"target": who, "op": op, "guard": test, "guard_own": own, "value": U(a.value), "loop": loopvar})
                        done = True
                if not done:
                    scan(st.body, loopvar); scan(st.orelse, loopvar)
            elif isinstance(st, ast.For):
                scan(st.body, U(st.target) + " in " + U(st.iter))
            elif isinstance(st, (ast.AugAssign, ast.Assign)):
                tg = st.target if isinstance(st, ast.AugAssign) else st.targets[0]
                if isinstance(tg, ast.Attribute) and tg.attr == "_grad":
                    accs.append({"target": U(tg.value), "op": "unguarded", "guard": "", "guard_own": False, "value": U(st.value), "loop": loopvar})
    scan(backward.body)
    s["accs"] = accs
    s["bwd_kernels"] = bwd_kernels
    s["closure_writes"] = sorted(set(writes))
    s["reads_out_grad"] = reads_out_grad
    s["closure_args"] = [a.arg for a in backward.args.args]
    return s


def extract_all():
    res = []
    for modname, rel in SOURCES:
        path = os.path.join(common.REPO, rel)
        tree = ast.parse(open(path).read())
        for st in tree.body:
            if isinstance(st, ast.FunctionDef):
                res.append(summarize(modname, st))
            elif isinstance(st, ast.ClassDef):
                if st.name != "BackwardFunction":
                    raise Untranslatable("%s: unexpected class %s" % (rel, st.name))
            elif isinstance(st, (ast.Import, ast.ImportFrom, ast.Expr)):
                continue
            else:
                raise Untranslatable("%s:%d unexpected top-level %s" % (rel, st.lineno, type(st).__name__))
    return res


def coq_str(s):
    return '"%s"' % s.replace('"', "'")


def coq_list(xs):
    return "[" + "; ".join(xs) + "]"


# operands that are labels / targets of asymmetric losses: not differentiable inputs of the API
LABEL_OPERANDS = {("nn.functional", "nll_loss"): ["y_true"], ("nn.functional", "cross_entropy"): ["y_true"],
                  ("nn.functional", "binary_cross_entropy"): ["y_true"], ("nn.functional", "binary_cross_entropy_with_logits"): ["y_true"]}


def emit(summaries):
    out = ["(* GENERATED by lib/py2coq/gen_wrappers.py from synapgrad/functional.py and synapgrad/nn/functional.py. DO NOT EDIT. *)",
           "From Coq Require Import List String Bool.", "Import ListNotations.", "Open Scope string_scope.",
           "From SG Require Import IR.Wrappers.", ""]
    names = []
    for s in summaries:
        ident = "w_" + s["module"].replace(".", "_") + "_" + s["name"]
        names.append(ident)
        accs = []
        for a in s["accs"]:
            tgt = a["target"]
            if a["loop"]:
                tgt = "*" + (s["kids_list"][0] if s["kids_list"] else "inputs")   # every element of the list operand
            op = {"+=": "AccAdd", "-=": "AccSub", "=": "AccAssign"}.get(a["op"], "AccOther")
            accs.append("mkAcc %s %s %s" % (coq_str(tgt), op, "true" if a["guard_own"] or (a["loop"] and a["guard"] in ("inp.requires_grad",)) else "false"))
        labels = LABEL_OPERANDS.get((s["module"], s["name"]), [])
        out.append("(* %s.%s : lines %d-%d *)" % (s["module"], s["name"], s["lines"][0], s["lines"][1]))
        out.append("Definition %s : wsum := mkW %s %s %s %s %s %s %s %s %s %s." % (
            ident, coq_str(s["module"] + "." + s["name"]),
            coq_list([coq_str(k) for k in s["kids_required"]]),
            coq_list([coq_str(k) for k in s["kids_optional"]]),
            coq_list([coq_str("*" + k) for k in s["kids_list"]]),
            "true" if s["req_any_children"] else "false",
            "true" if s["attach_ok"] else "false",
            "true" if s["reads_out_grad"] else "false",
            coq_list(accs),
            coq_list([coq_str(k) for k in labels]),
            "true" if s["multi"] else "false"))
        out.append("")
    out.append("Definition wrappers : list wsum := %s." % coq_list(names))
    return "\n".join(out) + "\n"


@register("wrappers")
def generate():
    summaries = extract_all()
    text = emit(summaries)
    common.write_if_changed(os.path.join(common.COQ, "Gen", "GenWrappers.v"), text)
    import json
    os.makedirs(os.path.join(common.ROOT, "work"), exist_ok=True)
    json.dump(summaries, open(os.path.join(common.ROOT, "work", "wrappers.json"), "w"), indent=1)
    return summaries
