"""py2coq target `kernels`: the pure elementwise (scalar) kernels of synapgrad/cpu_ops.py, what the
wrappers of functional.py / nn/functional.py hand to them, and the operator overloads of Tensor.

   Gen/GenKernels.v     one Definition over R per elementwise function of cpu_ops.py (Tier A, DESIGN 4)
   Gen/GenExprs.v       the same kernels as Analysis/Expr.v terms + eval_correct (reflexivity) + wf
   Gen/GenKernelUse.v   per wrapper: which kernel receives grad / the input / the *output* / a parameter,
                        the composite the wrapper computes (wrap_<op>_out, wrap_<op>_grad_<input>) and the
                        accumulation sign (+= / -=)
   Gen/GenOverloads.v   Tensor.__sub__/__truediv__/__neg__/... as terms over abstract add/mul/pow/rpow

Fail-closed: an AST construct outside the whitelist makes that function untranslatable; it is then
listed in the `skipped` comment.  The kernels/wrappers/overloads in REQUIRED_* must translate, else
the generator raises.
"""
import ast, os
from decimal import Decimal
from fractions import Fraction

from lib import common
from lib.py2coq.main import register
from lib.py2coq import expr as X
from lib.py2coq.expr import Untranslatable, Kernel

REQUIRED_KERNELS = [p + s for p in ("add", "mul", "neg", "pow", "rpow", "exp", "log", "sqrt", "clone",
                                    "relu", "leaky_relu", "selu", "tanh", "sigmoid",
                                    "mse_loss", "bce_loss", "bce_with_logits_loss")
                    for s in ("_forward", "_backward")]
REQUIRED_WRAPPERS = ["add", "mul", "pow", "rpow", "neg", "clone", "exp", "log", "sqrt",
                     "relu", "leaky_relu", "selu", "tanh", "sigmoid",
                     "mse_loss", "binary_cross_entropy", "binary_cross_entropy_with_logits"]
REQUIRED_OVERLOADS = ["__add__", "__mul__", "__pow__", "__rpow__", "__neg__", "__radd__", "__sub__", "__rsub__",
                      "__rmul__", "__truediv__", "__rtruediv__"]

NP_FN = {'exp': 'exp', 'log': 'ln', 'sqrt': 'sqrt', 'tanh': 'tanh', 'abs': 'abs', 'absolute': 'abs',
         'maximum': 'max', 'minimum': 'min'}
CMP = {ast.Gt: 'gt', ast.GtE: 'ge', ast.Lt: 'lt', ast.LtE: 'le', ast.Eq: 'eq', ast.NotEq: 'ne'}
BIN = {ast.Add: '+', ast.Sub: '-', ast.Mult: '*', ast.Div: '/'}


def repo_file(rel):
    return os.path.join(os.environ.get("VERIF_REPO", common.REPO), rel)


def literal(node, src, file):
    """numeric literal -> exact Fraction of the decimal text as written"""
    v = node.value
    if isinstance(v, bool) or not isinstance(v, (int, float)):
        raise Untranslatable(file, node.lineno, "constant %r" % (v,))
    if isinstance(v, int):
        return Fraction(v)
    text = ast.get_source_segment(src, node)
    try:
        fr = Fraction(Decimal(text.replace("_", "")))
    except Exception:
        raise Untranslatable(file, node.lineno, "float literal %r" % text)
    if float(fr) != v:
        raise Untranslatable(file, node.lineno, "float literal %r does not round to its value" % text)
    return fr


def const_int(node):
    """literal integer exponent (possibly negated)"""
    if isinstance(node, ast.Constant) and isinstance(node.value, int) and not isinstance(node.value, bool):
        return node.value
    if isinstance(node, ast.UnaryOp) and isinstance(node.op, ast.USub):
        k = const_int(node.operand)
        return None if k is None else -k
    return None


# ================================================================================================
# cpu_ops.py
class KernelTranslator:
    def __init__(self, path):
        self.path = path
        self.file = os.path.relpath(path, os.environ.get("VERIF_REPO", common.REPO))
        self.src = open(path).read()
        self.tree = ast.parse(self.src)
        self.consts = {}
        self.kernels = {}          # name -> Kernel, in source order
        self.skipped = []          # (name, line, reason)

    def run(self):
        for st in self.tree.body:
            if isinstance(st, ast.Assign) and len(st.targets) == 1 and isinstance(st.targets[0], ast.Name) \
                    and isinstance(st.value, ast.Constant) and isinstance(st.value.value, (int, float)) \
                    and not isinstance(st.value.value, bool):
                self.consts[st.targets[0].id] = literal(st.value, self.src, self.file)
        for fn in self.tree.body:
            if not isinstance(fn, ast.FunctionDef):
                continue
            try:
                self.kernels[fn.name] = self.function(fn)
            except Untranslatable as u:
                self.skipped.append((fn.name, u.line, u.construct))
        missing = [k for k in REQUIRED_KERNELS if k not in self.kernels]
        if missing:
            why = {n: (l, c) for n, l, c in self.skipped}
            raise Untranslatable(self.file, why.get(missing[0], ("?", ""))[0],
                                 "required elementwise kernel(s) %s: %s" % (missing, {m: why.get(m) for m in missing}))
        return self

    # -- one function -------------------------------------------------------------------------------
    def function(self, fn):
        a = fn.args
        if a.vararg or a.kwarg or a.kwonlyargs or a.posonlyargs or a.defaults:
            raise Untranslatable(self.file, fn.lineno, "parameter list of %s" % fn.name)
        params = [p.arg for p in a.args]
        self.elided = set()
        self.notes = []
        scope = set(params)
        body = [s for s in fn.body if not (isinstance(s, ast.Expr) and isinstance(s.value, ast.Constant) and isinstance(s.value.value, str))]
        if not body or not isinstance(body[-1], ast.Return) or body[-1].value is None:
            raise Untranslatable(self.file, fn.lineno, "function without a final return value")
        lets = []
        for s in body[:-1]:
            if isinstance(s, ast.Assign) and len(s.targets) == 1 and isinstance(s.targets[0], ast.Name):
                lets.append((s.targets[0].id, self.expr(s.value, scope)))
                scope.add(s.targets[0].id)
            else:
                raise Untranslatable(self.file, s.lineno, "statement %s" % type(s).__name__)
        rv = body[-1].value
        rets = list(rv.elts) if isinstance(rv, ast.Tuple) else [rv]
        outs = []
        for r in rets:
            e = self.expr(r, scope)
            for v, d in reversed(lets):
                e = ('let', v, d, e)
            outs.append(e)
        used = set()
        for e in outs:
            used |= X.free_vars(e)
        dropped = [p for p in params if p not in used and p in self.elided]
        kept = [p for p in params if p not in dropped]
        return Kernel(fn.name, kept, outs, (fn.lineno, fn.end_lineno), self.file, dropped=dropped, note="; ".join(dict.fromkeys(self.notes)))

    # -- expressions ----------------------------------------------------------------------------------
    def shape_like(self, n):
        """an argument that only carries a shape / dtype: a name, x.shape, x.dtype"""
        if isinstance(n, ast.Name):
            self.elided.add(n.id); return True
        if isinstance(n, ast.Attribute) and isinstance(n.value, ast.Name) and n.attr in ("shape", "dtype"):
            self.elided.add(n.value.id); return True
        return False

    def expr(self, n, scope):
        U = lambda what: Untranslatable(self.file, getattr(n, "lineno", "?"), what)
        if isinstance(n, ast.Constant):
            return ('num', literal(n, self.src, self.file))
        if isinstance(n, ast.Name):
            if n.id in scope:
                return ('var', n.id)
            if n.id in self.consts:
                return ('const', n.id)
            raise U("name %s" % n.id)
        if isinstance(n, ast.UnaryOp) and isinstance(n.op, ast.USub):
            if isinstance(n.operand, ast.Constant):
                return ('num', -literal(n.operand, self.src, self.file))
            return ('neg', self.expr(n.operand, scope))
        if isinstance(n, ast.BinOp):
            if type(n.op) in BIN:
                return ('bin', BIN[type(n.op)], self.expr(n.left, scope), self.expr(n.right, scope))
            if isinstance(n.op, ast.Pow):
                k = const_int(n.right)
                if k is not None:
                    return ('powi', self.expr(n.left, scope), k)
                return ('gpow', self.expr(n.left, scope), self.expr(n.right, scope))
            raise U("operator %s" % type(n.op).__name__)
        if isinstance(n, ast.Compare):
            if len(n.ops) != 1 or type(n.ops[0]) not in CMP:
                raise U("comparison")
            return ('cmp', CMP[type(n.ops[0])], self.expr(n.left, scope), self.expr(n.comparators[0], scope))
        if isinstance(n, ast.Call):
            f = n.func
            if isinstance(f, ast.Attribute) and isinstance(f.value, ast.Name) and f.value.id == 'np':
                if f.attr in NP_FN:
                    name = NP_FN[f.attr]
                    if n.keywords or len(n.args) != X.FNS[name][1]:
                        raise U("np.%s call shape" % f.attr)
                    return ('fn', name, [self.expr(a, scope) for a in n.args])
                if f.attr == 'where':
                    if n.keywords or len(n.args) != 3:
                        raise U("np.where call shape")
                    c = self.expr(n.args[0], scope)
                    if c[0] != 'cmp':
                        raise U("np.where condition that is not a comparison")
                    return ('where', c, self.expr(n.args[1], scope), self.expr(n.args[2], scope))
                if f.attr == 'asarray':
                    # np.asarray(c, dtype=<name>.dtype): the constant c taken in the dtype of an array -- over R the identity embedding of c
                    if len(n.args) != 1 or len(n.keywords) != 1 or n.keywords[0].arg != 'dtype':
                        raise U("np.asarray call shape")
                    d = n.keywords[0].value
                    if not (isinstance(d, ast.Attribute) and d.attr == 'dtype' and isinstance(d.value, ast.Name) and d.value.id in scope):
                        raise U("np.asarray dtype argument (must be <name>.dtype)")
                    if not (isinstance(n.args[0], ast.Constant) or (isinstance(n.args[0], ast.Name) and n.args[0].id in self.consts)):
                        raise U("np.asarray of something that is not a constant")
                    self.notes.append("np.asarray(c, dtype=x.dtype) read as c")
                    return self.expr(n.args[0], scope)
                if f.attr == 'ones':
                    # np.ones(shape, dtype=...) * grad : in the same-shape (scalar) reading this is the constant 1
                    if len(n.args) != 1 or not self.shape_like(n.args[0]) or any(k.arg != 'dtype' or not self.shape_like(k.value) for k in n.keywords):
                        raise U("np.ones call shape")
                    self.notes.append("np.ones(shape) read as 1")
                    return ('num', Fraction(1))
                raise U("np.%s" % f.attr)
            if isinstance(f, ast.Name) and f.id == 'unbroadcast':
                # unbroadcast(g, shape) sums g back to `shape`; it is the identity when the shapes agree, which is
                # the scalar reading.  (The summation itself is the gather/scatter family of C01, not this package.)
                if n.keywords or len(n.args) != 2 or not self.shape_like(n.args[1]):
                    raise U("unbroadcast call shape")
                self.notes.append("unbroadcast(_, shape) read as the identity (same-shape operands)")
                return self.expr(n.args[0], scope)
            if isinstance(f, ast.Attribute) and f.attr == 'copy' and not n.args and not n.keywords:
                self.notes.append(".copy() read as the identity")
                return self.expr(f.value, scope)
            if isinstance(f, ast.Name) and f.id in self.kernels:
                k = self.kernels[f.id]
                if n.keywords or len(n.args) != len(k.params) + len(k.dropped) or len(k.outs) != 1 or k.dropped:
                    raise U("call of %s" % f.id)
                return ('call', f.id, [self.expr(a, scope) for a in n.args], 0)
            raise U("call %s" % ast.dump(f)[:80])
        raise U(type(n).__name__)


# ================================================================================================
# wrappers of functional.py / nn/functional.py
class Wrapper:
    def __init__(self, name, file, lines):
        self.name, self.file, self.lines = name, file, lines
        self.inputs = []       # tensor parameters, in order
        self.params = []       # scalar parameters (function arguments that are not tensors)
        self.locals = {}       # local numeric constants (F.selu's alpha/scale): name -> Fraction
        self.fwd = None        # (kernel, [use])
        self.bwd = None        # (kernel, [use])
        self.accum = []        # (input, '+' | '-', output index of the backward kernel)
        # use = ('grad',) | ('in', name) | ('out',) | ('param', name) | ('local', name) | ('shape', name)


class WrapperTranslator:
    def __init__(self, path, kernels):
        self.path = path
        self.file = os.path.relpath(path, os.environ.get("VERIF_REPO", common.REPO))
        self.src = open(path).read()
        self.tree = ast.parse(self.src)
        self.kernels = kernels
        self.wrappers = {}
        self.skipped = []

    def run(self):
        for fn in self.tree.body:
            if not isinstance(fn, ast.FunctionDef):
                continue
            calls = [c for c in ast.walk(fn) if isinstance(c, ast.Call) and isinstance(c.func, ast.Attribute)
                     and isinstance(c.func.value, ast.Name) and c.func.value.id == 'cpu_ops']
            if not calls:
                continue
            try:
                self.wrappers[fn.name] = self.function(fn)
            except Untranslatable as u:
                self.skipped.append((fn.name, u.line, u.construct))
        return self

    def U(self, n, what):
        return Untranslatable(self.file, getattr(n, "lineno", "?"), what)

    def cpu_call(self, value):
        if isinstance(value, ast.Call) and isinstance(value.func, ast.Attribute) and isinstance(value.func.value, ast.Name) \
                and value.func.value.id == 'cpu_ops' and not value.keywords:
            return value.func.attr, value.args
        return None

    def device_if(self, st):
        """`if <x>.device == Device.CPU: <one assignment> else: raise` -> the assignment"""
        if isinstance(st, ast.If) and isinstance(st.test, ast.Compare) and len(st.body) == 1 and isinstance(st.body[0], ast.Assign) \
                and len(st.orelse) == 1 and isinstance(st.orelse[0], ast.Raise) \
                and isinstance(st.test.left, ast.Attribute) and st.test.left.attr == 'device':
            return st.body[0]
        return None

    def function(self, fn):
        w = Wrapper(fn.name, self.file, (fn.lineno, fn.end_lineno))
        args = [a.arg for a in fn.args.args]
        if fn.args.vararg or fn.args.kwarg or fn.args.kwonlyargs:
            raise self.U(fn, "parameter list")
        out_data = out_var = None
        backward = None
        for st in fn.body:
            if isinstance(st, ast.Expr) and isinstance(st.value, ast.Constant):
                continue
            if isinstance(st, ast.If) and all(isinstance(b, ast.Raise) for b in st.body) and not st.orelse:
                continue                                               # argument validation
            if isinstance(st, ast.Assign) and len(st.targets) == 1 and isinstance(st.targets[0], ast.Name):
                t, v = st.targets[0].id, st.value
                if isinstance(v, ast.Constant) and isinstance(v.value, (int, float)) and not isinstance(v.value, bool):
                    w.locals[t] = literal(v, self.src, self.file); continue
                if isinstance(v, ast.Call) and isinstance(v.func, ast.Name) and v.func.id == 'Tensor':
                    if not (v.args and isinstance(v.args[0], ast.Name) and v.args[0].id == out_data):
                        raise self.U(st, "result tensor not built from the forward kernel's output")
                    out_var = t; continue
                if t in ('inputs', 'req_grad'):
                    continue                                            # requires_grad bookkeeping (C07)
                raise self.U(st, "assignment to %s" % t)
            a = self.device_if(st)
            if a is not None:
                cc = self.cpu_call(a.value)
                if cc is None or len(a.targets) != 1 or not isinstance(a.targets[0], ast.Name):
                    raise self.U(st, "forward call")
                out_data = a.targets[0].id
                w.fwd = (cc[0], [self.use(x, args, w, None, None) for x in cc[1]])
                continue
            if isinstance(st, ast.FunctionDef) and st.name == 'backward' and not st.args.args:
                backward = st; continue
            if isinstance(st, ast.If) and isinstance(st.test, ast.Attribute) and st.test.attr == 'requires_grad' and len(st.body) == 1 \
                    and isinstance(st.body[0], ast.Assign) and isinstance(st.body[0].targets[0], ast.Attribute) and st.body[0].targets[0].attr == 'grad_fn':
                continue
            if isinstance(st, ast.Return) and isinstance(st.value, ast.Name) and st.value.id == out_var:
                continue
            raise self.U(st, "statement %s" % type(st).__name__)
        if w.fwd is None or out_var is None or backward is None:
            raise self.U(fn, "wrapper shape (forward call / result tensor / backward closure)")
        # ---- the closure
        grad_var = None
        results = []
        for st in backward.body:
            if isinstance(st, ast.Assign) and len(st.targets) == 1 and isinstance(st.targets[0], ast.Name) \
                    and isinstance(st.value, ast.Attribute) and st.value.attr == 'grad' and isinstance(st.value.value, ast.Name):
                if st.value.value.id != out_var:
                    raise self.U(st, "upstream gradient read from %s, not from the result %s" % (st.value.value.id, out_var))
                grad_var = st.targets[0].id; continue
            a = self.device_if(st)
            if a is not None:
                cc = self.cpu_call(a.value)
                if cc is None or len(a.targets) != 1:
                    raise self.U(st, "backward call")
                tg = a.targets[0]
                results = [tg.id] if isinstance(tg, ast.Name) else [e.id for e in tg.elts]
                w.bwd = (cc[0], [self.use(x, args, w, grad_var, out_var) for x in cc[1]])
                continue
            if isinstance(st, ast.If) and isinstance(st.test, ast.Attribute) and st.test.attr == 'requires_grad' and isinstance(st.test.value, ast.Name) \
                    and len(st.body) == 1 and isinstance(st.body[0], ast.AugAssign) and not st.orelse:
                au = st.body[0]
                inp = st.test.value.id
                if not (isinstance(au.target, ast.Attribute) and au.target.attr == '_grad' and isinstance(au.target.value, ast.Name)
                        and au.target.value.id == inp and isinstance(au.value, ast.Name) and au.value.id in results
                        and isinstance(au.op, (ast.Add, ast.Sub))):
                    raise self.U(st, "accumulation statement")
                w.accum.append((inp, '+' if isinstance(au.op, ast.Add) else '-', results.index(au.value.id)))
                continue
            raise self.U(st, "closure statement %s" % type(st).__name__)
        if w.bwd is None or grad_var is None:
            raise self.U(backward, "closure shape")
        used_in = []
        for kind in (w.fwd[1], w.bwd[1]):
            for u in kind:
                if u[0] in ('in', 'shape') and u[1] not in used_in:
                    used_in.append(u[1])
        w.inputs = [a for a in args if a in used_in]
        w.params = [a for a in args if a not in used_in]
        for inp, _, _ in w.accum:
            if inp not in w.inputs:
                raise self.U(backward, "accumulation into %s which is not an input" % inp)
        return w

    def use(self, x, args, w, grad_var, out_var):
        if isinstance(x, ast.Attribute) and isinstance(x.value, ast.Name) and x.attr in ('data', 'shape'):
            v = x.value.id
            if x.attr == 'data':
                if v == grad_var and grad_var is not None:
                    return ('grad',)
                if v == out_var and out_var is not None:
                    return ('out',)
                if v in args:
                    return ('in', v)
            elif v in args:
                return ('shape', v)
        if isinstance(x, ast.Name):
            if x.id in w.locals:
                return ('local', x.id)
            if x.id in args:
                return ('param', x.id)
        raise self.U(x, "kernel argument %s" % ast.unparse(x))


def wrapper_ir(w, kernels):
    """IR of what the wrapper computes: out(inputs, params) and, per accumulation, grad_<input>(g, inputs, params)."""
    kf, kb = kernels.get(w.fwd[0]), kernels.get(w.bwd[0])
    if kf is None or kb is None:
        return None

    def args_for(k, uses, out_ir):
        n_all = len(k.params) + len(k.dropped)
        if len(uses) != n_all:
            raise Untranslatable(w.file, w.lines[0], "%s called with %d arguments" % (k.name, len(uses)))
        # positions of dropped (shape-only) parameters are recovered from the kernel's source signature
        res = []
        for pname, u in zip(k.all_params, uses):
            if pname in k.dropped:
                if u[0] not in ('shape',):
                    raise Untranslatable(w.file, w.lines[0], "%s: shape parameter %s receives %s" % (k.name, pname, u))
                continue
            if u[0] == 'shape':
                raise Untranslatable(w.file, w.lines[0], "%s: value parameter %s receives a shape" % (k.name, pname))
            res.append({'grad': ('var', 'g'), 'out': out_ir}.get(u[0]) or
                       (('const', 'wrap_%s_%s' % (w.name, u[1])) if u[0] == 'local' else ('var', u[1])))
        return res
    if len(kf.outs) != 1:
        return None
    out_ir = ('call', kf.name, args_for(kf, w.fwd[1], None), 0)
    formals = w.inputs + w.params
    defs = [("wrap_%s_out" % w.name, formals, out_ir)]
    for inp, sign, idx in w.accum:
        e = ('call', kb.name, args_for(kb, w.bwd[1], out_ir), idx)
        if sign == '-':
            e = ('neg', e)
        defs.append(("wrap_%s_grad_%s" % (w.name, inp), ['g'] + formals, e))
    return defs


# ================================================================================================
# operator overloads of Tensor
class OverloadTranslator:
    OPS = {ast.Add: '__add__', ast.Mult: '__mul__', ast.Sub: '__sub__', ast.Div: '__truediv__', ast.Pow: '__pow__'}
    ROPS = {ast.Add: '__radd__', ast.Mult: '__rmul__', ast.Sub: '__rsub__', ast.Div: '__rtruediv__', ast.Pow: '__rpow__'}
    PRIMS = {'add': 'add', 'mul': 'mul', 'pow': 'pow', 'rpow': 'rpow'}
    P = "add mul pow rpow"

    def __init__(self, path):
        self.path = path
        self.file = os.path.relpath(path, os.environ.get("VERIF_REPO", common.REPO))
        self.src = open(path).read()
        self.tree = ast.parse(self.src)
        self.defs = []       # (method, params, term-text, lines)
        self.skipped = []

    def run(self):
        cls = [c for c in self.tree.body if isinstance(c, ast.ClassDef) and c.name == 'Tensor']
        if len(cls) != 1:
            raise Untranslatable(self.file, 1, "class Tensor")
        names = set(self.OPS.values()) | set(self.ROPS.values()) | {'__neg__', '__matmul__', '__rmatmul__'}
        self.methods = {m.name: m for m in cls[0].body if isinstance(m, ast.FunctionDef) and m.name in names}
        done = {}
        for name in [m.name for m in cls[0].body if isinstance(m, ast.FunctionDef) and m.name in names]:
            try:
                self.method(name, done, [])
            except Untranslatable as u:
                self.skipped.append((name, u.line, u.construct))
        missing = [m for m in REQUIRED_OVERLOADS if m not in done]
        if missing:
            raise Untranslatable(self.file, "?", "required overload(s) %s: %s" % (missing, self.skipped))
        self.defs = [done[k] for k in done]
        self.done = done
        return self

    def method(self, name, done, stack):
        if name in done:
            return
        if name in stack or name not in self.methods:
            raise Untranslatable(self.file, "?", "overload %s (undefined or recursive)" % name)
        m = self.methods[name]
        params = [a.arg for a in m.args.args]
        if params[0] != 'self' or len(params) > 2:
            raise Untranslatable(self.file, m.lineno, "signature of %s" % name)
        body = [s for s in m.body if not (isinstance(s, ast.Expr) and isinstance(s.value, ast.Constant))]
        stmts = []
        coerced = set()
        for s in body:
            if isinstance(s, ast.ImportFrom):
                continue
            # coercion of a number to a constant tensor, either form:
            #   x = x if isinstance(x, Tensor) else Tensor(x, device=self.device)
            #   x = x if isinstance(x, Tensor) else self._wrap_scalar(x)
            if isinstance(s, ast.Assign) and len(s.targets) == 1 and isinstance(s.targets[0], ast.Name) and isinstance(s.value, ast.IfExp) \
                    and isinstance(s.value.body, ast.Name) and s.value.body.id == s.targets[0].id and s.targets[0].id in params \
                    and isinstance(s.value.test, ast.Call) and isinstance(s.value.test.func, ast.Name) and s.value.test.func.id == 'isinstance' \
                    and isinstance(s.value.orelse, ast.Call) and len(s.value.orelse.args) == 1 \
                    and isinstance(s.value.orelse.args[0], ast.Name) and s.value.orelse.args[0].id == s.targets[0].id:
                f = s.value.orelse.func
                if isinstance(f, ast.Name) and f.id == 'Tensor':
                    continue
                if isinstance(f, ast.Attribute) and isinstance(f.value, ast.Name) and f.value.id == 'self' and f.attr == '_wrap_scalar' \
                        and not s.value.orelse.keywords:
                    self.wrap_scalar(done)
                    coerced.add(s.targets[0].id)
                    continue
            stmts.append(s)
        if len(stmts) != 1 or not isinstance(stmts[0], ast.Return):
            raise Untranslatable(self.file, m.lineno, "body of %s" % name)
        self.coerced = coerced
        term = self.term(stmts[0].value, params, name, done, stack + [name])
        self.coerced = set()
        done[name] = (name, params, term, (m.lineno, m.end_lineno))

    def ov(self, name):
        return "ov_" + name.strip('_')

    def wrap_scalar(self, done):
        """Tensor._wrap_scalar(self, value): every path must return Tensor(value, ...) or Tensor(np.asarray(value, dtype=...), ...):
        over R the identity embedding of the scalar (which dtype the constant gets is a rounding matter, C10)."""
        if '_wrap_scalar' in done:
            return
        cls = [c for c in self.tree.body if isinstance(c, ast.ClassDef) and c.name == 'Tensor'][0]
        ms = [m for m in cls.body if isinstance(m, ast.FunctionDef) and m.name == '_wrap_scalar']
        if len(ms) != 1:
            raise Untranslatable(self.file, "?", "Tensor._wrap_scalar")
        m = ms[0]
        params = [a.arg for a in m.args.args]
        if len(params) != 2 or params[0] != 'self':
            raise Untranslatable(self.file, m.lineno, "signature of _wrap_scalar")
        v = params[1]

        def value_expr(e):
            if isinstance(e, ast.Name) and e.id == v:
                return True
            return isinstance(e, ast.Call) and isinstance(e.func, ast.Attribute) and isinstance(e.func.value, ast.Name) and e.func.value.id == 'np' \
                and e.func.attr in ('asarray', 'array') and len(e.args) == 1 and isinstance(e.args[0], ast.Name) and e.args[0].id == v \
                and all(k.arg == 'dtype' for k in e.keywords)

        def block(stmts):
            n = 0
            for st in stmts:
                if isinstance(st, ast.Expr) and isinstance(st.value, ast.Constant):
                    continue
                if isinstance(st, ast.If):
                    n += block(st.body) + block(st.orelse); continue
                if isinstance(st, ast.Return) and isinstance(st.value, ast.Call) and isinstance(st.value.func, ast.Name) and st.value.func.id == 'Tensor' \
                        and len(st.value.args) == 1 and value_expr(st.value.args[0]) and all(k.arg in ('device', 'dtype') for k in st.value.keywords):
                    n += 1; continue
                raise Untranslatable(self.file, st.lineno, "statement of _wrap_scalar: %s" % ast.unparse(st)[:60])
            return n
        if block(m.body) == 0 or not isinstance(m.body[-1], ast.Return):
            raise Untranslatable(self.file, m.lineno, "_wrap_scalar without a final return")
        done['_wrap_scalar'] = ('_wrap_scalar', [v], ('v', v), (m.lineno, m.end_lineno))

    def coq(self, t):
        if t[0] == 'v':
            return t[1]
        if t[0] == 'n':
            return X.coq_num(t[1])
        if t[0] == 'prim':
            return "(%s %s %s)" % (t[1], self.coq(t[2]), self.coq(t[3]))
        return "(%s %s %s)" % (self.ov(t[1]), self.P, " ".join(self.coq(a) for a in t[2]))

    def evaluate(self, t, env):
        """independent evaluation of an overload term with float semantics of the four primitives"""
        if t[0] == 'v':
            return env[t[1]]
        if t[0] == 'n':
            return float(t[1])
        if t[0] == 'prim':
            a, b = self.evaluate(t[2], env), self.evaluate(t[3], env)
            return {'add': lambda: a + b, 'mul': lambda: a * b, 'pow': lambda: X._gpow(a, b), 'rpow': lambda: X._gpow(b, a)}[t[1]]()
        name, params, term, _ = self.done[t[1]]
        return self.evaluate(term, dict(zip(params, [self.evaluate(a, env) for a in t[2]])))

    def term(self, n, params, inside, done, stack):
        U = lambda what: Untranslatable(self.file, getattr(n, "lineno", "?"), what)
        rec = lambda x: self.term(x, params, inside, done, stack)
        if isinstance(n, ast.Name) and n.id in params:
            if n.id in getattr(self, "coerced", ()):
                return ('ov', '_wrap_scalar', [('v', n.id)])
            return ('v', n.id)
        if isinstance(n, ast.Constant):
            return ('n', literal(n, self.src, self.file))
        if isinstance(n, ast.UnaryOp) and isinstance(n.op, ast.USub):
            if isinstance(n.operand, ast.Constant):
                return ('n', -literal(n.operand, self.src, self.file))
            self.method('__neg__', done, stack)
            return ('ov', '__neg__', [rec(n.operand)])
        if isinstance(n, ast.BinOp) and type(n.op) in self.OPS:
            # Python dispatch: Tensor.__op__(left, right) when the left operand is a Tensor.  In a reflected method the
            # parameter `other` is the non-Tensor left operand of the user's expression, so `other <op> T` dispatches to
            # T.__rop__(other).
            other = params[1] if len(params) > 1 else None
            if inside.startswith('__r') and isinstance(n.left, ast.Name) and n.left.id == other:
                target = self.ROPS[type(n.op)]
                self.method(target, done, stack)
                return ('ov', target, [rec(n.right), rec(n.left)])
            target = self.OPS[type(n.op)]
            self.method(target, done, stack)
            return ('ov', target, [rec(n.left), rec(n.right)])
        if isinstance(n, ast.Call) and isinstance(n.func, ast.Attribute) and isinstance(n.func.value, ast.Name) and n.func.value.id == 'F' \
                and n.func.attr in self.PRIMS and len(n.args) == 2 and not n.keywords:
            return ('prim', self.PRIMS[n.func.attr], rec(n.args[0]), rec(n.args[1]))
        raise U("overload body %s" % ast.unparse(n)[:60])


# ================================================================================================
HEADER = "(* GENERATED by lib/py2coq/gen_kernels.py from %s -- do not edit *)\n"


def translate():
    kt = KernelTranslator(repo_file("synapgrad/cpu_ops.py")).run()
    # remember the full source signature (with the shape-only parameters) for the wrapper argument matching
    for fn in kt.tree.body:
        if isinstance(fn, ast.FunctionDef) and fn.name in kt.kernels:
            kt.kernels[fn.name].all_params = [a.arg for a in fn.args.args]
    wts = [WrapperTranslator(repo_file(p), kt.kernels).run() for p in ("synapgrad/functional.py", "synapgrad/nn/functional.py")]
    wrappers = {}
    wskipped = []
    for wt in wts:
        for name, w in wt.wrappers.items():
            if w.fwd[0] in kt.kernels and w.bwd[0] in kt.kernels:
                wrappers[name] = w
            else:
                wskipped.append((name, w.lines[0], "calls %s/%s (not an elementwise kernel)" % (w.fwd[0], w.bwd[0])))
        wskipped += wt.skipped
    missing = [w for w in REQUIRED_WRAPPERS if w not in wrappers]
    if missing:
        raise Untranslatable("functional.py|nn/functional.py", "?", "required wrapper(s) %s: %s" % (missing, [s for s in wskipped if s[0] in missing]))
    wdefs = {}
    for name, w in wrappers.items():
        d = wrapper_ir(w, kt.kernels)
        if d is None:
            raise Untranslatable(w.file, w.lines[0], "wrapper %s" % name)
        wdefs[name] = d
    ot = OverloadTranslator(repo_file("synapgrad/tensor.py")).run()
    return kt, wrappers, wdefs, wskipped, ot


def fmt_skipped(sk):
    return "\n".join("     %s (line %s): %s" % s for s in sk) or "     (none)"


def text_kernels(kt):
    out = [HEADER % kt.file, "From Coq Require Import Reals.\nFrom SG Require Import Analysis.RealOps.\nOpen Scope R_scope.\n"]
    for c, v in kt.consts.items():
        out.append("Definition %s : R := %s.\n" % (c, X.coq_num(v)))
    for k in kt.kernels.values():
        for i, nm in enumerate(k.out_names()):
            extra = ""
            if k.dropped:
                extra += "  shape-only parameters elided: %s." % " ".join(k.dropped)
            if k.note:
                extra += "  " + k.note + "."
            if len(k.outs) > 1:
                extra += "  output %d of %d." % (i, len(k.outs))
            params = " ".join(X.coq_ident(p) for p in k.params)
            out.append("(* %s: %s:%d-%d.%s *)\nDefinition %s %s: R :=\n  %s.\n" % (
                k.name, k.file, k.lines[0], k.lines[1], extra, nm, "(%s : R) " % params if params else "", X.coq_shallow(k.outs[i], kt.kernels)))
    out.append("(* skipped (not pure elementwise under the whitelist):\n%s\n*)\n" % fmt_skipped(kt.skipped))
    return "\n".join(out)


def text_exprs(kt):
    out = [HEADER % kt.file,
           "From Coq Require Import Reals List ZArith.\nImport ListNotations.\nFrom SG Require Import Analysis.RealOps Analysis.Expr Gen.GenKernels.\nOpen Scope R_scope.\n"]
    for k in kt.kernels.values():
        scope = list(reversed(k.params))          # env = [p_last; ...; p_first]: parameter i has index (n-1-i)
        env = "[" + "; ".join(X.coq_ident(p) for p in reversed(k.params)) + "]"
        params = " ".join(X.coq_ident(p) for p in k.params)
        for i, nm in enumerate(k.out_names()):
            out.append("Definition %s_expr : expr :=\n  %s." % (nm, X.coq_deep(k.outs[i], scope, kt.kernels, kt.consts)))
            out.append("Lemma %s_eval_correct : forall %s : R, eval %s %s_expr = %s %s.\nProof. intros. reflexivity. Qed." % (nm, params, env, nm, nm, params))
            out.append("Lemma %s_wf : wf %d %s_expr = true.\nProof. reflexivity. Qed.\n" % (nm, len(k.params), nm))
    return "\n".join(out)


USE_COQ = {'grad': "UGrad", 'out': "UOut"}


def use_coq(u):
    if u[0] in USE_COQ:
        return USE_COQ[u[0]]
    return {'in': 'UIn', 'param': 'UParam', 'local': 'ULocal', 'shape': 'UShape'}[u[0]] + ' "%s"' % u[1]


def text_use(kt, wrappers, wdefs, wskipped):
    out = [HEADER % "synapgrad/functional.py, synapgrad/nn/functional.py",
           "From Coq Require Import Reals List String.\nImport ListNotations.\nFrom SG Require Import Analysis.RealOps Gen.GenKernels.\nOpen Scope R_scope.\n",
           "(* what a wrapper hands to a kernel parameter *)",
           "Inductive arg_use := UGrad | UOut | UIn (x:string) | UParam (p:string) | ULocal (c:string) | UShape (x:string).",
           "Record kernel_use := { ku_wrapper : string; ku_forward : string; ku_forward_args : list arg_use;",
           "                       ku_backward : string; ku_backward_args : list arg_use;",
           "                       ku_accum : list (string * bool * nat) (* input, true = '+=' / false = '-=', output index *) }.\n"]
    rows = []
    for name, w in wrappers.items():
        rows.append('  {| ku_wrapper := "%s"; ku_forward := "%s"; ku_forward_args := [%s];\n     ku_backward := "%s"; ku_backward_args := [%s];\n     ku_accum := [%s] |}' % (
            name, w.fwd[0], "; ".join(use_coq(u) for u in w.fwd[1]), w.bwd[0], "; ".join(use_coq(u) for u in w.bwd[1]),
            "; ".join('("%s", %s, %d%%nat)' % (i, "true" if s == '+' else "false", k) for i, s, k in w.accum)))
    out.append("Definition kernel_uses : list kernel_use :=\n [\n%s\n ]%%string.\n" % ";\n".join(rows))
    for name, w in wrappers.items():
        out.append("(* %s: %s:%d-%d *)" % (name, w.file, w.lines[0], w.lines[1]))
        for c, v in w.locals.items():
            out.append("Definition wrap_%s_%s : R := %s." % (name, c, X.coq_num(v)))
        for dn, formals, e in wdefs[name]:
            ps = " ".join(X.coq_ident(p) for p in formals)
            out.append("Definition %s %s: R :=\n  %s." % (dn, "(%s : R) " % ps if ps else "", X.coq_shallow(e, kt.kernels)))
        out.append("")
    out.append("(* wrappers not covered here (their kernels are not elementwise, or their shape is not the standard one):\n%s\n*)\n" % fmt_skipped(wskipped))
    return "\n".join(out)


def text_overloads(ot):
    out = [HEADER % ot.file,
           "From Coq Require Import Reals.\nOpen Scope R_scope.\n",
           "(* Each operator overload of Tensor as the composition of functional ops it expands to.  add/mul/pow/rpow stand for",
           "   F.add, F.mul, F.pow (x ** n), F.rpow (n ** x); a number on either side is first wrapped into a constant Tensor.",
           "   Every definition takes the four primitives explicitly. *)\n"]
    for name, params, term, lines in ot.defs:
        out.append("(* Tensor.%s: %s:%d-%d *)\nDefinition ov_%s (add mul pow rpow : R -> R -> R) (%s : R) : R := %s.\n" % (name, ot.file, lines[0], lines[1], name.strip('_'), " ".join(params), ot.coq(term)))
    out.append("(* skipped overloads (not elementwise):\n%s\n*)\n" % fmt_skipped(ot.skipped))
    return "\n".join(out)


def _register_everywhere(name):
    """`python -m lib.py2coq.main` runs main.py as __main__, whose GENERATORS dict is not the one of the imported
    module lib.py2coq.main; register in both so that either entry point sees the generator."""
    import sys

    def deco(f):
        register(name)(f)
        m = sys.modules.get("__main__")
        if m is not None and isinstance(getattr(m, "GENERATORS", None), dict):
            m.GENERATORS[name] = f
        return f
    return deco


@_register_everywhere("kernels")
def generate():
    kt, wrappers, wdefs, wskipped, ot = translate()
    gen = os.path.join(common.COQ, "Gen")
    common.write_if_changed(os.path.join(gen, "GenKernels.v"), text_kernels(kt))
    common.write_if_changed(os.path.join(gen, "GenExprs.v"), text_exprs(kt))
    common.write_if_changed(os.path.join(gen, "GenKernelUse.v"), text_use(kt, wrappers, wdefs, wskipped))
    common.write_if_changed(os.path.join(gen, "GenOverloads.v"), text_overloads(ot))
    return kt, wrappers, wdefs, wskipped, ot
