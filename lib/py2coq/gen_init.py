"""gen_init: synapgrad/nn/init.py + reset_parameters of Linear/Conv1d/Conv2d  ->  coq/Gen/GenInit.v     (property C15)

Fail-closed translation (real-valued Coq terms, `R` with `sqrt`) of
  * calculate_gain                     -> calculate_gain : string -> gparam -> option R          (None = raises)
  * _calculate_fan_in_and_fan_out      -> fan_in_and_fan_out : list Z -> option (Z * Z)           (on the shape)
  * xavier_uniform_/xavier_normal_/kaiming_uniform_/kaiming_normal_
                                       -> <name>call ... : option fill_call   — the exact (low, high) / (mean, std)
                                          handed to uniform_ / normal_
  * Linear/Conv1d/Conv2d.reset_parameters -> <layer>_reset_calls : list Z -> bool -> option (list (ltarget * fill_call))
  * uniform_/normal_/constant_/ones_/zeros_ -> effect summaries (what is assigned, from which NumPy call with which
                                          arguments, shape/dtype taken from the tensor, what is returned)
Anything outside the whitelist raises Untranslatable.  The IR is also evaluated in Python (`Interp`) and compared with
the real functions (`selfcheck`).
"""
import ast, math, os
from fractions import Fraction
from lib import common
from lib.py2coq.main import register

INIT = "synapgrad/nn/init.py"
LAYERS = "synapgrad/nn/layers.py"
OUT = os.path.join(common.COQ, "Gen", "GenInit.v")
SCALED = ["xavier_uniform_", "xavier_normal_", "kaiming_uniform_", "kaiming_normal_"]
PLAIN = ["uniform_", "normal_", "constant_", "ones_", "zeros_"]
LAYER_CLASSES = ["Linear", "Conv1d", "Conv2d"]
FANS = "_calculate_fan_in_and_fan_out"


class Untranslatable(Exception):
    def __init__(self, file, node, what):
        line = getattr(node, "lineno", "?")
        super().__init__("%s:%s: %s" % (file, line, what))


def _num(n):
    return isinstance(n, ast.Constant) and isinstance(n.value, (int, float)) and not isinstance(n.value, bool)


def _strip_doc(body):
    if body and isinstance(body[0], ast.Expr) and isinstance(body[0].value, ast.Constant) and isinstance(body[0].value.value, str):
        return body[1:]
    return body


def _live(body):
    """statements up to and including the first top-level return (what follows is unreachable)"""
    out = []
    for s in body:
        out.append(s)
        if isinstance(s, ast.Return):
            break
    return out


# =========================================================================== expressions
class ExprParser:
    """arithmetic over ints (Z) and floats (R).  names: dict name -> 'Z' | 'R' | 'tupleZ' | 'idx' | 'S' """

    def __init__(self, file, fans_prefixes=("",)):
        self.file = file

    def expr(self, n, names):
        if _num(n):
            return ("num", Fraction(repr(n.value)), isinstance(n.value, float))
        if isinstance(n, ast.Name):
            if n.id not in names:
                raise Untranslatable(self.file, n, "name " + n.id)
            return ("name", n.id)
        if isinstance(n, ast.BinOp):
            op = {ast.Add: "add", ast.Sub: "sub", ast.Mult: "mul", ast.Div: "div"}.get(type(n.op))
            if op is not None:
                return (op, self.expr(n.left, names), self.expr(n.right, names))
            if isinstance(n.op, ast.Pow) and _num(n.right) and type(n.right.value) is int and 0 <= n.right.value <= 8:
                return ("pow", self.expr(n.left, names), n.right.value)
            raise Untranslatable(self.file, n, "operator " + type(n.op).__name__)
        if isinstance(n, ast.UnaryOp) and isinstance(n.op, ast.USub):
            return ("neg", self.expr(n.operand, names))
        if isinstance(n, ast.Call) and not n.keywords and len(n.args) == 1:
            f = ast.unparse(n.func)
            if f == "math.sqrt":
                return ("sqrt", self.expr(n.args[0], names))
            if f == "float":
                return ("float", self.expr(n.args[0], names))
            raise Untranslatable(self.file, n, "call " + f)
        if isinstance(n, ast.Subscript) and isinstance(n.value, ast.Name) and isinstance(n.slice, ast.Name):
            if names.get(n.value.id) == "tupleZ" and names.get(n.slice.id) == "idx":
                return ("pick", n.value.id, n.slice.id)
            raise Untranslatable(self.file, n, "subscript " + ast.unparse(n))
        if isinstance(n, ast.IfExp):
            t = n.test
            if isinstance(t, ast.Compare) and len(t.ops) == 1:
                op = {ast.Gt: "gt", ast.GtE: "ge", ast.Lt: "lt", ast.LtE: "le", ast.Eq: "eq", ast.NotEq: "ne"}.get(type(t.ops[0]))
                if op:
                    return ("ifexp", (op, self.expr(t.left, names), self.expr(t.comparators[0], names)), self.expr(n.body, names), self.expr(n.orelse, names))
            raise Untranslatable(self.file, n, "condition " + ast.unparse(t))
        raise Untranslatable(self.file, n, "expression " + type(n).__name__ + ": " + ast.unparse(n)[:60])


def ty(e, names):
    k = e[0]
    if k == "num":
        return "R" if e[2] else "Z"
    if k == "name":
        return names[e[1]]
    if k in ("add", "sub", "mul"):
        a, b = ty(e[1], names), ty(e[2], names)
        if a not in "ZR" or b not in "ZR":
            raise Untranslatable("", None, "arithmetic on " + a + "/" + b)
        return "Z" if a == b == "Z" else "R"
    if k == "div":
        return "R"
    if k == "pow":
        return ty(e[1], names)
    if k == "neg":
        return ty(e[1], names)
    if k in ("sqrt", "float"):
        return "R"
    if k == "pick":
        return "Z"
    if k == "ifexp":
        a, b = ty(e[2], names), ty(e[3], names)
        return "Z" if a == b == "Z" else "R"
    raise AssertionError(k)


def rlit(fr):
    fr = Fraction(fr)
    n = "%d" % fr.numerator if fr.numerator >= 0 else "(%d)" % fr.numerator
    return "(IZR %s)" % n if fr.denominator == 1 else "(IZR %s / IZR %d)" % (n, fr.denominator)


def pr(e, names, want=None):
    """Coq text of e; coerced to R when want == 'R'"""
    k = e[0]
    t = ty(e, names)

    def co(s):
        return "(IZR %s)" % s if (want == "R" and t == "Z") else s
    if k == "num":
        if t == "Z" and want != "R":
            return "(%d)%%Z" % e[1]
        return rlit(e[1])
    if k == "name":
        return co(e[1])
    if k in ("add", "sub", "mul"):
        if t == "Z":
            return co("(%s %s %s)%%Z" % (pr(e[1], names), {"add": "+", "sub": "-", "mul": "*"}[k], pr(e[2], names)))
        return "(%s %s %s)" % (pr(e[1], names, "R"), {"add": "+", "sub": "-", "mul": "*"}[k], pr(e[2], names, "R"))
    if k == "div":
        return "(%s / %s)" % (pr(e[1], names, "R"), pr(e[2], names, "R"))
    if k == "pow":
        if t == "Z":
            return co("(%s ^ %d)%%Z" % (pr(e[1], names), e[2]))
        return "(%s ^ %d)" % (pr(e[1], names, "R"), e[2])
    if k == "neg":
        if t == "Z":
            return co("(- %s)%%Z" % pr(e[1], names))
        return "(- %s)" % pr(e[1], names, "R")
    if k == "sqrt":
        return "(sqrt %s)" % pr(e[1], names, "R")
    if k == "float":
        return pr(e[1], names, "R")
    if k == "pick":
        return co("(pick2 %s %s)" % (e[1], e[2]))
    if k == "ifexp":
        op, a, b = e[1]
        ta, tb = ty(a, names), ty(b, names)
        if ta == tb == "Z":
            c = {"gt": "(%s <? %s)%%Z" % (pr(b, names), pr(a, names)), "ge": "(%s <=? %s)%%Z" % (pr(b, names), pr(a, names)),
                 "lt": "(%s <? %s)%%Z" % (pr(a, names), pr(b, names)), "le": "(%s <=? %s)%%Z" % (pr(a, names), pr(b, names)),
                 "eq": "(%s =? %s)%%Z" % (pr(a, names), pr(b, names)), "ne": "(negb (%s =? %s)%%Z)" % (pr(a, names), pr(b, names))}[op]
        else:
            raise Untranslatable("", None, "comparison between reals in a conditional expression")
        w = "R" if t == "R" else want
        return "(if %s then %s else %s)" % (c, pr(e[2], names, w), pr(e[3], names, w))
    raise AssertionError(k)


def evalx(e, env):
    """Python evaluation with Python's own int/float semantics"""
    k = e[0]
    if k == "num":
        return float(e[1]) if e[2] else int(e[1])
    if k == "name":
        return env[e[1]]
    if k == "add":
        return evalx(e[1], env) + evalx(e[2], env)
    if k == "sub":
        return evalx(e[1], env) - evalx(e[2], env)
    if k == "mul":
        return evalx(e[1], env) * evalx(e[2], env)
    if k == "div":
        return evalx(e[1], env) / evalx(e[2], env)
    if k == "pow":
        return evalx(e[1], env) ** e[2]
    if k == "neg":
        return -evalx(e[1], env)
    if k == "sqrt":
        return math.sqrt(evalx(e[1], env))
    if k == "float":
        return float(evalx(e[1], env))
    if k == "pick":
        return env[e[1]][env[e[2]]]
    if k == "ifexp":
        op, a, b = e[1]
        x, y = evalx(a, env), evalx(b, env)
        c = {"gt": x > y, "ge": x >= y, "lt": x < y, "le": x <= y, "eq": x == y, "ne": x != y}[op]
        return evalx(e[2], env) if c else evalx(e[3], env)
    raise AssertionError(k)


# =========================================================================== calculate_gain
ISNUM = "not isinstance(param, bool) and isinstance(param, int) or isinstance(param, float)"


def parse_gain(fn):
    """-> dict(lists={name:[str]}, branches=[(test, result)], ) ; result = ('ret', expr) | ('slope', none_expr, expr)"""
    X = ExprParser(INIT)
    if [a.arg for a in fn.args.args] != ["nonlinearity", "param"] or len(fn.args.defaults) != 1 or ast.unparse(fn.args.defaults[0]) != "None":
        raise Untranslatable(INIT, fn, "calculate_gain signature")
    body = _strip_doc(fn.body)
    lists = {}
    while body and isinstance(body[0], ast.Assign):
        st = body[0]
        if not (len(st.targets) == 1 and isinstance(st.targets[0], ast.Name) and isinstance(st.value, ast.List)
                and all(isinstance(e, ast.Constant) and isinstance(e.value, str) for e in st.value.elts)):
            raise Untranslatable(INIT, st, "calculate_gain prelude")
        lists[st.targets[0].id] = [e.value for e in st.value.elts]
        body = body[1:]
    if len(body) != 1 or not isinstance(body[0], ast.If):
        raise Untranslatable(INIT, fn, "calculate_gain body is not one if/elif chain")

    def test(t):
        if isinstance(t, ast.BoolOp) and isinstance(t.op, ast.Or):
            r = test(t.values[0])
            for v in t.values[1:]:
                r = ("or", r, test(v))
            return r
        if isinstance(t, ast.Compare) and len(t.ops) == 1 and isinstance(t.left, ast.Name) and t.left.id == "nonlinearity":
            c = t.comparators[0]
            if isinstance(t.ops[0], ast.Eq) and isinstance(c, ast.Constant) and isinstance(c.value, str):
                return ("eq", c.value)
            if isinstance(t.ops[0], ast.In) and isinstance(c, ast.Name) and c.id in lists:
                return ("in", c.id)
        raise Untranslatable(INIT, t, "calculate_gain test " + ast.unparse(t))

    def result(stmts):
        if len(stmts) == 1 and isinstance(stmts[0], ast.Return):
            return ("ret", X.expr(stmts[0].value, {}))
        if len(stmts) == 2 and isinstance(stmts[0], ast.If) and isinstance(stmts[1], ast.Return):
            i = stmts[0]
            if not (ast.unparse(i.test) == "param is None" and len(i.body) == 1 and isinstance(i.body[0], ast.Assign)
                    and isinstance(i.body[0].targets[0], ast.Name) and _num(i.body[0].value)):
                raise Untranslatable(INIT, i, "slope default branch")
            var = i.body[0].targets[0].id
            default = X.expr(i.body[0].value, {})
            if not (len(i.orelse) == 1 and isinstance(i.orelse[0], ast.If)):
                raise Untranslatable(INIT, i, "slope elif branch")
            j = i.orelse[0]
            if not (ast.unparse(j.test) == ISNUM and len(j.body) == 1 and ast.unparse(j.body[0]) == "%s = param" % var
                    and len(j.orelse) == 1 and isinstance(j.orelse[0], ast.Raise)):
                raise Untranslatable(INIT, j, "slope validation branch: " + ast.unparse(j.test))
            return ("slope", var, default, X.expr(stmts[1].value, {var: "R"}))
        raise Untranslatable(INIT, stmts[0], "calculate_gain branch body")

    branches = []
    cur = body[0]
    while True:
        branches.append((test(cur.test), result(cur.body)))
        if len(cur.orelse) == 1 and isinstance(cur.orelse[0], ast.If):
            cur = cur.orelse[0]
            continue
        if len(cur.orelse) == 1 and isinstance(cur.orelse[0], ast.Raise):
            break
        raise Untranslatable(INIT, cur, "calculate_gain: chain does not end in raise")
    return {"lists": lists, "branches": branches}


def print_gain(g):
    out = ["Definition calculate_gain (nonlinearity : string) (param : gparam) : option R :="]
    for name, vals in g["lists"].items():
        out.append("  let %s := [%s] in" % (name, "; ".join('"%s"' % v for v in vals)))

    def t(c):
        if c[0] == "or":
            return "(%s || %s)" % (t(c[1]), t(c[2]))
        if c[0] == "eq":
            return '(String.eqb nonlinearity "%s")' % c[1]
        return "(existsb (String.eqb nonlinearity) %s)" % c[1]
    for c, r in g["branches"]:
        if r[0] == "ret":
            out.append("  if %s then Some %s else" % (t(c), pr(r[1], {}, "R")))
        else:
            _, var, default, e = r
            out.append("  if %s then\n    match (match param with PNone => Some %s | PNum x => Some x | PBad => None end) with\n    | None => None\n    | Some %s => Some %s\n    end else" % (
                t(c), pr(default, {}, "R"), var, pr(e, {var: "R"}, "R")))
    out.append("  None.")
    return "\n".join(out)


def eval_gain(g, nonlinearity, param):
    def t(c):
        if c[0] == "or":
            return t(c[1]) or t(c[2])
        if c[0] == "eq":
            return nonlinearity == c[1]
        return nonlinearity in g["lists"][c[1]]
    for c, r in g["branches"]:
        if t(c):
            if r[0] == "ret":
                return evalx(r[1], {})
            _, var, default, e = r
            if param is None:
                s = evalx(default, {})
            elif (not isinstance(param, bool) and isinstance(param, int)) or isinstance(param, float):
                s = param
            else:
                raise ValueError("slope")
            return evalx(e, {var: s})
    raise ValueError("unsupported")


# =========================================================================== fan computation
def parse_fans(fn):
    """the body must be the known straight-line shape; returns the IR (a small dict of expressions)"""
    if [a.arg for a in fn.args.args] != ["tensor"]:
        raise Untranslatable(INIT, fn, FANS + " signature")
    body = _strip_doc(fn.body)
    X = ExprParser(INIT)
    ir = []
    names = {}
    for st in body:
        if isinstance(st, ast.Assign) and len(st.targets) == 1 and isinstance(st.targets[0], ast.Name):
            v, tgt = st.value, st.targets[0].id
            src = ast.unparse(v)
            if src == "tensor.ndim":
                ir.append(("ndim", tgt)); names[tgt] = "Z"
            elif isinstance(v, ast.Subscript) and ast.unparse(v.value) == "tensor.shape" and isinstance(v.slice, ast.Constant) and type(v.slice.value) is int and v.slice.value >= 0:
                ir.append(("dim", tgt, v.slice.value)); names[tgt] = "Z"
            else:
                ir.append(("assign", tgt, X.expr(v, names)))
                if ty(ir[-1][2], names) != "Z":
                    raise Untranslatable(INIT, st, "non-integer in " + FANS)
                names[tgt] = "Z"
        elif isinstance(st, ast.If) and not st.orelse and len(st.body) == 1:
            t = st.test
            if not (isinstance(t, ast.Compare) and len(t.ops) == 1 and isinstance(t.left, ast.Name) and t.left.id in names and _num(t.comparators[0])):
                raise Untranslatable(INIT, st, "test " + ast.unparse(t))
            op = {ast.Lt: "lt", ast.Gt: "gt", ast.LtE: "le", ast.GtE: "ge"}.get(type(t.ops[0]))
            if op is None:
                raise Untranslatable(INIT, st, "test " + ast.unparse(t))
            cond = (op, t.left.id, int(t.comparators[0].value))
            b = st.body[0]
            if isinstance(b, ast.Raise):
                ir.append(("raise_if", cond))
            elif (isinstance(b, ast.Assign) and isinstance(b.targets[0], ast.Name) and b.targets[0].id in names and isinstance(b.value, ast.Call)
                  and ast.unparse(b.value.func) == "np.prod" and len(b.value.args) == 1 and not b.value.keywords
                  and isinstance(b.value.args[0], ast.Subscript) and ast.unparse(b.value.args[0].value) == "tensor.shape"
                  and isinstance(b.value.args[0].slice, ast.Slice) and b.value.args[0].slice.upper is None and b.value.args[0].slice.step is None
                  and _num(b.value.args[0].slice.lower) and b.value.args[0].slice.lower.value >= 0):
                ir.append(("prod_if", cond, b.targets[0].id, int(b.value.args[0].slice.lower.value)))
            else:
                raise Untranslatable(INIT, st, "conditional statement " + ast.unparse(b)[:60])
        elif isinstance(st, ast.Return) and isinstance(st.value, ast.Tuple) and len(st.value.elts) == 2 and all(isinstance(e, ast.Name) and e.id in names for e in st.value.elts):
            ir.append(("ret", st.value.elts[0].id, st.value.elts[1].id))
            break
        else:
            raise Untranslatable(INIT, st, "statement in " + FANS + ": " + ast.unparse(st)[:60])
    if not ir or ir[-1][0] != "ret":
        raise Untranslatable(INIT, fn, FANS + " does not return a pair")
    # every shape index used must be guarded by a preceding rank check
    need = max([s[2] for s in ir if s[0] == "dim"] + [0]) + 1
    guard = 0
    for s in ir:
        if s[0] == "raise_if" and s[1][0] == "lt":
            guard = max(guard, s[1][2])
        if s[0] == "dim" and s[2] >= guard:
            raise Untranslatable(INIT, fn, "tensor.shape[%d] is read without a rank check" % s[2])
    return ir


def _cond(c):
    op, v, k = c
    return {"lt": "(%s <? %d)%%Z", "gt": "(%d <? %s)%%Z", "le": "(%s <=? %d)%%Z", "ge": "(%d <=? %s)%%Z"}[op] % ((v, k) if op in ("lt", "le") else (k, v))


def print_fans(ir):
    out = ["Definition fan_in_and_fan_out (shape : list Z) : option (Z * Z) :="]
    names = {}
    for s in ir:
        if s[0] == "ndim":
            out.append("  let %s := Z.of_nat (List.length shape) in" % s[1])
        elif s[0] == "dim":
            out.append("  let %s := nth %d shape 0%%Z in" % (s[1], s[2]))
        elif s[0] == "assign":
            out.append("  let %s := %s in" % (s[1], pr(s[2], names)))
        elif s[0] == "raise_if":
            out.append("  if %s then None else" % _cond(s[1]))
        elif s[0] == "prod_if":
            out.append("  let %s := if %s then zprod (skipn %d shape) else %s in" % (s[2], _cond(s[1]), s[3], s[2]))
        elif s[0] == "ret":
            out.append("  Some (%s, %s)." % (s[1], s[2]))
        if s[0] in ("ndim", "dim", "assign"):
            names[s[1]] = "Z"
    return "\n".join(out)


def eval_fans(ir, shape):
    env = {}

    def c(cond):
        op, v, k = cond
        return {"lt": env[v] < k, "gt": env[v] > k, "le": env[v] <= k, "ge": env[v] >= k}[op]
    for s in ir:
        if s[0] == "ndim":
            env[s[1]] = len(shape)
        elif s[0] == "dim":
            env[s[1]] = shape[s[2]]
        elif s[0] == "assign":
            env[s[1]] = evalx(s[2], env)
        elif s[0] == "raise_if":
            if c(s[1]):
                raise ValueError("rank")
        elif s[0] == "prod_if":
            if c(s[1]):
                p = 1
                for d in shape[s[3]:]:
                    p *= d
                env[s[2]] = p
        elif s[0] == "ret":
            return env[s[1]], env[s[2]]


# =========================================================================== scaled initialisers
def parse_scaled(fn):
    """params (besides tensor) with types; statements; final call"""
    args = [a.arg for a in fn.args.args]
    if args[0] != "tensor":
        raise Untranslatable(INIT, fn, "first parameter of %s" % fn.name)
    ptypes = {}
    defaults = dict(zip(args[len(args) - len(fn.args.defaults):], fn.args.defaults))
    for a in args[1:]:
        d = defaults.get(a)
        if d is None or _num(d):
            ptypes[a] = "R"
        elif isinstance(d, ast.Constant) and isinstance(d.value, str):
            ptypes[a] = "S"
        else:
            raise Untranslatable(INIT, fn, "default of parameter " + a)
    X = ExprParser(INIT)
    names = dict(ptypes)
    strlists = {}
    ir = []
    for st in _live(_strip_doc(fn.body)):
        if isinstance(st, ast.Assign) and len(st.targets) == 1:
            tgt, v = st.targets[0], st.value
            call_fans = isinstance(v, ast.Call) and ast.unparse(v) == FANS + "(tensor)"
            if isinstance(tgt, ast.Tuple) and call_fans and len(tgt.elts) == 2 and all(isinstance(e, ast.Name) for e in tgt.elts):
                a, b = tgt.elts[0].id, tgt.elts[1].id
                ir.append(("fans2", a, b)); names[a] = "Z"; names[b] = "Z"
            elif isinstance(tgt, ast.Name) and call_fans:
                ir.append(("fans1", tgt.id)); names[tgt.id] = "tupleZ"
            elif isinstance(tgt, ast.Name) and isinstance(v, ast.List) and all(isinstance(e, ast.Constant) and isinstance(e.value, str) for e in v.elts) and len(v.elts) == 2:
                strlists[tgt.id] = [e.value for e in v.elts]
                ir.append(("strlist", tgt.id, strlists[tgt.id]))
            elif (isinstance(tgt, ast.Name) and isinstance(v, ast.Call) and ast.unparse(v.func) == "calculate_gain" and not v.keywords
                  and 1 <= len(v.args) <= 2 and isinstance(v.args[0], ast.Name) and names.get(v.args[0].id) == "S"):
                if len(v.args) == 2:
                    if not (isinstance(v.args[1], ast.Name) and names.get(v.args[1].id) == "R"):
                        raise Untranslatable(INIT, st, "second argument of calculate_gain")
                    ir.append(("gain", tgt.id, v.args[0].id, v.args[1].id))
                else:
                    ir.append(("gain", tgt.id, v.args[0].id, None))
                names[tgt.id] = "R"
            elif isinstance(tgt, ast.Name):
                e = X.expr(v, names)
                ir.append(("assign", tgt.id, e)); names[tgt.id] = ty(e, names)
            else:
                raise Untranslatable(INIT, st, "assignment " + ast.unparse(st)[:60])
        elif isinstance(st, ast.If):
            # if mode in L: mode = L.index(mode) else: raise
            t = st.test
            ok = (isinstance(t, ast.Compare) and len(t.ops) == 1 and isinstance(t.ops[0], ast.In) and isinstance(t.left, ast.Name)
                  and names.get(t.left.id) == "S" and isinstance(t.comparators[0], ast.Name) and t.comparators[0].id in strlists
                  and len(st.body) == 1 and ast.unparse(st.body[0]) == "%s = %s.index(%s)" % (t.left.id, t.comparators[0].id, t.left.id)
                  and len(st.orelse) == 1 and isinstance(st.orelse[0], ast.Raise))
            if not ok:
                raise Untranslatable(INIT, st, "conditional " + ast.unparse(t))
            ir.append(("index", t.left.id, t.comparators[0].id)); names[t.left.id] = "idx"
        elif isinstance(st, ast.Return):
            v = st.value
            if not (isinstance(v, ast.Call) and isinstance(v.func, ast.Name) and v.func.id in ("uniform_", "normal_") and not v.keywords
                    and len(v.args) == 3 and ast.unparse(v.args[0]) == "tensor"):
                raise Untranslatable(INIT, st, "return " + ast.unparse(v)[:60])
            ir.append(("fill", v.func.id, X.expr(v.args[1], names), X.expr(v.args[2], names)))
        else:
            raise Untranslatable(INIT, st, "statement " + ast.unparse(st)[:60])
    if not ir or ir[-1][0] != "fill":
        raise Untranslatable(INIT, fn, "%s does not end in a call of uniform_/normal_" % fn.name)
    return {"name": fn.name, "params": [(a, ptypes[a]) for a in args[1:]], "ir": ir,
            "defaults": {a: (defaults[a].value if a in defaults else None) for a in args[1:]}}


def print_stmts(ir, names, final):
    """shared by scaled initialisers and layer resets"""
    out = []
    closers = 0
    for s in ir:
        k = s[0]
        if k == "fans2":
            out.append("  match fan_in_and_fan_out shape with None => None | Some (%s, %s) =>" % (s[1], s[2])); closers += 1
            names[s[1]] = names[s[2]] = "Z"
        elif k == "fans1":
            out.append("  match fan_in_and_fan_out shape with None => None | Some %s =>" % s[1]); closers += 1
            names[s[1]] = "tupleZ"
        elif k == "strlist":
            out.append("  let %s := [%s] in" % (s[1], "; ".join('"%s"' % v for v in s[2])))
        elif k == "index":
            out.append("  match index_of %s %s with None => None | Some %s =>" % (s[1], s[2], s[1])); closers += 1
            names[s[1]] = "idx"
        elif k == "gain":
            out.append("  match calculate_gain %s %s with None => None | Some %s =>" % (s[2], "(PNum %s)" % s[3] if s[3] else "PNone", s[1])); closers += 1
            names[s[1]] = "R"
        elif k == "assign":
            out.append("  let %s := %s in" % (s[1], pr(s[2], names)))
            names[s[1]] = ty(s[2], names)
        else:
            break
    out.append(final(names))
    out.append("  " + " ".join(["end"] * closers) if closers else "")
    return "\n".join(x for x in out if x)


def fill_coq(kind, a, b, names):
    return "(%s %s %s)" % ("Uniform" if kind == "uniform_" else "Normal", pr(a, names, "R"), pr(b, names, "R"))


def print_scaled(f):
    names = {a: t for a, t in f["params"]}
    params = " ".join("(%s : %s)" % (a, "R" if t == "R" else "string") for a, t in f["params"])
    last = f["ir"][-1]
    body = print_stmts(f["ir"], names, lambda nm: "  Some %s" % fill_coq(last[1], last[2], last[3], nm))
    return "Definition %scall (shape : list Z) %s : option fill_call :=\n%s." % (f["name"], params, body)


def eval_stmts(ir, env, G, shape):
    for s in ir:
        k = s[0]
        if k == "fans2":
            env[s[1]], env[s[2]] = eval_fans(G["fans"], shape)
        elif k == "fans1":
            env[s[1]] = eval_fans(G["fans"], shape)
        elif k == "strlist":
            env[s[1]] = list(s[2])
        elif k == "index":
            if env[s[1]] not in env[s[2]]:
                raise ValueError("mode")
            env[s[1]] = env[s[2]].index(env[s[1]])
        elif k == "gain":
            env[s[1]] = eval_gain(G["gain"], env[s[2]], env[s[3]] if s[3] else None)
        elif k == "assign":
            env[s[1]] = evalx(s[2], env)
        else:
            return s
    return None


# =========================================================================== plain fillers (effect summaries)
def parse_plain(fn):
    args = [a.arg for a in fn.args.args]
    if args[0] != "tensor":
        raise Untranslatable(INIT, fn, "first parameter of " + fn.name)
    body = _live(_strip_doc(fn.body))
    if len(body) != 2 or not isinstance(body[0], ast.Assign) or not isinstance(body[1], ast.Return):
        raise Untranslatable(INIT, fn, "%s is not `tensor.data = ...; return tensor`" % fn.name)
    a, r = body
    if not (len(a.targets) == 1 and isinstance(a.targets[0], ast.Attribute) and ast.unparse(a.targets[0].value) == "tensor"):
        raise Untranslatable(INIT, a, "assignment target " + ast.unparse(a.targets[0]))
    attr = a.targets[0].attr
    v = a.value
    astype = False
    if isinstance(v, ast.Call) and isinstance(v.func, ast.Attribute) and v.func.attr == "astype" and len(v.args) == 1 and not v.keywords:
        astype = ast.unparse(v.args[0])
        v = v.func.value
    if not (isinstance(v, ast.Call) and not v.keywords):
        raise Untranslatable(INIT, a, "right-hand side " + ast.unparse(a.value)[:60])
    fun = ast.unparse(v.func)
    if fun not in ("np.random.uniform", "np.random.normal", "np.full", "np.ones", "np.zeros"):
        raise Untranslatable(INIT, a, "array source " + fun)
    fargs = [ast.unparse(x) for x in v.args]
    for x in fargs:
        if x != "tensor.shape" and x not in args[1:]:
            raise Untranslatable(INIT, a, "argument " + x)
    ret = ast.unparse(r.value) if r.value is not None else "None"
    return {"name": fn.name, "params": args[1:], "assigns": [attr], "source": fun, "args": fargs, "astype": astype or "", "returns": ret}


def print_plain(p):
    return ('Definition %seffect : fill_effect :=\n  {| fe_assigns := [%s]; fe_source := "%s"; fe_args := [%s]; fe_astype := "%s"; fe_returns := "%s" |}.'
            % (p["name"], "; ".join('"%s"' % a for a in p["assigns"]), p["source"], "; ".join('"%s"' % a for a in p["args"]), p["astype"], p["returns"]))


# =========================================================================== layers
def parse_reset(cls):
    fns = [m for m in cls.body if isinstance(m, ast.FunctionDef) and m.name == "reset_parameters"]
    if len(fns) != 1:
        raise Untranslatable(LAYERS, cls, "%s.reset_parameters" % cls.name)
    fn = fns[0]
    X = ExprParser(LAYERS)
    names = {}
    ir = []

    def fillcall(st):
        v = st.value if isinstance(st, ast.Expr) else None
        if not (isinstance(v, ast.Call) and ast.unparse(v.func) in ("init.uniform_", "nn.init.uniform_", "init.normal_", "nn.init.normal_") and not v.keywords and len(v.args) == 3
                and ast.unparse(v.args[0]) in ("self.weight", "self.bias")):
            raise Untranslatable(LAYERS, st, "statement " + ast.unparse(st)[:60])
        return ("lfill", "LWeight" if ast.unparse(v.args[0]) == "self.weight" else "LBias", ast.unparse(v.func).split(".")[-1], X.expr(v.args[1], names), X.expr(v.args[2], names))
    for st in _strip_doc(fn.body):
        if isinstance(st, ast.Assign) and len(st.targets) == 1:
            tgt, v = st.targets[0], st.value
            if (isinstance(tgt, ast.Tuple) and len(tgt.elts) == 2 and all(isinstance(e, ast.Name) for e in tgt.elts)
                    and ast.unparse(v) in ("init.%s(self.weight)" % FANS, "nn.init.%s(self.weight)" % FANS)):
                a, b = tgt.elts[0].id, tgt.elts[1].id
                ir.append(("fans2", a, b)); names[a] = names[b] = "Z"
            elif isinstance(tgt, ast.Name):
                e = X.expr(v, names)
                ir.append(("assign", tgt.id, e)); names[tgt.id] = ty(e, names)
            else:
                raise Untranslatable(LAYERS, st, "assignment " + ast.unparse(st)[:60])
        elif isinstance(st, ast.If) and ast.unparse(st.test) == "self.bias is not None" and not st.orelse:
            ir.append(("ifbias", [fillcall(s) for s in st.body]))
        else:
            ir.append(fillcall(st))
    return {"name": cls.name, "ir": ir}


def print_reset(L):
    names = {}
    pre = [s for s in L["ir"] if s[0] in ("fans2", "assign")]
    rest = [s for s in L["ir"] if s[0] not in ("fans2", "assign")]
    if L["ir"][:len(pre)] != pre:
        raise Untranslatable(LAYERS, None, "%s.reset_parameters: computation after the first fill" % L["name"])

    def final(nm):
        parts = []
        for s in rest:
            if s[0] == "lfill":
                parts.append("[(%s, %s)]" % (s[1], fill_coq(s[2], s[3], s[4], nm)))
            else:
                parts.append("(if has_bias then [%s] else [])" % "; ".join("(%s, %s)" % (x[1], fill_coq(x[2], x[3], x[4], nm)) for x in s[1]))
        return "  Some (%s)%%list" % " ++ ".join(parts)
    return "Definition %s_reset_calls (shape : list Z) (has_bias : bool) : option (list (ltarget * fill_call)) :=\n%s." % (L["name"].lower(), print_stmts(pre, names, final))


def eval_reset(L, G, shape, has_bias):
    env = {}
    calls = []
    for s in L["ir"]:
        if s[0] in ("fans2", "assign"):
            eval_stmts([s], env, G, shape)
        elif s[0] == "lfill":
            calls.append((s[1], s[2], evalx(s[3], env), evalx(s[4], env)))
        elif has_bias:
            for x in s[1]:
                calls.append((x[1], x[2], evalx(x[3], env), evalx(x[4], env)))
    return calls


# =========================================================================== driver
HEADER = """(* GENERATED by lib/py2coq/gen_init.py from %s and %s — do not edit. *)
From Coq Require Import List Bool ZArith Reals String.
Import ListNotations.
From SG Require Import State.InitBase.
Open Scope string_scope.
Open Scope bool_scope.
Open Scope R_scope.

"""


def analyse(repo=None):
    repo = repo or common.REPO
    tree = ast.parse(open(os.path.join(repo, INIT)).read())
    fns = {n.name: n for n in tree.body if isinstance(n, ast.FunctionDef)}
    want = ["calculate_gain", FANS] + PLAIN + SCALED
    if sorted(fns) != sorted(want):
        raise Untranslatable(INIT, tree, "functions of nn/init.py are %s" % sorted(fns))
    G = {"gain": parse_gain(fns["calculate_gain"]), "fans": parse_fans(fns[FANS]),
         "scaled": {n: parse_scaled(fns[n]) for n in SCALED}, "plain": {n: parse_plain(fns[n]) for n in PLAIN}}
    ltree = ast.parse(open(os.path.join(repo, LAYERS)).read())
    classes = {n.name: n for n in ltree.body if isinstance(n, ast.ClassDef)}
    G["layers"] = {}
    for c in LAYER_CLASSES:
        if c not in classes:
            raise Untranslatable(LAYERS, ltree, "class %s not found" % c)
        G["layers"][c] = parse_reset(classes[c])
    return G


def render(G):
    parts = [HEADER % (INIT, LAYERS), print_gain(G["gain"]), "", print_fans(G["fans"]), ""]
    for n in SCALED:
        parts += [print_scaled(G["scaled"][n]), ""]
    for c in LAYER_CLASSES:
        parts += [print_reset(G["layers"][c]), ""]
    for n in PLAIN:
        parts += [print_plain(G["plain"][n]), ""]
    parts.append("Definition plain_effects : list (string * fill_effect) :=\n  [%s]." % "; ".join('("%s", %seffect)' % (n, n) for n in PLAIN))
    return "\n".join(parts) + "\n"


@register("init")
def generate():
    G = analyse()
    common.write_if_changed(OUT, render(G))
    return G


def eval_scaled(G, name, shape, kwargs):
    """(kind, x, y) handed to the filler according to the IR"""
    f = G["scaled"][name]
    env = {a: kwargs.get(a, f["defaults"][a]) for a, _ in f["params"]}
    last = eval_stmts(f["ir"], env, G, shape)
    return last[1], evalx(last[2], env), evalx(last[3], env)


if __name__ == "__main__":
    generate()
    print(open(OUT).read())
