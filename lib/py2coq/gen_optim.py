"""gen_optim: synapgrad/optim/optimizers.py  ->  coq/Gen/GenOptim.v           (property C08)

Fail-closed translation of the per-parameter loop body of every optimizer's `step` into a Gallina
state transformer over an abstract array back-end (State/ArrOps.v):

    <cls>_step h t p_requires_grad p_grad <slots...> p_data
        = None                                   (the parameter is skipped: `continue`)
        | Some (p_data', <slot results...>)

 * array-valued optimizer slots (self.<slot>[i]) come back as `Keep | Store v aliases_grad`, where
   aliases_grad says whether the object stored is the gradient buffer itself (bare name bound to
   p._grad) or a fresh array (arithmetic result / .copy());
 * integer slots (self.steps[i]) come back as their new value;
 * scalar sub-expressions over hyper-parameters, literals and integer counters are computed in Q;
 * NumPy elementwise arithmetic is mapped to the back-end operations (pointwise; scalars broadcast).

Everything that is not in the whitelist below raises Untranslatable(file, line, construct).
The IR is also evaluated by an independent small interpreter (`Interp`, fractions.Fraction + math.sqrt)
against the real `step` on one-element parameters (`selfcheck`).
"""
import ast, copy, math, os
from fractions import Fraction
from lib import common
from lib.py2coq.main import register

SRC = "synapgrad/optim/optimizers.py"
OUT = os.path.join(common.COQ, "Gen", "GenOptim.v")
CLASSES = ["SGD", "Adam", "AdamW"]


class Untranslatable(Exception):
    def __init__(self, node, what):
        line = getattr(node, "lineno", "?")
        super().__init__("%s:%s: %s" % (SRC, line, what))
        self.line, self.what = line, what


def _dump(n):
    return ast.dump(n) if isinstance(n, ast.AST) else repr(n)


# =========================================================================== parsing -> IR
class ClassIR:
    def __init__(self, name):
        self.name = name
        self.prefix = name.lower()
        self.hypers = []     # (attr, 'Q'|'B', ctor source text)
        self.slots = []      # (name, 'opt'|'arr'|'int')      in __init__ order
        self.body = []       # IR statements
        self.writes = []     # (target, kind)
        self.lines = (0, 0)

    def hyper_ty(self, a):
        for n, t, _ in self.hypers:
            if n == a:
                return t
        return None

    def slot_kind(self, s):
        for n, k in self.slots:
            if n == s:
                return k
        return None


def _is_self_attr(n, attr=None):
    return isinstance(n, ast.Attribute) and isinstance(n.value, ast.Name) and n.value.id == "self" and (attr is None or n.attr == attr)


def _const_num(n):
    return isinstance(n, ast.Constant) and isinstance(n.value, (int, float)) and not isinstance(n.value, bool)


def parse_base(cls):
    """class Optimizer: checks the shape of __init__/zero_grad/step; returns the base hyper-parameters."""
    meths = {m.name: m for m in cls.body if isinstance(m, ast.FunctionDef)}
    for other in cls.body:
        if not isinstance(other, (ast.FunctionDef, ast.Expr)):
            raise Untranslatable(other, "unexpected statement in class Optimizer: " + _dump(other)[:80])
    if set(meths) != {"__init__", "zero_grad", "step"}:
        raise Untranslatable(cls, "Optimizer methods are %s" % sorted(meths))
    # __init__: self.parameters = parameters; self.lr = lr; self.t = 0 (+ super().__init__(), empty-list check)
    seen = {}
    for st in meths["__init__"].body:
        if isinstance(st, ast.Assign) and len(st.targets) == 1 and _is_self_attr(st.targets[0]):
            seen[st.targets[0].attr] = st.value
        elif isinstance(st, ast.Expr) and isinstance(st.value, ast.Call) and ast.unparse(st.value) == "super().__init__()":
            pass
        elif isinstance(st, ast.If) and len(st.body) == 1 and isinstance(st.body[0], ast.Raise) and not st.orelse:
            pass     # constructor argument validation (raises): not part of the update rule
        else:
            raise Untranslatable(st, "Optimizer.__init__: " + ast.unparse(st)[:80])
    if set(seen) != {"parameters", "lr", "t"}:
        raise Untranslatable(meths["__init__"], "Optimizer.__init__ sets %s" % sorted(seen))
    if not (isinstance(seen["parameters"], ast.Name) and seen["parameters"].id == "parameters"
            and isinstance(seen["lr"], ast.Name) and seen["lr"].id == "lr"
            and isinstance(seen["t"], ast.Constant) and seen["t"].value == 0):
        raise Untranslatable(meths["__init__"], "Optimizer.__init__ field initialisers")
    # zero_grad: for p in self.parameters: p.zero_()
    zg = meths["zero_grad"].body
    if not (len(zg) == 1 and ast.unparse(zg[0]).replace("\n", " ").split() == "for p in self.parameters: p.zero_()".split()):
        raise Untranslatable(meths["zero_grad"], "Optimizer.zero_grad is not `for p in self.parameters: p.zero_()`")
    # step: self.t += 1
    sp = meths["step"].body
    if not (len(sp) == 1 and ast.unparse(sp[0]) == "self.t += 1"):
        raise Untranslatable(meths["step"], "Optimizer.step is not `self.t += 1`")
    return [("lr", "Q", "lr")]


def base_summary(cls):
    """(source text of what __init__ binds to self.parameters, iteration source of zero_grad)"""
    meths = {m.name: m for m in cls.body if isinstance(m, ast.FunctionDef)}
    src = None
    for st in meths["__init__"].body:
        if isinstance(st, ast.Assign) and len(st.targets) == 1 and _is_self_attr(st.targets[0], "parameters"):
            src = ast.unparse(st.value)
    return src, ast.unparse(meths["zero_grad"].body[0].iter)


class Parser:
    def __init__(self, cir):
        self.c = cir
        self.slot_inits = {}

    # ---- __init__
    def parse_init(self, fn, base_hypers):
        args = fn.args
        if args.vararg or args.kwarg or args.kwonlyargs or args.posonlyargs:
            raise Untranslatable(fn, "__init__ signature")
        names = [a.arg for a in args.args]
        defaults = dict(zip(names[len(names) - len(args.defaults):], args.defaults))
        if names[:2] != ["self", "parameters"]:
            raise Untranslatable(fn, "__init__ signature")

        def arg_ty(node):
            """type of a constructor expression: Name of an argument or <tuple-arg>[k]"""
            if isinstance(node, ast.Name) and node.id in defaults:
                d = defaults[node.id]
                if isinstance(d, ast.Constant) and isinstance(d.value, bool):
                    return "B"
                if _const_num(d):
                    return "Q"
            if (isinstance(node, ast.Subscript) and isinstance(node.value, ast.Name) and node.value.id in defaults
                    and isinstance(node.slice, ast.Constant) and isinstance(node.slice.value, int)):
                d = defaults[node.value.id]
                if isinstance(d, ast.Tuple) and all(_const_num(e) for e in d.elts) and 0 <= node.slice.value < len(d.elts):
                    return "Q"
            raise Untranslatable(node, "constructor expression " + ast.unparse(node))

        got_super = False
        for st in fn.body:
            if isinstance(st, ast.Expr) and isinstance(st.value, ast.Constant) and isinstance(st.value.value, str):
                continue
            if isinstance(st, ast.Expr) and isinstance(st.value, ast.Call) and ast.unparse(st.value) == "super().__init__(parameters, lr)":
                got_super = True
                self.c.hypers = list(base_hypers) + self.c.hypers
                continue
            if isinstance(st, ast.If) and len(st.body) == 1 and isinstance(st.body[0], ast.Raise) and not st.orelse:
                continue     # argument validation
            if isinstance(st, ast.Assign) and len(st.targets) == 1 and _is_self_attr(st.targets[0]):
                attr = st.targets[0].attr
                v = st.value
                if isinstance(v, ast.ListComp):
                    # [None|0 for _ in range(len(parameters))]
                    txt = ast.unparse(v)
                    if txt == "[None for _ in range(len(parameters))]":
                        self.slot_inits[attr] = None
                    elif txt == "[0 for _ in range(len(parameters))]":
                        self.slot_inits[attr] = 0
                    else:
                        raise Untranslatable(st, "slot initialiser " + txt)
                    self.c.slots.append((attr, None))
                else:
                    self.c.hypers.append((attr, arg_ty(v), ast.unparse(v)))
                continue
            raise Untranslatable(st, "__init__ statement " + ast.unparse(st)[:80])
        if not got_super:
            raise Untranslatable(fn, "__init__ does not call super().__init__(parameters, lr)")

    # ---- step
    def parse_step(self, fn):
        body = [s for s in fn.body if not (isinstance(s, ast.Expr) and isinstance(s.value, ast.Constant))]
        if not (len(body) == 2 and ast.unparse(body[0]) == "super().step()"):
            raise Untranslatable(fn, "step must be `super().step()` followed by one with-block")
        w = body[1]
        if not (isinstance(w, ast.With) and len(w.items) == 1 and ast.unparse(w.items[0].context_expr) == "synapgrad.no_grad()"
                and w.items[0].optional_vars is None and len(w.body) == 1):
            raise Untranslatable(w, "expected `with synapgrad.no_grad():` around a single for loop")
        f = w.body[0]
        if not (isinstance(f, ast.For) and ast.unparse(f.target) == "(i, p)" and ast.unparse(f.iter) == "enumerate(self.parameters)" and not f.orelse):
            raise Untranslatable(f, "expected `for i, p in enumerate(self.parameters):`")
        self.c.lines = (f.lineno, f.end_lineno)
        # slot kinds from use
        self._infer_slot_kinds(f.body)
        self.locals = set()
        self.c.body = self.stmts(f.body, top=True)

    def _infer_slot_kinds(self, stmts):
        kinds = {}
        for node in ast.walk(ast.Module(body=stmts, type_ignores=[])):
            tgt = None
            if isinstance(node, ast.Assign) and len(node.targets) == 1:
                tgt, how = node.targets[0], "assign"
            elif isinstance(node, ast.AugAssign):
                tgt, how = node.target, "aug"
            if tgt is not None and isinstance(tgt, ast.Subscript) and _is_self_attr(tgt.value):
                kinds.setdefault(tgt.value.attr, set()).add(how)
        new = []
        for name, _ in self.c.slots:
            init = self.slot_inits[name]
            uses = kinds.get(name, set())
            if init is None and uses <= {"assign"}:
                new.append((name, "opt"))
            elif init == 0 and uses == {"assign"}:
                new.append((name, "arr"))
            elif init == 0 and uses == {"aug"}:
                new.append((name, "int"))
            elif not uses:
                raise Untranslatable(stmts[0], "slot %s is never written by step" % name)
            else:
                raise Untranslatable(stmts[0], "slot %s: initial %r with uses %s" % (name, init, sorted(uses)))
        self.c.slots = new

    def stmts(self, body, top=False):
        out = []
        for k, st in enumerate(body):
            out.append(self.stmt(st, first=(top and k == 0)))
        return out

    def stmt(self, st, first=False):
        c = self.c
        if isinstance(st, ast.If):
            if len(st.body) == 1 and isinstance(st.body[0], ast.Continue) and not st.orelse:
                if not first:
                    raise Untranslatable(st, "`continue` is only understood as the first statement of the loop body")
                return ("guard", self.cond(st.test))
            return ("if", self.cond(st.test), self.stmts(st.body), self.stmts(st.orelse))
        if isinstance(st, ast.Assign):
            if len(st.targets) != 1:
                raise Untranslatable(st, "multiple assignment")
            t = st.targets[0]
            if isinstance(t, ast.Name):
                if t.id in ("i", "p", "self", "np", "synapgrad"):
                    raise Untranslatable(st, "assignment to " + t.id)
                c.writes.append((("TLocal", t.id), "WAssign"))
                e = self.expr(st.value)
                self.locals.add(t.id)
                return ("assign", t.id, e)
            if isinstance(t, ast.Subscript) and _is_self_attr(t.value) and isinstance(t.slice, ast.Name) and t.slice.id == "i":
                name = t.value.attr
                if c.slot_kind(name) not in ("opt", "arr"):
                    raise Untranslatable(st, "store into " + ast.unparse(t))
                c.writes.append((("TSlot", name), "WAssign"))
                return ("slot_store", name, self.expr(st.value))
            if isinstance(t, ast.Attribute) and isinstance(t.value, ast.Name) and t.value.id == "p":
                if t.attr == "data":
                    c.writes.append((("TPData",), "WAssign"))
                    return ("data_assign", self.expr(st.value))
                c.writes.append((("TPOther", t.attr), "WAssign"))
                raise Untranslatable(st, "assignment to p." + t.attr)
            raise Untranslatable(st, "assignment target " + ast.unparse(t))
        if isinstance(st, ast.AugAssign):
            t = st.target
            opk = {ast.Add: "WAugAdd", ast.Sub: "WAugSub"}.get(type(st.op), "WAugOther")
            if isinstance(t, ast.Attribute) and isinstance(t.value, ast.Name) and t.value.id == "p":
                if t.attr != "data":
                    raise Untranslatable(st, "augmented assignment to p." + t.attr)
                c.writes.append((("TPData",), opk))
                if opk == "WAugOther":
                    raise Untranslatable(st, "augmented operator on p.data: " + type(st.op).__name__)
                return ("data_aug", "sub" if opk == "WAugSub" else "add", self.expr(st.value))
            if isinstance(t, ast.Subscript) and _is_self_attr(t.value) and isinstance(t.slice, ast.Name) and t.slice.id == "i":
                name = t.value.attr
                if c.slot_kind(name) != "int" or opk != "WAugAdd" or not (isinstance(st.value, ast.Constant) and type(st.value.value) is int and st.value.value >= 0):
                    raise Untranslatable(st, "augmented assignment " + ast.unparse(st))
                c.writes.append((("TSlot", name), opk))
                return ("slot_inc", name, st.value.value)
            raise Untranslatable(st, "augmented assignment target " + ast.unparse(t))
        if isinstance(st, ast.Expr) and isinstance(st.value, ast.Constant) and isinstance(st.value.value, str):
            return ("pass",)
        if isinstance(st, ast.Pass):
            return ("pass",)
        raise Untranslatable(st, "statement " + type(st).__name__ + ": " + ast.unparse(st)[:60])

    def expr(self, n):
        c = self.c
        if _const_num(n):
            return ("lit", Fraction(repr(n.value)))
        if isinstance(n, ast.Name):
            if n.id not in self.locals:
                raise Untranslatable(n, "name " + n.id)
            return ("local", n.id)
        if _is_self_attr(n):
            if n.attr == "t":
                return ("t",)
            if c.hyper_ty(n.attr) is not None:
                return ("hyper", n.attr)
            raise Untranslatable(n, "attribute self." + n.attr)
        if isinstance(n, ast.Attribute) and isinstance(n.value, ast.Name) and n.value.id == "p":
            if n.attr == "_grad":
                return ("pgrad",)
            if n.attr == "data":
                return ("pdata",)
            raise Untranslatable(n, "attribute p." + n.attr)
        if isinstance(n, ast.Subscript) and _is_self_attr(n.value) and isinstance(n.slice, ast.Name) and n.slice.id == "i":
            k = c.slot_kind(n.value.attr)
            if k is None:
                raise Untranslatable(n, "subscript " + ast.unparse(n))
            return ("islot", n.value.attr) if k == "int" else ("slot", n.value.attr)
        if isinstance(n, ast.BinOp):
            op = {ast.Add: "add", ast.Sub: "sub", ast.Mult: "mul", ast.Div: "div", ast.Pow: "pow"}.get(type(n.op))
            if op is None:
                raise Untranslatable(n, "operator " + type(n.op).__name__)
            return (op, self.expr(n.left), self.expr(n.right))
        if isinstance(n, ast.UnaryOp) and isinstance(n.op, ast.USub):
            return ("neg", self.expr(n.operand))
        if isinstance(n, ast.IfExp):
            return ("ifexp", self.cond(n.test), self.expr(n.body), self.expr(n.orelse))
        if isinstance(n, ast.Call) and not n.keywords:
            f = n.func
            if isinstance(f, ast.Attribute) and isinstance(f.value, ast.Name) and f.value.id == "np" and f.attr == "sqrt" and len(n.args) == 1:
                return ("sqrt", self.expr(n.args[0]))
            if isinstance(f, ast.Attribute) and f.attr == "copy" and not n.args:
                return ("copy", self.expr(f.value))
            raise Untranslatable(n, "call " + ast.unparse(n.func))
        raise Untranslatable(n, "expression " + type(n).__name__ + ": " + ast.unparse(n)[:60])

    def cond(self, n):
        c = self.c
        if isinstance(n, ast.BoolOp):
            op = "or" if isinstance(n.op, ast.Or) else "and"
            r = self.cond(n.values[0])
            for v in n.values[1:]:
                r = (op, r, self.cond(v))
            return r
        if isinstance(n, ast.UnaryOp) and isinstance(n.op, ast.Not):
            return ("not", self.cond(n.operand))
        if isinstance(n, ast.Attribute) and isinstance(n.value, ast.Name) and n.value.id == "p" and n.attr == "requires_grad":
            return ("req",)
        if _is_self_attr(n) and c.hyper_ty(n.attr) == "B":
            return ("hyperb", n.attr)
        if isinstance(n, ast.Compare) and len(n.ops) == 1:
            op, l, r = n.ops[0], n.left, n.comparators[0]
            if isinstance(op, (ast.Is, ast.IsNot)) and isinstance(r, ast.Constant) and r.value is None:
                tgt = self.expr(l)
                if tgt[0] not in ("pgrad", "slot"):
                    raise Untranslatable(n, "None test on " + ast.unparse(l))
                t = ("isnone", tgt)
                return t if isinstance(op, ast.Is) else ("not", t)
            name = {ast.Eq: "eq", ast.NotEq: "ne", ast.Gt: "gt", ast.GtE: "ge", ast.Lt: "lt", ast.LtE: "le"}.get(type(op))
            if name is None:
                raise Untranslatable(n, "comparison " + type(op).__name__)
            return ("cmp", name, self.expr(l), self.expr(r))
        raise Untranslatable(n, "condition " + ast.unparse(n)[:60])


def analyse(repo=None):
    """Parse optimizers.py -> {class name: ClassIR}. Raises Untranslatable."""
    repo = repo or common.REPO
    src = open(os.path.join(repo, SRC)).read()
    tree = ast.parse(src)
    classes = {n.name: n for n in tree.body if isinstance(n, ast.ClassDef)}
    if "Optimizer" not in classes:
        raise Untranslatable(tree, "class Optimizer not found")
    base_h = parse_base(classes["Optimizer"])
    res = {}
    global BASE_SUMMARY
    BASE_SUMMARY = base_summary(classes["Optimizer"])
    for name in CLASSES:
        if name not in classes:
            raise Untranslatable(tree, "class %s not found" % name)
        cls = classes[name]
        if [ast.unparse(b) for b in cls.bases] != ["Optimizer"]:
            raise Untranslatable(cls, "bases of " + name)
        meths = {m.name: m for m in cls.body if isinstance(m, ast.FunctionDef)}
        if set(meths) != {"__init__", "step"} or len(cls.body) != 2:
            raise Untranslatable(cls, "%s defines %s" % (name, sorted(meths)))
        cir = ClassIR(name)
        p = Parser(cir)
        p.parse_init(meths["__init__"], base_h)
        p.parse_step(meths["step"])
        res[name] = cir
    return res


# =========================================================================== IR -> Coq
def qlit(fr):
    fr = Fraction(fr)
    return "(Qmake %s %d)" % ("(%d)" % fr.numerator if fr.numerator < 0 else str(fr.numerator), fr.denominator)


class Printer:
    def __init__(self, cir):
        self.c = cir
        self.n = 0

    def fresh(self, base):
        self.n += 1
        return "%s_%d" % (base, self.n)

    def H(self, attr):
        return "(%s_%s h)" % (self.c.prefix, attr)

    # ---- expressions: returns (coq, type) ; type in Q N V
    def ev(self, e, env):
        k = e[0]
        if k == "lit":
            return qlit(e[1]), "Q"
        if k == "hyper":
            if self.c.hyper_ty(e[1]) != "Q":
                raise Untranslatable(None, "boolean hyper-parameter %s used as a number" % e[1])
            return self.H(e[1]), "Q"
        if k == "t":
            return "t", "N"
        if k == "islot":
            return env["slots"][e[1]]["cur"], "N"
        if k == "slot":
            s = env["slots"][e[1]]
            if s["status"] != "val":
                raise Untranslatable(None, "self.%s[i] is read where it may be None" % e[1])
            return s["cur"], "V"
        if k == "pgrad":
            if env["pg"] is None:
                raise Untranslatable(None, "p._grad is read without a preceding `p._grad is None -> continue` guard")
            return env["pg"], "V"
        if k == "pdata":
            return env["pdata"], "V"
        if k == "local":
            l = env["locals"].get(e[1])
            if l is None:
                raise Untranslatable(None, "local %s may be undefined here" % e[1])
            return l["v"], l["ty"]
        if k in ("add", "sub", "mul", "div"):
            (a, ta), (b, tb) = self.ev(e[1], env), self.ev(e[2], env)
            if "N" in (ta, tb):
                raise Untranslatable(None, "integer counter used in arithmetic other than as an exponent")
            if ta == "Q" and tb == "Q":
                return "(%s %s %s)" % ({"add": "Qplus", "sub": "Qminus", "mul": "Qmult", "div": "Qdiv"}[k], a, b), "Q"
            if ta == "Q":
                a = "(vconst O %s)" % a
            if tb == "Q":
                b = "(vconst O %s)" % b
            return "(v%s O %s %s)" % (k, a, b), "V"
        if k == "pow":
            (a, ta) = self.ev(e[1], env)
            if ta == "Q":
                (b, tb) = self.ev(e[2], env)
                if tb != "N":
                    raise Untranslatable(None, "scalar ** non-counter")
                return "(qpow %s %s)" % (a, b), "Q"
            if ta == "V" and e[2][0] == "lit" and e[2][1].denominator == 1 and 0 <= e[2][1] <= 8:
                return "(vpown O %s %d)" % (a, int(e[2][1])), "V"
            raise Untranslatable(None, "power expression")
        if k == "neg":
            a, ta = self.ev(e[1], env)
            if ta == "Q":
                return "(Qopp %s)" % a, "Q"
            if ta == "V":
                return "(vneg O %s)" % a, "V"
            raise Untranslatable(None, "negation of a counter")
        if k == "sqrt":
            a, ta = self.ev(e[1], env)
            if ta != "V":
                raise Untranslatable(None, "np.sqrt of a scalar")
            return "(vsqrt O %s)" % a, "V"
        if k == "copy":
            a, ta = self.ev(e[1], env)
            if ta != "V":
                raise Untranslatable(None, ".copy() of a scalar")
            return a, "V"
        if k == "ifexp":
            c = self.cond(e[1], env)
            (a, ta), (b, tb) = self.ev(e[2], env), self.ev(e[3], env)
            if ta != tb:
                if "N" in (ta, tb):
                    raise Untranslatable(None, "conditional expression mixing types")
                if ta == "Q":
                    a = "(vconst O %s)" % a
                if tb == "Q":
                    b = "(vconst O %s)" % b
                ta = "V"
            return "(if %s then %s else %s)" % (c, a, b), ta
        raise Untranslatable(None, "IR expression " + k)

    # ---- is the *object* denoted by e the gradient buffer p._grad ?  (Coq bool expression)
    def alias(self, e, env):
        k = e[0]
        if k == "pgrad":
            return "true"
        if k == "local":
            return env["locals"][e[1]].get("al", "false")
        if k == "ifexp":
            return "(if %s then %s else %s)" % (self.cond(e[1], env), self.alias(e[2], env), self.alias(e[3], env))
        return "false"      # arithmetic results, .copy(), np.sqrt: fresh arrays

    # ---- may the object denoted by e be a slot object or p.data itself ?  (static; storing such an object is refused)
    def holds(self, e, env):
        k = e[0]
        if k in ("slot", "pdata"):
            return True
        if k == "local":
            return env["locals"][e[1]].get("holds", False)
        if k == "ifexp":
            return self.holds(e[2], env) or self.holds(e[3], env)
        return False

    def cond(self, c, env):
        k = c[0]
        if k == "or":
            return "(%s || %s)" % (self.cond(c[1], env), self.cond(c[2], env))
        if k == "and":
            return "(%s && %s)" % (self.cond(c[1], env), self.cond(c[2], env))
        if k == "not":
            return "(negb %s)" % self.cond(c[1], env)
        if k == "req":
            return "p_requires_grad"
        if k == "hyperb":
            return self.H(c[1])
        if k == "isnone":
            t = c[1]
            if t[0] == "pgrad":
                return "(is_none p_grad)" if env["pg"] is None else "false"
            s = env["slots"][t[1]]
            if s["kind"] != "opt":
                return "false"
            return {"val": "false", "none": "true", "opt": "(is_none %s)" % s["cur"]}[s["status"]]
        if k == "cmp":
            (a, ta), (b, tb) = self.ev(c[2], env), self.ev(c[3], env)
            op = c[1]
            if ta == "Q" and tb == "Q":
                return {"eq": "(Qeq_bool %s %s)", "ne": "(negb (Qeq_bool %s %s))", "le": "(Qle_bool %s %s)",
                        "gt": "(negb (Qle_bool %s %s))"}.get(op, None) % (a, b) if op in ("eq", "ne", "le", "gt") else \
                       {"ge": "(Qle_bool %s %s)", "lt": "(negb (Qle_bool %s %s))"}[op] % (b, a)
            if ta == "N" and c[3][0] == "lit" and c[3][1].denominator == 1 and 0 <= c[3][1] < 1000:
                m = "%d" % int(c[3][1])
                return {"eq": "(Nat.eqb %s %s)", "ne": "(negb (Nat.eqb %s %s))", "le": "(Nat.leb %s %s)", "gt": "(negb (Nat.leb %s %s))"}[op] % (a, m) \
                    if op in ("eq", "ne", "le", "gt") else {"ge": "(Nat.leb %s %s)", "lt": "(negb (Nat.leb %s %s))"}[op] % (m, a)
            raise Untranslatable(None, "comparison of " + ta + " with " + tb)
        raise Untranslatable(None, "IR condition " + k)

    # ---- statements
    @staticmethod
    def clone(env):
        return copy.deepcopy(env)

    def block(self, stmts, env, k):
        if not stmts:
            return k(env)
        s, rest = stmts[0], stmts[1:]
        kind = s[0]
        if kind == "pass":
            return self.block(rest, env, k)
        if kind == "assign":
            _, name, e = s
            v, ty = self.ev(e, env)
            x = self.fresh(name)
            out = "let %s := %s in\n" % (x, v)
            ent = {"ty": ty, "v": x}
            if ty == "V":
                al = self.fresh(name + "_al")
                out += "let %s := %s in\n" % (al, self.alias(e, env))
                ent["al"] = al
                ent["holds"] = self.holds(e, env)
            env["locals"][name] = ent
            return out + self.block(rest, env, k)
        if kind == "slot_store":
            _, name, e = s
            v, ty = self.ev(e, env)
            if ty == "Q":
                v = "(vconst O %s)" % v
            elif ty != "V":
                raise Untranslatable(None, "counter stored into array slot " + name)
            if self.holds(e, env):
                raise Untranslatable(None, "self.%s[i] would share its array with another slot or with p.data" % name)
            x = self.fresh("s_" + name)
            u = self.fresh("u_" + name)
            out = "let %s := %s in\nlet %s := Store %s %s in\n" % (x, v, u, x, self.alias(e, env))
            sl = env["slots"][name]
            sl["cur"], sl["status"], sl["upd"] = x, "val", u
            return out + self.block(rest, env, k)
        if kind == "slot_inc":
            _, name, n = s
            sl = env["slots"][name]
            x = self.fresh("s_" + name)
            out = "let %s := (%s + %d)%%nat in\n" % (x, sl["cur"], n)
            sl["cur"] = x
            return out + self.block(rest, env, k)
        if kind in ("data_aug", "data_assign"):
            e = s[-1]
            v, ty = self.ev(e, env)
            if ty == "Q":
                v = "(vconst O %s)" % v
            elif ty != "V":
                raise Untranslatable(None, "counter written to p.data")
            x = self.fresh("p_data")
            if kind == "data_aug":
                out = "let %s := (v%s O %s %s) in\n" % (x, s[1], env["pdata"], v)
            else:
                out = "let %s := %s in\n" % (x, v)
            env["pdata"] = x
            return out + self.block(rest, env, k)
        if kind == "guard":
            c = self.cond(s[1], env)
            # does the guard establish p._grad is not None on the fall-through path?
            disj = []

            def flat(cc):
                if cc[0] == "or":
                    flat(cc[1]); flat(cc[2])
                else:
                    disj.append(cc)
            flat(s[1])
            inner_env = env
            if ("isnone", ("pgrad",)) in disj:
                pg = self.fresh("pg")
                inner_env["pg"] = pg
                return "if %s then None else\nmatch p_grad with\n| None => None\n| Some %s =>\n%s\nend" % (c, pg, self.block(rest, inner_env, k))
            return "if %s then None else\n%s" % (c, self.block(rest, inner_env, k))
        if kind == "if":
            return self.ifstmt(s, rest, env, k)
        raise Untranslatable(None, "IR statement " + kind)

    def modset(self, stmts, acc=None):
        acc = acc if acc is not None else []

        def add(x):
            if x not in acc:
                acc.append(x)
        for s in stmts:
            if s[0] == "assign":
                add(("local", s[1]))
            elif s[0] in ("slot_store", "slot_inc"):
                add(("slot", s[1]))
            elif s[0] in ("data_aug", "data_assign"):
                add(("pdata",))
            elif s[0] == "if":
                self.modset(s[2], acc); self.modset(s[3], acc)
            elif s[0] == "guard":
                raise Untranslatable(None, "`continue` inside a conditional")
        return acc

    def ifstmt(self, s, rest, env, k):
        _, c, th, el = s
        mods = self.modset(th + el)
        # a None test on an optional slot becomes a match that binds the value
        test = c
        pos = True
        while test[0] == "not":
            test, pos = test[1], not pos
        binder = None
        if test[0] == "isnone" and test[1][0] == "slot" and env["slots"][test[1][1]]["kind"] == "opt" and env["slots"][test[1][1]]["status"] == "opt":
            binder = test[1][1]
        cond_str = self.cond(c, env)
        scrut = env["slots"][binder]["cur"] if binder is not None else None
        envs = {}
        for which, body in (("T", th), ("E", el)):
            e2 = self.clone(env)
            if binder is not None:
                is_none_branch = (which == "T") == pos
                sl = e2["slots"][binder]
                if is_none_branch:
                    sl["status"] = "none"
                else:
                    sl["status"] = "val"
                    sl["cur"] = "sv_" + binder
            envs[which] = e2
        # dry run to learn the final environments
        finals = {}
        save_n = self.n
        for which, body in (("T", th), ("E", el)):
            box = {}
            self.block(body, self.clone(envs[which]), lambda e, box=box: box.setdefault("env", e) and "")
            finals[which] = box["env"]
        self.n = save_n
        # join description
        comps = []      # (kind, name, how)
        for m in mods:
            if m[0] == "local":
                a, b = finals["T"]["locals"].get(m[1]), finals["E"]["locals"].get(m[1])
                if a is None or b is None:
                    raise Untranslatable(None, "local %s is assigned on one branch only and undefined on the other" % m[1])
                ty = a["ty"] if a["ty"] == b["ty"] else None
                if ty is None:
                    raise Untranslatable(None, "local %s has different types on the two branches" % m[1])
                comps.append(("local", m[1], ty))
            elif m[0] == "slot":
                kind = env["slots"][m[1]]["kind"]
                if kind == "opt":
                    sa, sb = finals["T"]["slots"][m[1]]["status"], finals["E"]["slots"][m[1]]["status"]
                    comps.append(("slot", m[1], "val" if sa == sb == "val" else "opt"))
                else:
                    comps.append(("slot", m[1], kind))
            else:
                comps.append(("pdata", None, None))

        def tail(e):
            parts = []
            for kind, name, how in comps:
                if kind == "local":
                    parts.append(e["locals"][name]["v"])
                    if how == "V":
                        parts.append(e["locals"][name]["al"])
                elif kind == "slot":
                    sl = e["slots"][name]
                    if how == "val" or how == "arr":
                        parts += [sl["cur"], sl["upd"]]
                    elif how == "opt":
                        parts += [{"val": "(Some %s)" % sl["cur"], "opt": sl["cur"], "none": "None"}[sl["status"]], sl["upd"]]
                    else:
                        parts.append(sl["cur"])
                else:
                    parts.append(e["pdata"])
            return "(" + ", ".join(parts) + ")" if len(parts) != 1 else parts[0]
        bT = self.block(th, envs["T"], tail)
        bE = self.block(el, envs["E"], tail)
        # binders after the join
        names = []
        for kind, name, how in comps:
            if kind == "local":
                x = self.fresh(name)
                ent = {"ty": how, "v": x}
                names.append(x)
                if how == "V":
                    al = self.fresh(name + "_al")
                    names.append(al)
                    ent["al"] = al
                    ent["holds"] = finals["T"]["locals"][name].get("holds", False) or finals["E"]["locals"][name].get("holds", False)
                env["locals"][name] = ent
            elif kind == "slot":
                sl = env["slots"][name]
                x = self.fresh("s_" + name)
                names.append(x)
                sl["cur"] = x
                if how in ("val", "arr", "opt"):
                    u = self.fresh("u_" + name)
                    names.append(u)
                    sl["upd"] = u
                    if sl["kind"] == "opt":
                        sl["status"] = "val" if how == "val" else "opt"
            else:
                x = self.fresh("p_data")
                names.append(x)
                env["pdata"] = x
        if binder is not None:
            some_branch, none_branch = (bE, bT) if pos else (bT, bE)
            sel = "match %s with\n| Some sv_%s =>\n%s\n| None =>\n%s\nend" % (scrut, binder, some_branch, none_branch)
        else:
            sel = "if %s then\n%s\nelse\n%s" % (cond_str, bT, bE)
        if not names:
            return self.block(rest, env, k)
        pat = "'(" + ", ".join(names) + ")" if len(names) > 1 else names[0]
        return "let %s :=\n(%s) in\n%s" % (pat, sel, self.block(rest, env, k))

    def emit(self):
        c = self.c
        p = c.prefix
        out = []
        out.append("(* ---- %s.step: %s lines %d-%d (loop body) ---- *)" % (c.name, SRC, c.lines[0], c.lines[1]))
        out.append("Record %s_hyper := { %s }." % (p, "; ".join("%s_%s : %s" % (p, a, "Q" if t == "Q" else "bool") for a, t, _ in c.hypers)))
        for name, kind in c.slots:
            if kind == "opt":
                out.append("Definition %s_init_%s : option (V O) := None." % (p, name))
            elif kind == "arr":
                out.append("Definition %s_init_%s : V O := vconst O (Qmake 0 1)." % (p, name))
            else:
                out.append("Definition %s_init_%s : nat := 0." % (p, name))
        env = {"locals": {}, "slots": {}, "pdata": "p_data", "pg": None}
        params, rty, res = [], ["V O"], []
        for name, kind in c.slots:
            ty = {"opt": "option (V O)", "arr": "V O", "int": "nat"}[kind]
            params.append("(s_%s : %s)" % (name, ty))
            env["slots"][name] = {"kind": kind, "cur": "s_" + name, "status": "opt" if kind == "opt" else "val", "upd": "Keep"}
            rty.append("nat" if kind == "int" else "upd (V O)")

        def final(e):
            parts = [e["pdata"]]
            for name, kind in c.slots:
                parts.append(e["slots"][name]["cur"] if kind == "int" else e["slots"][name]["upd"])
            return "Some (" + ", ".join(parts) + ")"
        body = self.block(c.body, env, final)
        out.append("Definition %s_step (h : %s_hyper) (t : nat) (p_requires_grad : bool) (p_grad : option (V O)) %s (p_data : V O)\n  : option (%s) :=\n%s." % (
            p, p, " ".join(params), " * ".join(rty), body))
        def tgt(t):
            return "TPData" if t[0] == "TPData" else '(%s "%s")' % (t[0], t[1])
        out.append("Definition %s_writes : list (wtarget * wkind) :=\n  [%s]." % (p, "; ".join("(%s, %s)" % (tgt(t), k) for t, k in c.writes)))
        return "\n".join(out)


HEADER = """(* GENERATED by lib/py2coq/gen_optim.py from %s — do not edit.
   One state transformer per optimizer: the body of `for i, p in enumerate(self.parameters)` in step(). *)
From Coq Require Import List Bool Arith ZArith QArith String.
Import ListNotations.
From SG Require Import State.ArrOps.
Open Scope string_scope.
Open Scope bool_scope.

Section GenOptim.
Variable O : arr_ops.

"""


BASE_SUMMARY = ("parameters", "self.parameters")


def render(irs):
    parts = [HEADER % SRC]
    parts.append("(* Optimizer.__init__: `self.parameters = <this expression>`; step() and zero_grad() iterate `self.parameters` *)")
    parts.append('Definition optimizer_parameters_source : string := "%s".' % BASE_SUMMARY[0])
    parts.append('Definition optimizer_zero_grad_iterates : string := "%s".\n' % BASE_SUMMARY[1])
    for name in CLASSES:
        parts.append(Printer(irs[name]).emit())
        parts.append("")
    parts.append("End GenOptim.\n")
    return "\n".join(parts)


@register("optim")
def generate():
    irs = analyse()
    text = render(irs)
    common.write_if_changed(OUT, text)
    return irs


# =========================================================================== independent IR interpreter
class Box:
    """an array object (one element): identity matters, value is a Fraction"""
    __slots__ = ("v",)

    def __init__(self, v):
        self.v = v


class Interp:
    def __init__(self, cir, hyper, sqrt=None):
        self.c, self.h = cir, hyper
        self.sqrt = sqrt or (lambda x: Fraction(math.sqrt(x)))

    def val(self, x):
        return x.v if isinstance(x, Box) else x

    def ev(self, e, st):
        k = e[0]
        if k == "lit":
            return e[1]
        if k == "hyper":
            return self.h[e[1]]
        if k == "t":
            return st["t"]
        if k in ("islot", "slot"):
            return st["slots"][e[1]]
        if k == "pgrad":
            return st["pgrad"]
        if k == "pdata":
            return st["pdata"]
        if k == "local":
            return st["locals"][e[1]]
        if k in ("add", "sub", "mul", "div", "pow"):
            a, b = self.ev(e[1], st), self.ev(e[2], st)
            arr = isinstance(a, Box) or isinstance(b, Box)
            if a is None or b is None:
                raise TypeError("None in arithmetic")
            x, y = self.val(a), self.val(b)
            if k == "pow":
                y = Fraction(y)
                assert y.denominator == 1
                r = Fraction(x) ** int(y)
            else:
                r = {"add": lambda: x + y, "sub": lambda: x - y, "mul": lambda: x * y, "div": lambda: Fraction(x) / y}[k]()
            return Box(r) if arr else r
        if k == "neg":
            a = self.ev(e[1], st)
            return Box(-a.v) if isinstance(a, Box) else -a
        if k == "sqrt":
            a = self.ev(e[1], st)
            return Box(self.sqrt(a.v))
        if k == "copy":
            return Box(self.ev(e[1], st).v)
        if k == "ifexp":
            return self.ev(e[2], st) if self.cond(e[1], st) else self.ev(e[3], st)
        raise AssertionError(k)

    def cond(self, c, st):
        k = c[0]
        if k == "or":
            return self.cond(c[1], st) or self.cond(c[2], st)
        if k == "and":
            return self.cond(c[1], st) and self.cond(c[2], st)
        if k == "not":
            return not self.cond(c[1], st)
        if k == "req":
            return st["req"]
        if k == "hyperb":
            return bool(self.h[c[1]])
        if k == "isnone":
            return self.ev(c[1], st) is None
        if k == "cmp":
            a, b = self.val(self.ev(c[2], st)), self.val(self.ev(c[3], st))
            return {"eq": a == b, "ne": a != b, "gt": a > b, "ge": a >= b, "lt": a < b, "le": a <= b}[c[1]]
        raise AssertionError(k)

    def run(self, stmts, st):
        """returns False if the parameter was skipped (continue)"""
        for s in stmts:
            k = s[0]
            if k == "guard":
                if self.cond(s[1], st):
                    return False
            elif k == "assign":
                st["locals"][s[1]] = self.ev(s[2], st)
            elif k == "slot_store":
                v = self.ev(s[2], st)
                st["slots"][s[1]] = v if isinstance(v, Box) else Box(Fraction(v))
                st["alias"][s[1]] = v is st["pgrad"]
            elif k == "slot_inc":
                st["slots"][s[1]] += s[2]
            elif k == "data_aug":
                v = self.val(self.ev(s[2], st))
                st["pdata"].v = st["pdata"].v - v if s[1] == "sub" else st["pdata"].v + v      # in place
            elif k == "data_assign":
                v = self.ev(s[1], st)
                st["pdata"] = v if isinstance(v, Box) else Box(Fraction(v))
            elif k == "if":
                if self.run(s[2] if self.cond(s[1], st) else s[3], st) is False:
                    return False
            elif k == "pass":
                pass
            else:
                raise AssertionError(k)
        return True


HYPER_GRID = {
    "lr": [Fraction(1, 2), Fraction(1, 4), Fraction(1, 8)],
    "momentum": [Fraction(0), Fraction(1, 2)],
    "dampening": [Fraction(0), Fraction(1, 2)],
    "weight_decay": [Fraction(0), Fraction(1, 4)],
    "nesterov": [False, True],
    "maximize": [False, True],
    "beta1": [Fraction(1, 2), Fraction(3, 4)],
    "beta2": [Fraction(3, 4), Fraction(1, 2)],
    "epsilon": [Fraction(1, 8)],
}


def ctor_kwargs(cir, hyper):
    """constructor keyword arguments for the real class from hyper-parameter attribute values"""
    kw, tup = {}, {}
    for attr, ty, src in cir.hypers:
        v = hyper[attr]
        v = bool(v) if ty == "B" else float(v)
        if "[" in src:
            name, idx = src[:-1].split("[")
            tup.setdefault(name, {})[int(idx)] = v
        else:
            kw[src] = v
    for name, d in tup.items():
        kw[name] = tuple(d[i] for i in range(len(d)))
    return kw


def random_hyper(cir, rng):
    h = {}
    for attr, ty, src in cir.hypers:
        if attr not in HYPER_GRID:
            raise Untranslatable(None, "no value grid for hyper-parameter " + attr)
        h[attr] = rng.choice(HYPER_GRID[attr])
    if h.get("nesterov") and (h.get("momentum", 0) <= 0 or h.get("dampening", 0) != 0):
        h["momentum"], h["dampening"] = Fraction(1, 2), Fraction(0)
    return h


def selfcheck(impl, irs, rng, ncases):
    """IR interpreter vs the real step() on one-element parameters. Returns (cases, nontrivial, mismatches)."""
    np = impl.np
    sg = impl.synapgrad
    mism, nontrivial, cases = [], 0, 0
    for cname in CLASSES:
        cir = irs[cname]
        cls = getattr(impl.optim, cname)
        for _ in range(ncases):
            h = random_hyper(cir, rng)
            th0 = Fraction(rng.randint(-8, 8), 2)
            p = sg.Tensor(np.array([float(th0)], dtype=np.float64), requires_grad=True)
            opt = cls([p], **ctor_kwargs(cir, h))
            st = {"t": 0, "slots": {n: (None if k == "opt" else 0) for n, k in cir.slots}, "alias": {}, "pdata": Box(th0), "locals": {}}
            nsteps = rng.randint(1, 4)
            desc = {"class": cname, "hyper": {k: str(v) for k, v in h.items()}, "theta0": str(th0), "steps": []}
            bad = None
            for j in range(nsteps):
                mode = rng.choice(["grad", "grad", "grad", "nograd", "frozen"])
                g = Fraction(rng.randint(-8, 8), 2)
                if mode == "nograd":
                    p._grad = None
                else:
                    p._grad = np.array([float(g)], dtype=np.float64)
                p.requires_grad = (mode != "frozen")
                desc["steps"].append((mode, str(g)))
                before = float(p.data[0])
                opt.step()
                st["t"] += 1
                st["locals"] = {}
                st["alias"] = {}
                st["req"] = p.requires_grad
                st["pgrad"] = None if mode == "nograd" else Box(g)
                Interp(cir, h).run(cir.body, st)
                cases += 1
                if mode == "grad" and j > 0:
                    nontrivial += 1
                got = float(p.data[0])
                want = st["pdata"].v
                exact = cname == "SGD"
                ok = (Fraction(got) == want) if exact else abs(got - float(want)) <= 1e-12 * max(1.0, abs(got))
                for n, k in cir.slots:
                    real = getattr(opt, n)[0]
                    mine = st["slots"][n]
                    if k == "int":
                        ok = ok and real == mine
                    elif mine is None or real is None or isinstance(real, int):
                        ok = ok and ((mine is None) == (real is None)) and (real is None or mine is None or not isinstance(mine, Box) and real == mine)
                    else:
                        rv = float(real[0])
                        ok = ok and ((Fraction(rv) == mine.v) if exact else abs(rv - float(mine.v)) <= 1e-12 * max(1.0, abs(rv)))
                        if n in st["alias"] and p._grad is not None:
                            ok = ok and (st["alias"][n] == (real is p._grad))
                if not ok:
                    bad = dict(desc, observed_data=got, interpreter_data=str(want), before=before,
                               observed_slots={n: repr(getattr(opt, n)[0]) for n, _ in cir.slots},
                               interpreter_slots={n: (str(v.v) if isinstance(v, Box) else repr(v)) for n, v in st["slots"].items()})
                    break
            if bad:
                mism.append(bad)
    return cases, nontrivial, mism


if __name__ == "__main__":
    generate()
    print(open(OUT).read())
