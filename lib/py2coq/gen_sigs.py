"""gen_sigs: public signatures and instance state of synapgrad/nn/utils/data.py and synapgrad/nn/modules.py
   -> coq/Gen/GenDataSigs.v (property C18) and coq/Gen/GenModuleSigs.v (property C12).

The hand-written models State/Data.v and State/Modules.v fix (a) which parameters the public entry points take and
in which order (a positional call binds by position), (b) which attributes make up the state of a DataLoader / Module.
This generator reads both off the source with `ast` and emits them as Coq constants; Props/C18.v and Props/C12.v
contain the obligation that they equal the documented ones.

  signatures : list (qualified name * list (parameter name * kind * default))
               kind in "pos" | "varargs" | "kwonly" | "varkw"; default = source text of the default, "" if none.
               Every top-level function and every method of every top-level class (nested helper functions are not public).
  state      : list (class name * list attribute)  — every `self.<attr>` that is assigned, augmented-assigned or deleted
               anywhere in the class (first-occurrence order), i.e. the attributes the class itself writes.

Fail closed: positional-only parameters, decorators other than @abstractmethod / @property, assignments to `self.__dict__`
/ `setattr(self, ...)` / `vars(self)` / `object.__setattr__(self, <non-constant>, ...)`, a top-level statement that is
not an import / def / class, and tuple targets containing `self.x` in forms not understood raise `Untranslatable`.
`selfcheck()` compares the signatures with `inspect.signature` of the imported objects.
"""
import ast, os
from lib import common
from lib.py2coq.main import register

DATA = "synapgrad/nn/utils/data.py"
MODULES = "synapgrad/nn/modules.py"
OUT_DATA = os.path.join(common.COQ, "Gen", "GenDataSigs.v")
OUT_MODULES = os.path.join(common.COQ, "Gen", "GenModuleSigs.v")
OK_DECORATORS = {"abstractmethod", "property", "staticmethod", "classmethod"}


class Untranslatable(Exception):
    def __init__(self, file, node, what):
        super().__init__("%s:%s: %s" % (file, getattr(node, "lineno", "?"), what))


def _mangle(name, cls):
    """Python's private-name mangling of identifiers inside a class body"""
    if cls and name.startswith("__") and not name.endswith("__"):
        return "_%s%s" % (cls.lstrip("_"), name)
    return name


def _params(file, fn, cls=None):
    a = fn.args
    if a.posonlyargs:
        raise Untranslatable(file, fn, "positional-only parameters")
    out = []
    ndef = len(a.defaults)
    npos = len(a.args)
    for i, arg in enumerate(a.args):
        d = a.defaults[i - (npos - ndef)] if i >= npos - ndef else None
        out.append((_mangle(arg.arg, cls), "pos", ast.unparse(d) if d is not None else ""))
    if a.vararg:
        out.append((_mangle(a.vararg.arg, cls), "varargs", ""))
    for arg, d in zip(a.kwonlyargs, a.kw_defaults):
        out.append((_mangle(arg.arg, cls), "kwonly", ast.unparse(d) if d is not None else ""))
    if a.kwarg:
        out.append((_mangle(a.kwarg.arg, cls), "varkw", ""))
    return out


def _check_decorators(file, fn):
    for d in fn.decorator_list:
        name = d.id if isinstance(d, ast.Name) else (d.attr if isinstance(d, ast.Attribute) else None)
        if name not in OK_DECORATORS:
            raise Untranslatable(file, fn, "decorator %s" % ast.unparse(d))


def _self_targets(file, cls):
    """attributes of `self` written anywhere in the class"""
    attrs = []

    def add(a):
        if a not in attrs:
            attrs.append(a)

    def target(t, selfname):
        if isinstance(t, ast.Attribute) and isinstance(t.value, ast.Name) and t.value.id == selfname:
            add(t.attr)
        elif isinstance(t, (ast.Tuple, ast.List)):
            for e in t.elts:
                target(e, selfname)
        elif isinstance(t, ast.Starred):
            target(t.value, selfname)
        elif isinstance(t, ast.Subscript):
            # self.__dict__[...] = ...  would add state behind our back
            v = t.value
            if isinstance(v, ast.Attribute) and isinstance(v.value, ast.Name) and v.value.id == selfname and v.attr == "__dict__":
                raise Untranslatable(file, t, "assignment through self.__dict__")

    for fn in cls.body:
        if not isinstance(fn, ast.FunctionDef) or not fn.args.args:
            continue
        selfname = fn.args.args[0].arg
        for n in ast.walk(fn):
            if isinstance(n, ast.Assign):
                for t in n.targets:
                    target(t, selfname)
            elif isinstance(n, (ast.AugAssign, ast.AnnAssign)):
                target(n.target, selfname)
            elif isinstance(n, ast.Delete):
                for t in n.targets:
                    target(t, selfname)
            elif isinstance(n, (ast.For, ast.AsyncFor)):
                target(n.target, selfname)
            elif isinstance(n, ast.withitem) and n.optional_vars is not None:
                target(n.optional_vars, selfname)
            elif isinstance(n, ast.NamedExpr):
                target(n.target, selfname)
            elif isinstance(n, ast.Call):
                f = n.func
                fname = f.id if isinstance(f, ast.Name) else None
                is_obj_setattr = (isinstance(f, ast.Attribute) and f.attr == "__setattr__" and isinstance(f.value, ast.Name) and f.value.id == "object")
                if fname in ("setattr", "vars") or is_obj_setattr:
                    args = n.args
                    if fname == "vars":
                        if args and isinstance(args[0], ast.Name) and args[0].id == selfname:
                            raise Untranslatable(file, n, "vars(self)")
                        continue
                    if args and isinstance(args[0], ast.Name) and args[0].id == selfname:
                        if len(args) >= 2 and isinstance(args[1], ast.Constant) and isinstance(args[1].value, str):
                            add(args[1].value)
                        elif len(args) >= 2 and isinstance(args[1], ast.Name) and args[1].id in [a.arg for a in fn.args.args]:
                            # object.__setattr__(self, name, value) with `name` a parameter of the method: the registry
                            # mechanism of Module (register_module / register_parameter / __setattr__): user attributes, not class state
                            add("<attribute named by parameter %s>" % args[1].id)
                        else:
                            raise Untranslatable(file, n, "dynamic attribute assignment on self")
    return attrs


def analyse(rel):
    path = os.path.join(common.REPO, rel)
    tree = ast.parse(open(path).read(), filename=path)
    sigs, state = [], []
    for node in tree.body:
        if isinstance(node, (ast.Import, ast.ImportFrom)):
            continue
        if isinstance(node, ast.Expr) and isinstance(node.value, ast.Constant) and isinstance(node.value.value, str):
            continue
        if isinstance(node, ast.FunctionDef):
            _check_decorators(rel, node)
            sigs.append((node.name, _params(rel, node)))
        elif isinstance(node, ast.ClassDef):
            if node.decorator_list:
                raise Untranslatable(rel, node, "class decorator")
            for item in node.body:
                if isinstance(item, ast.FunctionDef):
                    _check_decorators(rel, item)
                    sigs.append(("%s.%s" % (node.name, item.name), _params(rel, item, node.name)))
                elif isinstance(item, ast.Expr) and isinstance(item.value, ast.Constant) and isinstance(item.value.value, str):
                    continue
                elif isinstance(item, ast.Pass):
                    continue
                else:
                    raise Untranslatable(rel, item, "class-level statement %s" % type(item).__name__)
            state.append((node.name, _self_targets(rel, node)))
        else:
            raise Untranslatable(rel, node, "top-level statement %s" % type(node).__name__)
    return {"file": rel, "signatures": sigs, "state": state}


def cstr(s):
    return '"%s"' % s.replace('"', '""')


def render(prefix, G):
    lines = ["(* generated by lib/py2coq/gen_sigs.py from %s — do not edit *)" % G["file"],
             "From Coq Require Import String List.", "Import ListNotations.", "Local Open Scope string_scope.", ""]
    rows = []
    for name, ps in G["signatures"]:
        rows.append("  (%s, [%s])" % (cstr(name), "; ".join("(%s, %s, %s)" % (cstr(n), cstr(k), cstr(d)) for n, k, d in ps)))
    lines.append("Definition %s_signatures : list (string * list (string * string * string)) :=\n [\n%s\n ]." % (prefix, ";\n".join(rows)))
    rows = ["  (%s, [%s])" % (cstr(c), "; ".join(cstr(a) for a in attrs)) for c, attrs in G["state"]]
    lines.append("")
    lines.append("Definition %s_state : list (string * list string) :=\n [\n%s\n ]." % (prefix, ";\n".join(rows)))
    return "\n".join(lines) + "\n"


def refusal(prefix, rel, msg):
    return ("(* lib/py2coq/gen_sigs.py refused to translate %s: %s *)\nFrom Coq Require Import String List.\n"
            "Definition %s_signatures : False := \"translator refused\"%%string.\n" % (rel, msg.replace("*)", "* )"), prefix))


@register("data_sigs")
def generate_data():
    G = analyse(DATA)
    common.write_if_changed(OUT_DATA, render("data", G))
    return G


@register("module_sigs")
def generate_modules():
    G = analyse(MODULES)
    common.write_if_changed(OUT_MODULES, render("modules", G))
    return G


def selfcheck(G, module):
    """independent evaluator: inspect.signature of the imported objects. Returns (cases, mismatches)."""
    import inspect
    kinds = {inspect.Parameter.POSITIONAL_OR_KEYWORD: "pos", inspect.Parameter.VAR_POSITIONAL: "varargs",
             inspect.Parameter.KEYWORD_ONLY: "kwonly", inspect.Parameter.VAR_KEYWORD: "varkw",
             inspect.Parameter.POSITIONAL_ONLY: "posonly"}
    mism = []
    n = 0
    seen = set()
    for qual, ps in G["signatures"]:
        n += 1
        obj = module
        try:
            for part in qual.split("."):
                obj = inspect.getattr_static(obj, part) if not inspect.ismodule(obj) else getattr(obj, part)
            if isinstance(obj, (staticmethod, classmethod)):
                obj = obj.__func__
            real = [(p.name, kinds[p.kind], p.default is not inspect.Parameter.empty) for p in inspect.signature(obj).parameters.values()]
        except Exception as ex:
            mism.append({"function": qual, "error": repr(ex)}); continue
        mine = [(a, k, d != "") for a, k, d in ps]
        if real != mine:
            mism.append({"function": qual, "translator": mine, "inspect": real})
        seen.add(qual)
    # nothing public missing: every function / class defined IN this module must have been listed
    for name, obj in vars(module).items():
        if getattr(obj, "__module__", None) != module.__name__:
            continue
        if inspect.isfunction(obj) and name not in seen:
            mism.append({"function": name, "error": "defined in the module but not in the generated table"})
        if inspect.isclass(obj):
            for mname, m in vars(obj).items():
                if inspect.isfunction(m) and "%s.%s" % (name, mname) not in seen:
                    mism.append({"function": "%s.%s" % (name, mname), "error": "defined in the class but not in the generated table"})
    return n, mism
