"""Self-check of the vector-kernel translator (run by every check that consumes Gen/GenVecKernels.v).

1. kernels: the translator's IR is evaluated by `gen_veckernels.Ev` (plain Python lists + math, no NumPy) on EVERY FIBRE
   of random small N-D arrays and compared with what the real kernel of cpu_ops.py returns for the whole array:
   the fibre is extracted with np.moveaxis (reduction axis in every position, negative axes too; rows for the
   losses; channels for batch-norm).  This validates the translator AND the one-fibre-at-a-time reading of
   `axis= / keepdims= / reshape(keepdims_shape) / [range(n), y]`.  Tolerance 1e-12 relative (pairwise vs sequential
   summation) -- this is validation of a tie, not a theorem.
2. wiring: the wrappers of nn/functional.py are run on real Tensors with the backward kernel replaced by a recorder;
   the arrays it receives are compared (by identity / value) with what the extracted wiring says, and the gradient each
   input receives with the kernel result the wiring names.
"""
import math
import numpy as np
from lib.py2coq import gen_veckernels as G

TOL = 1e-12


def close(a, b):
    if a is None or b is None:
        return a is None and b is None
    a, b = float(a), float(b)
    if math.isnan(a) or math.isnan(b):
        return False
    return abs(a - b) <= TOL * max(1.0, abs(a), abs(b))


def fibres(arr, axis):
    """(number of fibres, n) matrix of the 1-D sections of arr along axis"""
    m = np.moveaxis(arr, axis, -1)
    return m.reshape(-1, arr.shape[axis])


def channel_fibres(arr):
    m = np.moveaxis(arr, 1, 0)
    return m.reshape(arr.shape[1], -1)


def rand_array(rs, shape, spread):
    a = rs.standard_normal(shape) * spread
    if a.size and rs.random() < 0.3:        # ties of the maximum and exact zeros
        flat = a.reshape(-1)
        flat[rs.randint(flat.size)] = flat[rs.randint(flat.size)]
    return a


def selfcheck_kernels(ir, cpu_ops, rng, quick=True):
    """returns (cases, nontrivial, mismatches, samples)"""
    ev = G.Ev(ir)
    rs = np.random.RandomState(rng.randrange(2 ** 31))
    mism, samples = [], []
    cases = nontrivial = 0
    reps = 2 if quick else 8

    have = set(ir["kernels"])

    def cmp_vec(kernel, desc, got, want):
        nonlocal cases, nontrivial
        cases += 1
        if len(want) > 1:
            nontrivial += 1
        ok = len(got) == len(want) and all(close(g, w) for g, w in zip(got, want))
        if not ok:
            mism.append({"kernel": kernel, "case": desc, "translated": [float(v) for v in got][:8], "implementation": [float(v) for v in want][:8]})
        return ok

    # ---- softmax family: every rank 1..4, every axis (positive and negative)
    shapes = []
    for rank in (1, 2, 3, 4):
        for _ in range(reps):
            shapes.append(tuple(int(rs.randint(1, 5)) for _ in range(rank)))
    shapes += [(2, 3), (3, 1, 2), (1,), (1, 4)]
    for shape in shapes:
        rank = len(shape)
        for axis in range(-rank, rank):
            a = rand_array(rs, shape, rs.choice([0.5, 3.0, 30.0]))
            g = rs.standard_normal(shape)
            for kname, impl_args, ir_args in (
                ("softmax_forward", (a, axis), lambda f: {"a": f[0]}),
                ("log_softmax_forward", (a, axis), lambda f: {"a": f[0]}),
            ):
                if kname not in have:
                    continue
                out = getattr(cpu_ops, kname)(*[x.copy() if isinstance(x, np.ndarray) else x for x in impl_args])
                fa, fo = fibres(a, axis), fibres(out, axis)
                for r in range(fa.shape[0]):
                    got = ev.run(kname, {"a": [float(v) for v in fa[r]]})[0]
                    cmp_vec(kname, {"shape": shape, "axis": axis, "fibre": r, "a": fa[r].tolist()}, got, fo[r])
            s = cpu_ops.softmax_forward(a.copy(), axis)
            ls = cpu_ops.log_softmax_forward(a.copy(), axis)
            for kname, second, pname in (("softmax_backward", s, "softmax_a"), ("log_softmax_backward", ls, "log_softmax_a")):
                if kname not in have:
                    continue
                out = getattr(cpu_ops, kname)(g.copy(), second.copy(), axis)
                fg, fs, fo = fibres(g, axis), fibres(second, axis), fibres(out, axis)
                for r in range(fg.shape[0]):
                    got = ev.run(kname, {"grad": [float(v) for v in fg[r]], pname: [float(v) for v in fs[r]]})[0]
                    cmp_vec(kname, {"shape": shape, "axis": axis, "fibre": r, "grad": fg[r].tolist(), pname: fs[r].tolist()}, got, fo[r])
    samples.append({"kernel": "softmax_forward", "shape": list(shapes[-3]), "axes": list(range(-len(shapes[-3]), len(shapes[-3])))})

    # ---- nll / cross-entropy: rows of an (N, C) array
    for _ in range(6 * reps):
        N, C = int(rs.randint(1, 6)), int(rs.randint(1, 6))
        yp = rand_array(rs, (N, C), rs.choice([1.0, 10.0]))
        yt = rs.randint(0, C, size=(N,))
        g = rs.standard_normal((N, 1))
        for kname in ("nll_loss_forward", "cross_entropy_loss_forward"):
            if kname not in have:
                continue
            out = getattr(cpu_ops, kname)(yp.copy(), yt.copy())
            nret = len(ir["kernels"][kname]["ret"])
            if not isinstance(out, np.ndarray) or nret != 1:
                mism.append({"kernel": kname, "case": "returns %s, translated with %d result(s); only single-array results are compared here"
                             % (type(out).__name__ + ("(%d)" % len(out) if isinstance(out, tuple) else ""), nret)}); continue
            want_shape = (N, 1) if ir["kernels"][kname]["ret"][0][1] == "keep" else (N,)     # the kind IS the reading of the shape
            if out.shape != want_shape:
                mism.append({"kernel": kname, "case": "result shape %s, translated as %s" % (out.shape, want_shape)}); continue
            for r in range(N):
                got = ev.run(kname, {"y_pred": yp[r].tolist(), "y_true": int(yt[r])})
                cmp_vec(kname, {"N": N, "C": C, "row": r, "y_pred": yp[r].tolist(), "y_true": int(yt[r])}, got, [out.reshape(-1)[r]])
                nontrivial += 1 if C > 1 else 0
        for kname in ("nll_loss_backward", "cross_entropy_loss_backward"):
            if kname not in have:
                continue
            gk = dict(ir["kernels"][kname]["params"])["grad"]
            out = getattr(cpu_ops, kname)(g.copy() if gk == "keep" else g.reshape(-1).copy(), yp.copy(), yt.copy())
            if out.shape != (N, C):
                mism.append({"kernel": kname, "case": "result shape %s for an upstream gradient of shape %s" % (out.shape, "(N,1)" if gk == "keep" else "(N,)")}); continue
            for r in range(N):
                got = ev.run(kname, {"grad": float(g[r, 0]), "y_pred": yp[r].tolist(), "y_true": int(yt[r])})[0]
                cmp_vec(kname, {"N": N, "C": C, "row": r, "grad": float(g[r, 0]), "y_pred": yp[r].tolist(), "y_true": int(yt[r])}, got, out[r])

    # ---- batch-norm: channels of an (N, C, *spatial) array, every mode
    def opt(present, C, lo, hi):
        return rs.uniform(lo, hi, size=(C,)) if present else None
    modes = [(tr, hg, hb, hrm, hrv) for tr in (False, True) for hg in (False, True) for hb in (False, True)
             for hrm in (False, True) for hrv in (False, True)]
    for (tr, hg, hb, hrm, hrv) in modes:
        for _ in range(1 if quick else 3):
            rank = int(rs.randint(2, 5))
            shape = (int(rs.randint(2, 4)), int(rs.randint(1, 4))) + tuple(int(rs.randint(1, 4)) for _ in range(rank - 2))
            C = shape[1]
            x = rand_array(rs, shape, 2.0) + rs.uniform(-3, 3)
            gamma, beta = opt(hg, C, -2, 2), opt(hb, C, -2, 2)
            rm, rv = opt(hrm, C, -2, 2), opt(hrv, C, 0.3, 3)
            mom, eps = float(rs.choice([0.1, 0.3])), float(rs.choice([1e-5, 1e-3, 0.1]))
            cp = lambda v: None if v is None else v.copy()
            fx = channel_fibres(x)
            if "batch_norm_forward" not in have:
                res = (None,) * 5
            else:
                res = cpu_ops.batch_norm_forward(x.copy(), cp(gamma), cp(beta), cp(rm), cp(rv), tr, mom, eps)
            if len(res) != 5:
                mism.append({"kernel": "batch_norm_forward", "case": "returns %d values" % len(res)}); continue
            out, nrm, nrv, mean, var = res
            fo = channel_fibres(out) if out is not None else None
            for c in range(C if out is not None else 0):
                sc = lambda v: None if v is None else float(v[c])
                got = ev.run("batch_norm_forward", {"x": fx[c].tolist(), "gamma": sc(gamma), "beta": sc(beta), "running_mean": sc(rm),
                                                    "running_var": sc(rv), "training": tr, "momentum": mom, "eps": eps})
                desc = {"shape": shape, "channel": c, "training": tr, "gamma": sc(gamma), "beta": sc(beta), "running_mean": sc(rm),
                        "running_var": sc(rv), "momentum": mom, "eps": eps, "x": fx[c].tolist()}
                cmp_vec("batch_norm_forward", desc, got[0], fo[c])
                want = [sc(nrm), sc(nrv), sc(mean), sc(var)]
                cases += 1
                if not all(close(a, b) for a, b in zip(got[1:], want)):
                    mism.append({"kernel": "batch_norm_forward/statistics", "case": desc, "translated": got[1:], "implementation": want})
            # backward with arbitrary saved statistics
            g = rs.standard_normal(shape)
            mean_s, var_s = rs.uniform(-2, 2, size=(C,)), rs.uniform(0.3, 3, size=(C,))
            track = bool(hrm and hrv)
            if "batch_norm_backward" not in have:
                continue
            res = cpu_ops.batch_norm_backward(g.copy(), x.copy(), cp(gamma), cp(beta), track, tr, eps, mean_s.copy(), var_s.copy())
            if len(res) != 3:
                mism.append({"kernel": "batch_norm_backward", "case": "returns %d values" % len(res)}); continue
            dx, dg, db = res
            fg, fdx = channel_fibres(g), channel_fibres(dx)
            for c in range(C):
                sc = lambda v: None if v is None else float(v[c])
                got = ev.run("batch_norm_backward", {"grad": fg[c].tolist(), "x": fx[c].tolist(), "gamma": sc(gamma), "beta": sc(beta),
                                                     "track_running_stats": track, "training": tr, "eps": eps,
                                                     "mean": float(mean_s[c]), "variance": float(var_s[c])})
                desc = {"shape": shape, "channel": c, "training": tr, "track_running_stats": track, "gamma": sc(gamma), "beta": sc(beta),
                        "eps": eps, "mean": float(mean_s[c]), "variance": float(var_s[c]), "x": fx[c].tolist(), "grad": fg[c].tolist()}
                cmp_vec("batch_norm_backward", desc, got[0], fdx[c])
                cases += 1
                if not (close(got[1], sc(dg)) and close(got[2], sc(db))):
                    mism.append({"kernel": "batch_norm_backward/gamma,beta", "case": desc, "translated": got[1:], "implementation": [sc(dg), sc(db)]})
    # ---- log_forward (scalar; used by the C14 epsilon bound)
    for v in ((0.0, 1e-13, 0.3, 1.0, 7.5) if "log_forward" in have else ()):
        cases += 1
        got = ev.run("log_forward", {"a": v})[0]
        want = float(cpu_ops.log_forward(np.array(v)))
        if not close(got, want):
            mism.append({"kernel": "log_forward", "case": v, "translated": got, "implementation": want})
    return cases, nontrivial, mism, samples


def selfcheck_wiring(w, impl, rng):
    """Run each wrapper on Tensors with a recording backward kernel; compare with the extracted wiring."""
    np_ = impl.np
    NF, sg = impl.NF, impl.synapgrad
    rs = np.random.RandomState(rng.randrange(2 ** 31))
    mism = []
    cases = 0

    def T(a, req=True):
        return sg.Tensor(np_.array(a, dtype=np_.float64), requires_grad=req)
    configs = []
    x = rs.standard_normal((3, 4))
    configs.append(("softmax", dict(x=T(x)), dict(dim=1)))
    configs.append(("log_softmax", dict(x=T(x)), dict(dim=0)))
    labels = sg.Tensor(np_.array([1, 0, 3]), requires_grad=False)
    configs.append(("nll_loss", dict(y_pred=T(x)), dict(y_true=labels)))
    configs.append(("cross_entropy", dict(y_pred=T(x)), dict(y_true=labels)))
    for tr in (True, False):
        for stats in (True, False):
            bx = rs.standard_normal((4, 3, 2))
            configs.append(("batch_norm", dict(x=T(bx), weight=T(rs.uniform(0.5, 2, 3)), bias=T(rs.uniform(-1, 1, 3))),
                            dict(running_mean=T(rs.uniform(-1, 1, 3), False) if stats else None,
                                 running_var=T(rs.uniform(0.5, 2, 3), False) if stats else None, training=tr, momentum=0.1, eps=1e-3)))
    for name, tins, other in configs:
        if name not in w:
            continue
        cases += 1
        wi = w[name]
        stem = wi["stem"]
        rec = {}
        f_orig, b_orig = getattr(NF.cpu_ops, stem + "_forward"), getattr(NF.cpu_ops, stem + "_backward")

        def frec(*a, **k):
            rec["fargs"] = a
            rec["fres"] = f_orig(*a, **k)
            return rec["fres"]

        def brec(*a, **k):
            rec["bargs"] = a
            rec["bres"] = b_orig(*a, **k)
            return rec["bres"]
        setattr(NF.cpu_ops, stem + "_forward", frec)
        setattr(NF.cpu_ops, stem + "_backward", brec)
        try:
            kwargs = dict(tins); kwargs.update(other)
            args = [kwargs[p] for p in wi["params"]]
            before = {p: (None if t is None else t.data) for p, t in kwargs.items() if hasattr(t, "data")}
            out = getattr(NF, name)(*args)
            g = rs.standard_normal(out.shape) + 3.0
            out.backward(sg.Tensor(g.copy()))
        except Exception as ex:       # noqa
            mism.append({"wrapper": name, "error": repr(ex)})
            continue
        finally:
            setattr(NF.cpu_ops, stem + "_forward", f_orig)
            setattr(NF.cpu_ops, stem + "_backward", b_orig)
        fres = rec["fres"] if isinstance(rec["fres"], tuple) else (rec["fres"],)
        bres = rec["bres"] if isinstance(rec["bres"], tuple) else (rec["bres"],)
        exp_b = []
        for a in wi["bargs"]:
            if a[0] == "fout_rest":
                exp_b += [("fout", j) for j in range(a[1], len(fres))]
            else:
                exp_b.append(a)
        problems = []
        if len(exp_b) != len(rec["bargs"]):
            problems.append("backward kernel received %d arguments, wiring lists %d" % (len(rec["bargs"]), len(exp_b)))
        for i, (a, got) in enumerate(zip(exp_b, rec["bargs"])):
            if a[0] == "grad":
                ok = isinstance(got, np_.ndarray) and got.shape == g.shape and np_.array_equal(got, g)
            elif a[0] == "fout":
                ok = got is fres[a[1]] or (a[1] == 0 and got is out.data) or (isinstance(got, np_.ndarray) and np_.array_equal(got, fres[a[1]]))
                if a[1] == 0 and not (got is out.data):
                    ok = False
            elif a[0] in ("input", "input_opt"):
                ok = got is before[a[1]] if a[1] in before else got is None
            elif a[0] == "param":
                ok = got is kwargs[a[1]] or got == kwargs[a[1]]
            elif a[0] == "all_given":
                ok = got == all(kwargs.get(n) is not None for n in a[1])
            else:
                ok = False
            if not ok:
                problems.append("backward argument %d is not %s" % (i, (a,)))
        for inp, idx in wi["acc"].items():
            t = kwargs[inp]
            if t is None or t.grad is None or not np_.allclose(t.grad.data, bres[idx], rtol=0, atol=0):
                problems.append("gradient of %s is not result %d of the backward kernel" % (inp, idx))
        for p, t in tins.items():
            if p not in wi["acc"]:
                problems.append("input %s requires grad but the wiring has no accumulation for it" % p)
        if problems:
            mism.append({"wrapper": name, "config": {k: (v if isinstance(v, (bool, int, float)) else None) for k, v in other.items()}, "problems": problems})
    return cases, mism


def selfcheck_losses(ir, w, impl, rng):
    """nn.NLLLoss / nn.CrossEntropyLoss with reduction sum | mean | none on real Tensors vs the translated reading:
    per-row value (IR of the forward kernel, evaluated per row) then the reduction Loss.__call__ was translated to."""
    lo = w.get("__losses__") or {}
    np_ = impl.np
    sg, nn = impl.synapgrad, impl.nn
    rs = np.random.RandomState(rng.randrange(2 ** 31))
    ev = G.Ev(ir)
    cases, mism = 0, []
    for cls, wrapper in lo.get("modules", {}).items():
        kname = G.WRAPPERS.get(wrapper, "") + "_forward"
        if kname not in ir["kernels"]:
            continue
        for red in ("sum", "mean", "none"):
            if red not in lo.get("reduce", {}):
                continue
            for _ in range(4):
                N, C = int(rs.randint(1, 6)), int(rs.randint(1, 5))
                x = rs.standard_normal((N, C)) * 3
                y = rs.randint(0, C, size=(N,))
                cases += 1
                try:
                    out = np_.array(getattr(nn, cls)(reduction=red)(sg.Tensor(x.copy()), sg.Tensor(y.copy())).data, dtype=np_.float64)
                except Exception as ex:
                    mism.append({"module": cls, "reduction": red, "error": repr(ex)}); continue
                rows = [ev.run(kname, {"y_pred": x[r].tolist(), "y_true": int(y[r])})[0] for r in range(N)]
                op = lo["reduce"][red]
                want = [math.fsum(rows)] if op == "sum" else [math.fsum(rows) / N] if op == "mean" else rows
                got = out.reshape(-1).tolist()
                if len(got) != len(want) or not all(close(a, b) for a, b in zip(got, want)):
                    mism.append({"module": cls, "reduction": red, "x": x.tolist(), "y": y.tolist(), "translated": want, "implementation": got})
    return cases, mism
