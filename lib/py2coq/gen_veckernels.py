"""py2coq: the vector (reduction-carrying) kernels of synapgrad/cpu_ops.py  ->  coq/Gen/GenVecKernels.v

softmax / log_softmax / nll / cross-entropy / batch-norm forward+backward are straight-line NumPy code whose
reductions run along ONE group of axes and whose other operations are elementwise / broadcasting.  Each is
translated to a Gallina definition on ONE FIBRE of that reduction: a vector `x : nat -> R` of length `sz`
(Analysis/Vector.v):

  softmax family : the fibre is the 1-D section of the array along `axis`          (any rank, any axis)
  nll / cross-ent: the fibre is one row of the (N, C) input, the label of that row is a nat
  batch-norm     : the fibre is one channel: all N*spatial entries with index c on axis 1; gamma, beta,
                   running statistics, mean, variance are per-channel scalars (options where None is allowed)

Kinds of values (the "reading" of shapes; validated on every run by `selfcheck`, which evaluates the IR with
plain Python lists on every fibre of random N-D arrays and compares with the real kernel):
  V     varies along the fibre                (array of the input's shape)
  keep  one value per fibre, keepdims shape   (broadcasts against V)
  flat  one value per fibre, reduced shape    (does NOT broadcast against V/keep: refused)
  sc    a Python scalar (eps, momentum, literals, epsilon)
  opt   keep/flat or None;  bool;  label (integer index into the fibre);  axis tokens

Fail-closed: every AST node, call, attribute, keyword or kind combination that is not listed raises
Untranslatable.  The second part extracts from nn/functional.py WHICH arrays each wrapper hands to its backward
kernel (input vs output, saved statistics) and which kernel result is accumulated into which input, and emits
the composed definitions `<op>_grad_<input>` on which the VJP theorems are stated.
"""
import ast, math, os
from fractions import Fraction
from decimal import Decimal

from lib.py2coq.main import register
from lib import common

SRC_REL = "synapgrad/cpu_ops.py"
WRAP_REL = "synapgrad/nn/functional.py"
OUT_REL = "Gen/GenVecKernels.v"


class Untranslatable(Exception):
    def __init__(self, where, what):
        super().__init__("%s: %s" % (where, what))


# ---------------------------------------------------------------------------------------------
# signatures: parameter kinds and the fibre each kernel is read on
SIG = {
    "log_forward": dict(fibre="scalar", params=[("a", "sc")]),
    "softmax_forward": dict(fibre="axis", params=[("a", "V"), ("axis", "AXIS")]),
    "softmax_backward": dict(fibre="axis", params=[("grad", "V"), ("softmax_a", "V"), ("axis", "AXIS")]),
    "log_softmax_forward": dict(fibre="axis", params=[("a", "V"), ("axis", "AXIS")]),
    "log_softmax_backward": dict(fibre="axis", params=[("grad", "V"), ("log_softmax_a", "V"), ("axis", "AXIS")]),
    "nll_loss_forward": dict(fibre="row", params=[("y_pred", "V"), ("y_true", "LABEL")]),
    # the upstream gradient of the losses has the shape of the per-row loss, (N,): it must be reshaped to a column before it
    # meets the (N, C) array (`grad * <array>` is refused: a reduced-shape value does not broadcast against the array)
    "nll_loss_backward": dict(fibre="row", params=[("grad", "flat"), ("y_pred", "V"), ("y_true", "LABEL")]),
    "cross_entropy_loss_forward": dict(fibre="row", params=[("y_pred", "V"), ("y_true", "LABEL")]),
    "cross_entropy_loss_backward": dict(fibre="row", params=[("grad", "flat"), ("y_pred", "V"), ("y_true", "LABEL")]),
    "batch_norm_forward": dict(fibre="channel", params=[("x", "V"), ("gamma", "opt"), ("beta", "opt"),
                                                        ("running_mean", "opt"), ("running_var", "opt"),
                                                        ("training", "BOOL"), ("momentum", "sc"), ("eps", "sc")]),
    "batch_norm_backward": dict(fibre="channel", params=[("grad", "V"), ("x", "V"), ("gamma", "opt"), ("beta", "opt"),
                                                         ("track_running_stats", "BOOL"), ("training", "BOOL"),
                                                         ("eps", "sc"), ("mean", "flat"), ("variance", "flat")]),
}
ORDER = list(SIG)

RESERVED = {"exp", "ln", "sqrt", "vsum", "vmax", "vmean", "vvar", "rpow", "sz", "ix", "vec", "fst", "snd",
            "Some", "None", "true", "false", "if", "then", "else", "let", "in", "match", "with", "end", "fun", "INR", "R",
            "nat", "bool", "option", "negb", "Rmax", "Rabs", "Rpower", "pow"}

SCALARISH = ("keep", "flat", "sc")


def cname(py):
    """Coq identifier of a Python local (renamed when it would capture a Coq name used by the output)."""
    return py + "_" if py in RESERVED or py.endswith("_v") else py


def dump(n):
    return ast.dump(n, annotate_fields=False)


def pat(src):
    return dump(ast.parse(src, mode="eval").body)


# ---------------------------------------------------------------------------------------------
# IR
#   expr  := ('const', Fraction) | ('mconst', name) [module constant] | ('var', name) | ('val', name)  [value of an option known to be Some]
#          | ('neg', e) | ('bin', op, a, b) | ('pow', a, b) | ('fn', f, e)
#          | ('red', 'sum'|'max'|'mean'|'var', e) | ('at', e, label) | ('zeros',) | ('len',)
#          | ('upd', e, label, s) | ('subat', e, label, s) | ('call', kernel, [args], outkind)
#          | ('none',) | ('some', e) | ('ife', cond, a, b)
#   cond  := ('isnotnone', name) | ('bvar', name) | ('not', c) | ('and', c, c) | ('or', c, c)
#   stmt  := ('let', name, kind, expr) | ('if', cond, [stmt], [stmt], [(name, kind)])
#   kernel:= dict(name, params, lets, ret=[(expr, kind)], lines)
class Tr:
    def __init__(self, fn, sig, consts, kernels, path):
        self.fn, self.sig, self.consts, self.kernels, self.path = fn, sig, consts, kernels, path
        self.kind = {}        # python name -> kind
        self.fresh = set()    # names bound to freshly allocated arrays
        self.known_some = set()
        self.tokens = {}      # names bound to axis tokens: 'AXES' | 'KEEPSHAPE' | 'ROWS'
        for p, k in sig["params"]:
            self.kind[p] = k
        self.xparam = next((p for p, k in sig["params"] if k == "V"), None)

    def err(self, node, what):
        return Untranslatable("%s:%s (%s)" % (self.path, getattr(node, "lineno", "?"), self.fn.name), what)

    # ---- axis arguments -------------------------------------------------------------------
    def is_fibre_axis(self, n):
        f = self.sig["fibre"]
        if f == "axis":
            return isinstance(n, ast.Name) and self.kind.get(n.id) == "AXIS"
        if f == "row":
            return isinstance(n, ast.Constant) and n.value == 1 and not isinstance(n.value, bool)
        if f == "channel":
            return isinstance(n, ast.Name) and self.tokens.get(n.id) == "AXES"
        return False

    def reduction(self, node, method, recv):
        """recv.method(axis..., keepdims...) -> (expr, kind)"""
        e, k = self.expr(recv)
        if k != "V":
            raise self.err(node, "reduction of a non-fibre value")
        args, kws = list(node.args), {kw.arg: kw.value for kw in node.keywords}
        if None in kws:
            raise self.err(node, "**kwargs")
        if len(args) > 1:
            raise self.err(node, "positional arguments of reduction")
        axis = args[0] if args else kws.pop("axis", None)
        if args and "axis" in kws:
            raise self.err(node, "axis twice")
        if axis is None or not self.is_fibre_axis(axis):
            raise self.err(node, "reduction axis is not the fibre axis")
        keep = kws.pop("keepdims", None)
        if kws:
            raise self.err(node, "keywords %s" % sorted(kws))
        if keep is None:
            kd = False
        elif isinstance(keep, ast.Constant) and keep.value is True:
            kd = True
        elif isinstance(keep, ast.Constant) and keep.value is False:
            kd = False
        else:
            raise self.err(node, "keepdims not a literal")
        if self.sig["fibre"] == "axis" and not kd:
            raise self.err(node, "reduction without keepdims=True would drop the axis")
        return ("red", method, e), ("keep" if kd else "flat")

    # ---- conditions ------------------------------------------------------------------------
    def cond(self, n):
        if isinstance(n, ast.BoolOp):
            op = "and" if isinstance(n.op, ast.And) else "or"
            cs = [self.cond(v) for v in n.values]
            r = cs[0]
            for c in cs[1:]:
                r = (op, r, c)
            return r
        if isinstance(n, ast.UnaryOp) and isinstance(n.op, ast.Not):
            return ("not", self.cond(n.operand))
        if isinstance(n, ast.Compare) and len(n.ops) == 1 and isinstance(n.ops[0], ast.IsNot) \
                and isinstance(n.left, ast.Name) and isinstance(n.comparators[0], ast.Constant) and n.comparators[0].value is None:
            if not self.kind.get(n.left.id, "").startswith("opt"):
                raise self.err(n, "`is not None` on a non-optional")
            return ("isnotnone", n.left.id)
        if isinstance(n, ast.Name) and self.kind.get(n.id) == "BOOL":
            return ("bvar", n.id)
        raise self.err(n, "condition " + dump(n))

    @staticmethod
    def positives(c):
        if c[0] == "and":
            return Tr.positives(c[1]) | Tr.positives(c[2])
        if c[0] == "isnotnone":
            return {c[1]}
        return set()

    # ---- expressions -------------------------------------------------------------------------
    def lit(self, v, node):
        if isinstance(v, bool) or not isinstance(v, (int, float)):
            raise self.err(node, "literal %r" % (v,))
        if isinstance(v, int):
            return ("const", Fraction(v))
        if not math.isfinite(v):
            raise self.err(node, "non-finite literal")
        return ("const", Fraction(Decimal(repr(v))))      # the decimal literal as written (repr round-trips)

    def join(self, node, ka, kb):
        ks = {ka, kb}
        if not ks <= {"V", "keep", "flat", "sc"}:
            raise self.err(node, "arithmetic on kinds %s" % sorted(ks))
        if "V" in ks:
            if "flat" in ks:
                raise self.err(node, "a reduced (non-keepdims) value does not broadcast against the array")
            return "V"
        if ks == {"keep", "flat"}:
            raise self.err(node, "keepdims-shaped and reduced-shape values do not broadcast per fibre")
        for k in ("keep", "flat", "sc"):
            if k in ks:
                return k

    def expr(self, n):
        if isinstance(n, ast.Constant):
            return self.lit(n.value, n), "sc"
        if isinstance(n, ast.Name):
            if n.id in self.kind:
                k = self.kind[n.id]
                if k in ("V", "keep", "flat", "sc"):
                    return ("var", n.id), k
                if k.startswith("opt"):
                    if n.id in self.known_some:
                        return ("val", n.id), k[4:] if len(k) > 3 else "flat"
                    return ("var", n.id), k
                raise self.err(n, "name %s of kind %s used as a value" % (n.id, k))
            if n.id in self.consts:
                return ("mconst", n.id), "sc"
            raise self.err(n, "unknown name " + n.id)
        if isinstance(n, ast.UnaryOp) and isinstance(n.op, ast.USub):
            e, k = self.expr(n.operand)
            if k not in ("V", "keep", "flat", "sc"):
                raise self.err(n, "negation of kind " + k)
            return ("neg", e), k
        if isinstance(n, ast.BinOp):
            a, ka = self.expr(n.left)
            b, kb = self.expr(n.right)
            k = self.join(n, ka, kb)
            op = {ast.Add: "+", ast.Sub: "-", ast.Mult: "*", ast.Div: "/"}.get(type(n.op))
            if op:
                return ("bin", op, a, b), k
            if isinstance(n.op, ast.Pow):
                if kb != "sc" or b[0] not in ("const", "neg"):
                    raise self.err(n, "exponent is not a literal")
                return ("pow", a, b), k
            raise self.err(n, "operator " + dump(n.op))
        if isinstance(n, ast.IfExp):
            c = self.cond(n.test)
            saved = set(self.known_some)
            self.known_some |= self.positives(c)
            a, ka = self.expr(n.body)
            self.known_some = saved
            b, kb = self.expr(n.orelse)
            if ka != kb or ka not in SCALARISH + ("V",):
                raise self.err(n, "branches of a conditional expression have kinds %s / %s" % (ka, kb))
            return ("ife", c, a, b), ka
        if isinstance(n, ast.Subscript):
            return self.subscript(n)
        if isinstance(n, ast.Call):
            return self.call(n)
        raise self.err(n, "expression " + type(n).__name__)

    def fancy(self, n):
        """n is the slice of X[range(rows), label] -> label name"""
        if self.sig["fibre"] != "row":
            raise self.err(n, "fancy index outside a row kernel")
        if not (isinstance(n, ast.Tuple) and len(n.elts) == 2):
            raise self.err(n, "index is not [rows, label]")
        r, lab = n.elts
        ok = isinstance(r, ast.Call) and isinstance(r.func, ast.Name) and r.func.id == "range" and len(r.args) == 1 and not r.keywords
        if ok:
            a = r.args[0]
            ok = (isinstance(a, ast.Name) and self.tokens.get(a.id) == "ROWS") or \
                 (isinstance(a, ast.Call) and isinstance(a.func, ast.Name) and a.func.id == "len" and len(a.args) == 1
                  and isinstance(a.args[0], ast.Name) and self.kind.get(a.args[0].id) == "V" and not a.keywords)
        if not ok:
            raise self.err(n, "row index is not range(len(<array>)) / range(<array>.shape[0])")
        if not (isinstance(lab, ast.Name) and self.kind.get(lab.id) == "LABEL"):
            raise self.err(n, "column index is not the label array")
        return lab.id

    def subscript(self, n):
        e, k = self.expr(n.value)
        if k != "V":
            raise self.err(n, "subscript of a non-array")
        lab = self.fancy(n.slice)
        return ("at", e, lab), "flat"

    def call(self, n):
        f = n.func
        kws = {kw.arg: kw.value for kw in n.keywords}
        # np.exp / np.log / np.sqrt / np.zeros(<array>.shape)
        if isinstance(f, ast.Attribute) and isinstance(f.value, ast.Name) and f.value.id == "np":
            if f.attr in ("exp", "log", "sqrt") and len(n.args) == 1 and not kws:
                e, k = self.expr(n.args[0])
                if k not in ("V", "keep", "flat", "sc"):
                    raise self.err(n, "np.%s of kind %s" % (f.attr, k))
                return ("fn", {"exp": "exp", "log": "ln", "sqrt": "sqrt"}[f.attr], e), k
            if f.attr == "zeros" and len(n.args) == 1 and not kws:
                a = n.args[0]
                if isinstance(a, ast.Attribute) and a.attr == "shape" and isinstance(a.value, ast.Name) and self.kind.get(a.value.id) == "V":
                    return ("zeros",), "V"
            raise self.err(n, "np." + f.attr)
        # methods
        if isinstance(f, ast.Attribute):
            if f.attr in ("sum", "max", "mean", "var"):
                return self.reduction(n, f.attr, f.value)
            if f.attr == "reshape" and len(n.args) == 1 and not kws:
                e, k = self.expr(f.value)
                a = n.args[0]
                if isinstance(a, ast.Name) and self.tokens.get(a.id) == "KEEPSHAPE":
                    if k not in ("flat", "keep"):
                        raise self.err(n, "reshape(keepdims_shape) of kind " + k)
                    return e, "keep"
                if self.sig["fibre"] == "row" and dump(a) == pat("(-1, 1)"):
                    if k != "flat":
                        raise self.err(n, "reshape((-1,1)) of kind " + k)
                    return e, "keep"
                raise self.err(n, "reshape target")
            raise self.err(n, "method ." + f.attr)
        # other translated kernels
        if isinstance(f, ast.Name) and f.id in self.kernels:
            if kws:
                raise self.err(n, "keywords in kernel call")
            callee = self.kernels[f.id]
            csig = SIG[f.id]
            if len(n.args) != len(csig["params"]):
                raise self.err(n, "arity of " + f.id)
            args = []
            for a, (pn, pk) in zip(n.args, csig["params"]):
                if pk == "AXIS":
                    if not self.is_fibre_axis(a):
                        raise self.err(n, "callee axis is not this kernel's fibre axis")
                    continue
                if pk == "LABEL":
                    if not (isinstance(a, ast.Name) and self.kind.get(a.id) == "LABEL"):
                        raise self.err(n, "label argument")
                    args.append(("label", a.id))
                    continue
                e, k = self.expr(a)
                if k != pk:
                    raise self.err(n, "argument %s of %s has kind %s, expected %s" % (pn, f.id, k, pk))
                args.append(e)
            if len(callee["ret"]) != 1:
                raise self.err(n, "callee returns a tuple")
            if csig["fibre"] not in (self.sig["fibre"], "axis"):
                raise self.err(n, "callee fibre")
            return ("call", f.id, args), callee["ret"][0][1]
        raise self.err(n, "call " + dump(f))

    # ---- statements ----------------------------------------------------------------------------
    def bind(self, name, e, k, node, fresh):
        old = self.kind.get(name)
        if old is not None and old.startswith("opt"):
            # an optional keeps its type: assigning a value wraps it in Some
            if k.startswith("opt"):
                pass
            elif k in ("flat", "keep"):
                e = ("some", e)
                k = old
            else:
                raise self.err(node, "assignment of kind %s to optional %s" % (k, name))
        elif old is not None and old in ("BOOL", "LABEL", "AXIS"):
            raise self.err(node, "rebinding of parameter " + name)
        self.kind[name] = k
        self.known_some.discard(name)
        (self.fresh.add if fresh else self.fresh.discard)(name)
        return ("let", name, k, e)

    def stmt(self, s, out):
        fib = self.sig["fibre"]
        if isinstance(s, ast.Expr) and isinstance(s.value, ast.Constant) and isinstance(s.value.value, str):
            return
        if isinstance(s, ast.Assign) and len(s.targets) == 1:
            t = s.targets[0]
            if isinstance(t, ast.Name):
                v = s.value
                # axis tokens of batch-norm / row count of the losses
                if fib == "channel":
                    for x in [p for p, k in self.sig["params"] if k == "V"]:
                        if dump(v) == pat("tuple(i for i in range(%s.ndim) if i != 1)" % x):
                            self.tokens[t.id] = "AXES"; return
                        if dump(v) == pat("tuple(1 if n != 1 else d for n, d in enumerate(%s.shape))" % x):
                            self.tokens[t.id] = "KEEPSHAPE"; return
                        if dump(v) == pat("%s.size / %s.shape[1]" % (x, x)):
                            out.append(self.bind(t.id, ("len",), "sc", s, False)); return
                if fib == "row" and self.xparam and dump(v) == pat("%s.shape[0]" % self.xparam):
                    self.tokens[t.id] = "ROWS"; return
                if t.id in self.tokens:
                    raise self.err(s, "rebinding of axis token")
                if isinstance(v, ast.Constant) and v.value is None:
                    out.append(self.bind(t.id, ("none",), "opt flat", s, False)); return
                e, k = self.expr(v)
                fresh = isinstance(v, (ast.BinOp, ast.Call, ast.UnaryOp)) and not \
                    (isinstance(v, ast.Call) and isinstance(v.func, ast.Attribute) and v.func.attr == "reshape")
                out.append(self.bind(t.id, e, k, s, fresh)); return
            if isinstance(t, ast.Subscript) and isinstance(t.value, ast.Name):
                # A[range(rows), label] = scalar
                a = t.value.id
                if self.kind.get(a) != "V" or a not in self.fresh:
                    raise self.err(s, "indexed store into an array that is not a fresh local")
                lab = self.fancy(t.slice)
                e, k = self.expr(s.value)
                if k != "sc":
                    raise self.err(s, "stored value kind " + k)
                out.append(self.bind(a, ("upd", ("var", a), lab, e), "V", s, True)); return
            raise self.err(s, "assignment target")
        if isinstance(s, ast.AugAssign):
            op = {ast.Add: "+", ast.Sub: "-", ast.Mult: "*", ast.Div: "/"}.get(type(s.op))
            if op is None:
                raise self.err(s, "augmented operator")
            t = s.target
            if isinstance(t, ast.Name):
                if self.kind.get(t.id) != "V" or t.id not in self.fresh:
                    raise self.err(s, "in-place update of something that is not a fresh local array (would alias an operand)")
                e, k = self.expr(s.value)
                if self.join(s, "V", k) != "V":
                    raise self.err(s, "in-place kind")
                out.append(self.bind(t.id, ("bin", op, ("var", t.id), e), "V", s, True)); return
            if isinstance(t, ast.Subscript) and isinstance(t.value, ast.Name) and op == "-":
                a = t.value.id
                if self.kind.get(a) != "V" or a not in self.fresh:
                    raise self.err(s, "indexed in-place update of a non-fresh array")
                lab = self.fancy(t.slice)
                e, k = self.expr(s.value)
                if k != "sc":
                    raise self.err(s, "stored value kind " + k)
                out.append(self.bind(a, ("subat", ("var", a), lab, e), "V", s, True)); return
            raise self.err(s, "augmented assignment target")
        if isinstance(s, ast.If):
            c = self.cond(s.test)
            before = dict(self.kind)
            saved_some, saved_fresh = set(self.known_some), set(self.fresh)
            self.known_some |= self.positives(c)
            body = []
            for b in s.body:
                self.stmt(b, body)
            kind_then, fresh_then = dict(self.kind), set(self.fresh)
            self.kind, self.known_some, self.fresh = dict(before), set(saved_some), set(saved_fresh)
            orelse = []
            for b in s.orelse:
                self.stmt(b, orelse)
            kind_else, fresh_else = dict(self.kind), set(self.fresh)
            assigned_then = [l[1] for l in body if l[0] == "let"] + [v for l in body if l[0] == "if" for v, _ in l[4]]
            assigned_else = [l[1] for l in orelse if l[0] == "let"] + [v for l in orelse if l[0] == "if" for v, _ in l[4]]
            exported = []
            for v in dict.fromkeys(assigned_then + assigned_else):
                if v in before:
                    kt, ke = kind_then[v], kind_else[v]
                elif v in assigned_then and v in assigned_else:
                    kt, ke = kind_then[v], kind_else[v]
                else:
                    continue          # local to one branch; a later use is an unknown name -> refused
                if kt != ke:
                    raise self.err(s, "variable %s has kind %s / %s after the branches" % (v, kt, ke))
                exported.append((v, kt))
            self.kind = dict(before)
            for v, k in exported:
                self.kind[v] = k
            self.known_some = set(saved_some) - {v for v, _ in exported}
            self.fresh = (fresh_then & fresh_else)
            out.append(("if", c, body, orelse, exported))
            return
        raise self.err(s, "statement " + type(s).__name__)

    def run(self):
        fn = self.fn
        a = fn.args
        if a.vararg or a.kwarg or a.kwonlyargs or a.posonlyargs or a.defaults:
            raise self.err(fn, "parameter list")
        names = [x.arg for x in a.args]
        if names != [p for p, _ in self.sig["params"]]:
            raise self.err(fn, "parameters %s differ from the signature table %s" % (names, [p for p, _ in self.sig["params"]]))
        lets = []
        body = list(fn.body)
        if not body or not isinstance(body[-1], ast.Return) or body[-1].value is None:
            raise self.err(fn, "last statement is not `return <value>`")
        for s in body[:-1]:
            self.stmt(s, lets)
        r = body[-1].value
        elts = r.elts if isinstance(r, ast.Tuple) else [r]
        ret = []
        for e in elts:
            ex, k = self.expr(e)
            if k not in ("V", "keep", "flat", "sc", "opt", "opt flat", "opt keep"):
                raise self.err(r, "returned kind " + k)
            ret.append((ex, k))
        return dict(name=fn.name, params=self.sig["params"], fibre=self.sig["fibre"], lets=lets, ret=ret,
                    lines=(fn.lineno, fn.end_lineno))


def module_consts(tree, path):
    consts = {}
    for s in tree.body:
        if isinstance(s, ast.Assign) and len(s.targets) == 1 and isinstance(s.targets[0], ast.Name) \
                and isinstance(s.value, ast.Constant) and isinstance(s.value.value, float):
            consts[s.targets[0].id] = Fraction(Decimal(repr(s.value.value)))
    if "epsilon" not in consts:
        raise Untranslatable(path, "module constant epsilon not found")
    return consts


def translate(repo=None):
    repo = repo or common.REPO
    path = os.path.join(repo, SRC_REL)
    tree = ast.parse(open(path).read())
    consts = module_consts(tree, path)
    fns = {s.name: s for s in tree.body if isinstance(s, ast.FunctionDef)}
    kernels, failures = {}, {}
    for name in ORDER:
        # fail-closed PER KERNEL: a kernel that cannot be translated is omitted from the output (so every theorem that
        # mentions it, or a kernel calling it, stops compiling) and reported; the other kernels are unaffected
        try:
            if name not in fns:
                raise Untranslatable(path, "kernel %s not found" % name)
            kernels[name] = Tr(fns[name], SIG[name], consts, kernels, SRC_REL).run()
        except Untranslatable as ex:
            failures[name] = str(ex)
    return dict(consts=consts, kernels=kernels, failures=failures)


# ---------------------------------------------------------------------------------------------
# IR evaluator (independent of the Coq printer): plain Python lists + math
class Ev:
    def __init__(self, ir):
        self.ir = ir

    def run(self, name, args):
        """args: dict param -> value (list for V, float for scalars, None for absent optionals, bool, int label)"""
        k = self.ir["kernels"][name]
        env = dict(args)
        n = None
        for p, kind in k["params"]:
            if kind == "V":
                n = len(env[p])
        self.n = n
        self.stmts(k["lets"], env)
        return [self.e(e, env) for e, _ in k["ret"]]

    def stmts(self, lets, env):
        for l in lets:
            if l[0] == "let":
                env[l[1]] = self.e(l[3], env)
            else:
                _, c, body, orelse, exported = l
                sub = dict(env)
                self.stmts(body if self.c(c, env) else orelse, sub)
                for v, _ in exported:
                    env[v] = sub[v]

    def c(self, c, env):
        t = c[0]
        if t == "isnotnone":
            return env[c[1]] is not None
        if t == "bvar":
            return bool(env[c[1]])
        if t == "not":
            return not self.c(c[1], env)
        if t == "and":
            return self.c(c[1], env) and self.c(c[2], env)
        if t == "or":
            return self.c(c[1], env) or self.c(c[2], env)
        raise ValueError(c)

    @staticmethod
    def lift1(f, a):
        return [f(x) for x in a] if isinstance(a, list) else f(a)

    @staticmethod
    def lift2(f, a, b):
        if isinstance(a, list) and isinstance(b, list):
            return [f(x, y) for x, y in zip(a, b)]
        if isinstance(a, list):
            return [f(x, b) for x in a]
        if isinstance(b, list):
            return [f(a, y) for y in b]
        return f(a, b)

    def e(self, e, env):
        t = e[0]
        if t == "const":
            return float(e[1])
        if t in ("var", "val"):
            return env[e[1]]
        if t == "mconst":
            return float(self.ir["consts"][e[1]])
        if t == "label":
            return env[e[1]]
        if t == "neg":
            return self.lift1(lambda x: -x, self.e(e[1], env))
        if t == "bin":
            f = {"+": lambda x, y: x + y, "-": lambda x, y: x - y, "*": lambda x, y: x * y, "/": lambda x, y: x / y}[e[1]]
            return self.lift2(f, self.e(e[2], env), self.e(e[3], env))
        if t == "pow":
            return self.lift2(lambda x, y: math.pow(x, y), self.e(e[1], env), self.e(e[2], env))
        if t == "fn":
            f = {"exp": math.exp, "ln": math.log, "sqrt": math.sqrt}[e[1]]
            return self.lift1(f, self.e(e[2], env))
        if t == "red":
            a = self.e(e[2], env)
            if e[1] == "sum":
                return math.fsum(a)
            if e[1] == "max":
                return max(a)
            m = math.fsum(a) / len(a)
            if e[1] == "mean":
                return m
            return math.fsum([(x - m) ** 2 for x in a]) / len(a)
        if t == "at":
            return self.e(e[1], env)[env[e[2]]]
        if t == "zeros":
            return [0.0] * self.n
        if t == "len":
            return float(self.n)
        if t == "upd":
            a = list(self.e(e[1], env)); a[env[e[2]]] = self.e(e[3], env); return a
        if t == "subat":
            a = list(self.e(e[1], env)); a[env[e[2]]] -= self.e(e[3], env); return a
        if t == "call":
            k = self.ir["kernels"][e[1]]
            names = [p for p, kind in k["params"] if kind != "AXIS"]
            vals = [self.e(a, env) for a in e[2]]
            sub = Ev(self.ir)
            return sub.run(e[1], dict(zip(names, vals)))[0]
        if t == "none":
            return None
        if t == "some":
            return self.e(e[1], env)
        if t == "ife":
            return self.e(e[2], env) if self.c(e[1], env) else self.e(e[3], env)
        raise ValueError(e)


# ---------------------------------------------------------------------------------------------
# Coq printer (purely structural)
def q(fr):
    fr = Fraction(fr)
    if fr.denominator == 1:
        return "%d" % fr.numerator if fr.numerator >= 0 else "(- %d)" % -fr.numerator
    s = "(%d / %d)" % (abs(fr.numerator), fr.denominator)
    return s if fr > 0 else "(- %s)" % s


def coq_type(kind):
    if kind == "V":
        return "vec"
    if kind in SCALARISH:
        return "R"
    if kind.startswith("opt"):
        return "option R"
    if kind == "BOOL":
        return "bool"
    if kind == "LABEL":
        return "nat"
    raise ValueError(kind)


class Pr:
    def __init__(self, ir):
        self.ir = ir
        self.probes = None

    def sc(self, e):
        """scalar-kind expression"""
        return self.at(e, None)

    def vecterm(self, e):
        if e[0] == "var":
            return cname(e[1])
        if e[0] == "call":
            return self.callterm(e)
        return "(fun ix => %s)" % self.at(e, "ix")

    def callterm(self, e):
        k = self.ir["kernels"][e[1]]
        parts = [e[1]] + (["sz"] if k["fibre"] != "scalar" else [])
        kinds = [kind for _, kind in k["params"] if kind != "AXIS"]
        for a, kind in zip(e[2], kinds):
            if kind == "V":
                parts.append(self.vecterm(a))
            elif kind == "LABEL":
                parts.append(cname(a[1]))
            else:
                parts.append(self.sc(a))
        return "(" + " ".join(parts) + ")"

    def kind_of(self, e, kenv):
        raise NotImplementedError

    def at(self, e, ix):
        """term of type R: the value of e (at position ix when e varies along the fibre).  Scalar sub-expressions ignore ix."""
        t = e[0]
        if t == "const":
            return q(e[1])
        if t == "mconst":
            return e[1]
        if t == "var":
            name = cname(e[1])
            if self.kenv.get(e[1]) == "V":
                if ix is None:
                    raise ValueError("vector %s used as scalar" % e[1])
                return "(%s %s)" % (name, ix)
            return name
        if t == "val":
            return cname(e[1]) + "_v"
        if t == "neg":
            return "(- %s)" % self.at(e[1], ix)
        if t == "bin":
            return "(%s %s %s)" % (self.at(e[2], ix), e[1], self.at(e[3], ix))
        if t == "pow":
            return "(rpow %s %s)" % (self.at(e[1], ix), self.at(e[2], ix))
        if t == "fn":
            arg = self.at(e[2], ix)
            if self.probes is not None:
                self.probes.setdefault(e[1], []).append((e[2], ix is not None and self.varies(e[2])))
            return "(%s %s)" % (e[1], arg)
        if t == "red":
            f = {"sum": "vsum", "max": "vmax", "mean": "vmean", "var": "vvar"}[e[1]]
            return "(%s sz %s)" % (f, self.vecterm(e[2]))
        if t == "at":
            return "(%s %s)" % (self.vecterm(e[1]), cname(e[2]))
        if t == "zeros":
            return "0"
        if t == "len":
            return "(INR sz)"
        if t == "upd":
            return "(if Nat.eqb %s %s then %s else %s)" % (ix, cname(e[2]), self.at(e[3], None), self.at(e[1], ix))
        if t == "subat":
            return "(if Nat.eqb %s %s then (%s - %s) else %s)" % (ix, cname(e[2]), self.at(e[1], ix), self.at(e[3], None), self.at(e[1], ix))
        if t == "call":
            k = self.ir["kernels"][e[1]]
            if k["ret"][0][1] == "V":
                return "(%s %s)" % (self.callterm(e), ix)
            return self.callterm(e)
        if t == "ife":
            return self.cond(e[1], self.at(e[2], ix), self.at(e[3], ix))
        raise ValueError(e)

    def varies(self, e):
        t = e[0]
        if t == "var":
            return self.kenv.get(e[1]) == "V"
        if t in ("zeros", "upd", "subat"):
            return True
        if t == "call":
            return self.ir["kernels"][e[1]]["ret"][0][1] == "V"
        if t in ("const", "mconst", "val", "red", "at", "len", "none"):
            return False
        return any(self.varies(x) for x in e[1:] if isinstance(x, tuple))

    def cond(self, c, then, els):
        t = c[0]
        if t == "and":
            return self.cond(c[1], self.cond(c[2], then, els), els)
        if t == "or":
            return self.cond(c[1], then, self.cond(c[2], then, els))
        if t == "not":
            return self.cond(c[1], els, then)
        if t == "isnotnone":
            n = cname(c[1])
            return "(match %s with Some %s_v => %s | None => %s end)" % (n, n, then, els)
        if t == "bvar":
            return "(if %s then %s else %s)" % (cname(c[1]), then, els)
        raise ValueError(c)

    def value(self, e, kind):
        """right-hand side of a let of the given kind"""
        if kind == "V":
            return self.vecterm(e)
        if kind.startswith("opt"):
            if e[0] == "none":
                return "None"
            if e[0] == "some":
                return "(Some %s)" % self.sc(e[1])
            if e[0] == "var":
                return cname(e[1])
            raise ValueError(e)
        return self.sc(e)

    def lets(self, lets, tail):
        """returns text `let ... in tail`"""
        out = []
        for l in lets:
            if l[0] == "let":
                _, name, kind, e = l
                out.append("let %s : %s := %s in" % (cname(name), coq_type(kind), self.value(e, kind)))
                self.kenv[name] = kind
            else:
                _, c, body, orelse, exported = l
                if not exported:
                    continue
                names = [cname(v) for v, _ in exported]
                tup = names[0] if len(names) == 1 else "(" + ", ".join(names) + ")"
                saved = dict(self.kenv)
                then = self.lets(body, tup)
                self.kenv = dict(saved)
                els = self.lets(orelse, tup)
                self.kenv = dict(saved)
                for v, k in exported:
                    self.kenv[v] = k
                patn = names[0] if len(names) == 1 else "'(" + ", ".join(names) + ")"
                out.append("let %s := %s in" % (patn, self.cond(c, then, els)))
        return "\n  ".join(out + [tail])

    def params(self, k):
        ps = []
        if k["fibre"] != "scalar":
            ps.append("(sz : nat)")
        for p, kind in k["params"]:
            if kind == "AXIS":
                continue
            ps.append("(%s : %s)" % (cname(p), coq_type(kind)))
        return " ".join(ps)

    def rettype(self, k):
        return " * ".join(coq_type(kind) for _, kind in k["ret"])

    def kernel(self, k):
        self.kenv = {p: kind for p, kind in k["params"]}
        self.probes = {}
        # the tail must be printed after the lets have populated kenv: print lets with a placeholder
        body = self.lets(k["lets"], "@@RET@@")
        ret = ", ".join(self.value(e, kind) for e, kind in k["ret"])
        if len(k["ret"]) > 1:
            ret = "(" + ret + ")"
        txt = "(* %s: %s:%d-%d; fibre = %s *)\nDefinition %s %s : %s :=\n  %s.\n" % (
            k["name"], SRC_REL, k["lines"][0], k["lines"][1], k["fibre"], k["name"], self.params(k), self.rettype(k),
            body.replace("@@RET@@", ret))
        probes, self.probes = self.probes, None
        return txt, probes

    def intermediates(self, k, probes):
        """for the straight-line kernels (no branches): every let-bound value, the result, and every argument of exp / ln,
        as lists of vectors (a per-fibre scalar is the constant vector), under the same lets as the definition."""
        if any(l[0] != "let" for l in k["lets"]) or len(k["ret"]) != 1:
            return ""
        self.kenv = {p: kind for p, kind in k["params"]}

        def as_vec(e, kind):
            return self.vecterm(e) if kind == "V" else "(fun _ : nat => %s)" % self.sc(e)
        items = []
        body_lets = self.lets(k["lets"], "@@RET@@")
        for l in k["lets"]:
            items.append(as_vec(("var", l[1]), l[2]))
        # note: a later rebinding of the same name shadows the earlier one; refuse that case for intermediates
        names = [l[1] for l in k["lets"]]
        if len(set(names)) != len(names):
            return ""
        items.append(as_vec(*k["ret"][0]))
        out = "Definition %s_intermediates %s : list vec :=\n  %s.\n" % (
            k["name"], self.params(k), body_lets.replace("@@RET@@", "[" + "; ".join(items) + "]"))
        for fn in ("exp", "ln"):
            args = probes.get(fn, [])
            its = []
            for (e, _) in args:
                its.append(self.vecterm(e) if self.varies(e) else "(fun _ : nat => %s)" % self.sc(e))
            out += "Definition %s_%s_args %s : list vec :=\n  %s.\n" % (
                k["name"], fn, self.params(k), body_lets.replace("@@RET@@", "[" + "; ".join(its) + "]"))
        return out


# ---------------------------------------------------------------------------------------------
# wrapper wiring (nn/functional.py): which arrays reach the backward kernel, which result goes to which input
WRAPPERS = {  # wrapper -> kernel stem
    "softmax": "softmax", "log_softmax": "log_softmax", "nll_loss": "nll_loss",
    "cross_entropy": "cross_entropy_loss", "batch_norm": "batch_norm",
}


def wiring(repo=None):
    repo = repo or common.REPO
    path = os.path.join(repo, WRAP_REL)
    tree = ast.parse(open(path).read())
    fns = {s.name: s for s in tree.body if isinstance(s, ast.FunctionDef)}
    res, failures = {}, {}
    for w, stem in WRAPPERS.items():
        try:
            if w not in fns:
                raise Untranslatable(path, "wrapper %s not found" % w)
            res[w] = wire_one(fns[w], stem, WRAP_REL)
        except Untranslatable as ex:
            failures[w] = str(ex)
    res["__failures__"] = failures
    res["__fwd_failures__"] = dict(failures)     # wrappers for which not even <wrapper>_out can be emitted
    return res


def wire_one(fn, stem, path):
    def err(node, what):
        return Untranslatable("%s:%s (%s)" % (path, getattr(node, "lineno", "?"), fn.name), what)
    wparams = [a.arg for a in fn.args.args]
    inner = [s for s in ast.walk(fn) if isinstance(s, ast.FunctionDef) and s is not fn]
    if len(inner) != 1 or inner[0].name != "backward" or inner[0].args.args:
        raise err(fn, "expected exactly one nested closure `backward()`")
    bw = inner[0]

    def kernel_calls(root, name, exclude=None):
        found = []
        for s in ast.walk(root):
            if isinstance(s, ast.Assign) and isinstance(s.value, ast.Call):
                f = s.value.func
                if isinstance(f, ast.Attribute) and isinstance(f.value, ast.Name) and f.value.id == "cpu_ops" and f.attr == name:
                    found.append(s)
        return found
    outer_nodes = [s for s in ast.walk(fn)]
    bw_nodes = set(id(s) for s in ast.walk(bw))
    fcalls = [s for s in kernel_calls(fn, stem + "_forward") if id(s) not in bw_nodes]
    bcalls = kernel_calls(bw, stem + "_backward")
    if len(fcalls) != 1 or len(bcalls) != 1:
        raise err(fn, "expected one call of cpu_ops.%s_forward outside and one of %s_backward inside backward()" % (stem, stem))
    # any other cpu_ops call in the wrapper is unknown behaviour
    for s in ast.walk(fn):
        if isinstance(s, ast.Call) and isinstance(s.func, ast.Attribute) and isinstance(s.func.value, ast.Name) \
                and s.func.value.id == "cpu_ops" and s is not fcalls[0].value and s is not bcalls[0].value:
            raise err(s, "additional kernel call cpu_ops." + s.func.attr)
    fcall, bcall = fcalls[0], bcalls[0]
    if fcall.value.keywords or bcall.value.keywords or len(fcall.targets) != 1 or len(bcall.targets) != 1:
        raise err(fcall, "keywords / multiple targets")

    # simple local definitions of the outer function and of backward (single assignment each)
    def simple_defs(root, skip):
        d = {}
        for s in ast.walk(root):
            if id(s) in skip:
                continue
            if isinstance(s, ast.Assign) and len(s.targets) == 1 and isinstance(s.targets[0], ast.Name):
                d.setdefault(s.targets[0].id, []).append(s.value)
        return d
    odefs = simple_defs(fn, bw_nodes)
    bdefs = simple_defs(bw, set())

    # forward outputs
    t = fcall.targets[0]
    if isinstance(t, ast.Name):
        fouts = [t.id]; star = None
    elif isinstance(t, ast.Tuple):
        fouts = []; star = None
        for i, e in enumerate(t.elts):
            if isinstance(e, ast.Name):
                fouts.append(e.id)
            elif isinstance(e, ast.Starred) and isinstance(e.value, ast.Name) and i == len(t.elts) - 1:
                star = (e.value.id, i)
            else:
                raise err(fcall, "forward targets")
    else:
        raise err(fcall, "forward targets")
    # the output tensor: <out> = Tensor(<fouts[0]>, ...)
    outs = [n for n, vs in odefs.items() for v in vs
            if isinstance(v, ast.Call) and isinstance(v.func, ast.Name) and v.func.id == "Tensor" and v.args
            and isinstance(v.args[0], ast.Name) and v.args[0].id == fouts[0]]
    if len(outs) != 1:
        raise err(fn, "output tensor")
    out_t = outs[0]
    # grad_output = <out>.grad
    gnames = [n for n, vs in bdefs.items() if len(vs) == 1 and dump(vs[0]) == pat("%s.grad" % out_t)]
    if len(gnames) != 1:
        raise err(bw, "grad_output")
    gname = gnames[0]

    def data_of(n):
        """<t>.data with t a wrapper parameter -> t ; <name> := <t>.data if <t> is not None else None -> (t, optional)"""
        if isinstance(n, ast.Attribute) and n.attr == "data" and isinstance(n.value, ast.Name):
            return n.value.id
        return None

    def classify(a, side):
        if isinstance(a, ast.Starred):
            if side == "b" and isinstance(a.value, ast.Name) and star and a.value.id == star[0]:
                return ("fout_rest", star[1])
            raise err(a, "starred argument")
        d = data_of(a)
        if d is not None:
            if d in wparams:
                return ("input", d)
            if d == gname and side == "b":
                return ("grad",)
            if d == out_t and side == "b":
                return ("fout", 0)
            raise err(a, "data of " + d)
        if isinstance(a, ast.Name):
            if a.id in wparams:
                return ("param", a.id)
            defs = (bdefs.get(a.id) if side == "b" else None) or odefs.get(a.id)
            if defs and len(defs) == 1:
                v = defs[0]
                for p in wparams:
                    if dump(v) == pat("%s.data if %s is not None else None" % (p, p)):
                        return ("input_opt", p)
                if isinstance(v, ast.BoolOp) and isinstance(v.op, ast.And):
                    names = []
                    for c in v.values:
                        ok = isinstance(c, ast.Compare) and len(c.ops) == 1 and isinstance(c.ops[0], ast.IsNot) and \
                            isinstance(c.left, ast.Name) and c.left.id in wparams and isinstance(c.comparators[0], ast.Constant) \
                            and c.comparators[0].value is None
                        if not ok:
                            raise err(a, "condition")
                        names.append(c.left.id)
                    return ("all_given", names)
            raise err(a, "argument " + a.id)
        raise err(a, "argument " + dump(a))
    fargs = [classify(a, "f") for a in fcall.value.args]
    bargs = [classify(a, "b") for a in bcall.value.args]
    # results of the backward kernel and their accumulation
    t = bcall.targets[0]
    bouts = [t.id] if isinstance(t, ast.Name) else [e.id for e in t.elts] if isinstance(t, ast.Tuple) and all(isinstance(e, ast.Name) for e in t.elts) else None
    if bouts is None:
        raise err(bcall, "backward targets")
    acc = {}
    for s in ast.walk(bw):
        if isinstance(s, ast.AugAssign) or (isinstance(s, ast.Assign) and any(isinstance(x, ast.Attribute) and x.attr == "_grad" for x in s.targets)):
            tg = s.target if isinstance(s, ast.AugAssign) else s.targets[0]
            if not (isinstance(tg, ast.Attribute) and tg.attr == "_grad" and isinstance(tg.value, ast.Name) and tg.value.id in wparams):
                raise err(s, "accumulation target")
            if not (isinstance(s, ast.AugAssign) and isinstance(s.op, ast.Add)):
                raise err(s, "gradient of %s is not accumulated with +=" % tg.value.id)
            if not (isinstance(s.value, ast.Name) and s.value.id in bouts):
                raise err(s, "accumulated value is not a result of the backward kernel")
            if tg.value.id in acc:
                raise err(s, "two accumulations into " + tg.value.id)
            acc[tg.value.id] = bouts.index(s.value.id)
    if not acc:
        raise err(bw, "no accumulation")
    return dict(wrapper=fn.name, stem=stem, params=wparams, fargs=fargs, bargs=bargs, fouts=len(fouts), star=star,
                nb=len(bouts), acc=acc, lines=(fn.lineno, fn.end_lineno))


def print_wiring(ir, w):
    """composed definitions <wrapper>_out and <wrapper>_grad_<input>; returns (text, None | reason the grads are missing)"""
    kf = ir["kernels"][w["stem"] + "_forward"]
    kb = ir["kernels"].get(w["stem"] + "_backward")
    fa = [a for a, (p, k) in zip(w["fargs"], kf["params"]) if k != "AXIS"]
    # wrapper-level parameters in the order of the wrapper signature, typed by the forward kernel's parameter they feed
    ptype = {}
    for a, (p, k) in zip(w["fargs"], kf["params"]):
        if k == "AXIS":
            if a[0] != "param":
                raise Untranslatable(WRAP_REL, "%s: axis argument" % w["wrapper"])
            continue
        if a[0] == "input" and k in ("V", "LABEL"):
            ptype[a[1]] = k
        elif a[0] == "input_opt" and k.startswith("opt"):
            ptype[a[1]] = "opt"
        elif a[0] == "param" and k in ("BOOL", "sc"):
            ptype[a[1]] = k
        else:
            raise Untranslatable(WRAP_REL, "%s: forward argument %s for a parameter of kind %s" % (w["wrapper"], a, k))
    wp = [p for p in w["params"] if p in ptype]
    decl = "(sz : nat) " + " ".join("(%s : %s)" % (cname(p), coq_type(ptype[p])) for p in wp)
    fcall = " ".join([kf["name"], "sz"] + [cname(a[1]) for a in fa])
    nf = len(kf["ret"])
    fnames = ["fw%d" % i for i in range(nf)]
    fpat = fnames[0] if nf == 1 else "'(" + ", ".join(fnames) + ")"
    out = "(* wiring of %s:%d-%d  %s *)\n" % (WRAP_REL, w["lines"][0], w["lines"][1], w["wrapper"])
    out += "Definition %s_out %s : %s :=\n  let %s := %s in fw0.\n" % (w["wrapper"], decl, coq_type(kf["ret"][0][1]), fpat, fcall)
    if kb is None:
        return out, "the backward kernel of wrapper %s was not translated" % w["wrapper"]
    try:
        return out + _print_wiring_grads(ir, w, kf, kb, ptype, decl, fcall, fpat, fnames, nf), None
    except Untranslatable as ex:
        return out, str(ex)


def _print_wiring_grads(ir, w, kf, kb, ptype, decl, fcall, fpat, fnames, nf):
    out = ""
    # backward arguments
    gkind = None
    bargs = []
    expanded = []
    for a in w["bargs"]:
        if a[0] == "fout_rest":
            expanded += [("fout", j) for j in range(a[1], nf)]
        else:
            expanded.append(a)
    if len(expanded) != len(kb["params"]):
        raise Untranslatable(WRAP_REL, "%s: %d backward arguments for %d parameters" % (w["wrapper"], len(expanded), len(kb["params"])))
    for a, (p, k) in zip(expanded, kb["params"]):
        if k == "AXIS":
            fa_axis = [x for x, (pp, kk) in zip(w["fargs"], kf["params"]) if kk == "AXIS"]
            if a[0] != "param" or not fa_axis or fa_axis[0] != a:
                raise Untranslatable(WRAP_REL, "%s: backward axis differs from forward axis" % w["wrapper"])
            continue
        if a[0] == "grad":
            if k not in ("V", "keep", "flat"):
                raise Untranslatable(WRAP_REL, "%s: grad feeds a parameter of kind %s" % (w["wrapper"], k))
            if k != kf["ret"][0][1]:      # out.grad has the shape of the forward's result
                raise Untranslatable(WRAP_REL, "%s: the forward returns a %s-shaped value but the backward kernel reads its upstream gradient as %s"
                                     % (w["wrapper"], kf["ret"][0][1], k))
            gkind = k
            bargs.append("g")
        elif a[0] == "fout":
            rk = kf["ret"][a[1]][1]
            if rk != k:
                raise Untranslatable(WRAP_REL, "%s: forward output %d (%s) feeds backward parameter %s (%s)" % (w["wrapper"], a[1], rk, p, k))
            bargs.append(fnames[a[1]])
        elif a[0] in ("input", "input_opt", "param"):
            want = {"V": "V", "LABEL": "LABEL", "BOOL": "BOOL", "sc": "sc"}.get(k, "opt" if k.startswith("opt") else None)
            if ptype.get(a[1]) != want:
                raise Untranslatable(WRAP_REL, "%s: %s feeds backward parameter %s of kind %s" % (w["wrapper"], a, p, k))
            bargs.append(cname(a[1]))
        elif a[0] == "all_given":
            if k != "BOOL" or any(ptype.get(n) != "opt" for n in a[1]):
                raise Untranslatable(WRAP_REL, "%s: condition argument" % w["wrapper"])
            t = "true"
            for n in reversed(a[1]):
                t = "(match %s with Some _ => %s | None => false end)" % (cname(n), t)
            bargs.append(t)
        else:
            raise Untranslatable(WRAP_REL, "%s: backward argument %s" % (w["wrapper"], a))
    if gkind is None:
        raise Untranslatable(WRAP_REL, "%s: upstream gradient not passed" % w["wrapper"])
    bcall = " ".join([kb["name"], "sz"] + bargs)
    nb = len(kb["ret"])
    if nb != w["nb"]:
        raise Untranslatable(WRAP_REL, "%s: backward kernel returns %d values, wrapper unpacks %d" % (w["wrapper"], nb, w["nb"]))
    bnames = ["bw%d" % i for i in range(nb)]
    bpat = bnames[0] if nb == 1 else "'(" + ", ".join(bnames) + ")"
    for inp, idx in sorted(w["acc"].items(), key=lambda t: t[1]):
        out += "Definition %s_grad_%s %s (g : %s) : %s :=\n  let %s := %s in\n  let %s := %s in %s.\n" % (
            w["wrapper"], inp, decl, coq_type(gkind), coq_type(kb["ret"][idx][1]), fpat, fcall, bpat, bcall, bnames[idx])
    return out


# ---------------------------------------------------------------------------------------------
HEADER = """(* GENERATED by lib/py2coq/gen_veckernels.py from %s and %s -- do not edit.
   One definition per kernel, on one fibre of the reduction (see Analysis/Vector.v). *)
From Coq Require Import Reals List.
From SG Require Import Analysis.Vector.
Import ListNotations.
Open Scope R_scope.

(* module constants of cpu_ops.py *)
%s
"""


def generate(repo=None):
    repo = repo or common.REPO
    ir = translate(repo)
    w = wiring(repo)
    pr = Pr(ir)
    for c in ir["consts"]:
        if cname(c) != c:
            raise Untranslatable(SRC_REL, "module constant named " + c)
    txt = HEADER % (SRC_REL, WRAP_REL, "".join("Definition %s : R := %s.\n" % (c, q(v)) for c, v in ir["consts"].items()))
    for name in ORDER:
        if name not in ir["kernels"]:
            txt += "(* %s: NOT TRANSLATED -- %s *)\n\n" % (name, ir["failures"].get(name, "").replace("*)", "* )"))
            continue
        k = ir["kernels"][name]
        t, probes = pr.kernel(k)
        txt += t
        if name in ("softmax_forward", "log_softmax_forward", "cross_entropy_loss_forward"):
            inter = pr.intermediates(k, probes)
            if not inter:
                ir["failures"][name + "/intermediates"] = "%s is no longer straight-line: intermediates cannot be listed" % name
            txt += inter
        txt += "\n"
    wf = w["__failures__"]
    for name, stem in WRAPPERS.items():
        if name in wf:
            txt += "(* wrapper %s: NOT TRANSLATED -- %s *)\n\n" % (name, wf[name].replace("*)", "* )"))
            continue
        if stem + "_forward" not in ir["kernels"]:
            wf[name] = "the forward kernel of wrapper %s was not translated" % name
            w["__fwd_failures__"][name] = wf[name]
            continue
        try:
            t, why = print_wiring(ir, w[name])
            txt += t + "\n"
            if why:
                wf[name] = why          # <wrapper>_out is defined, the <wrapper>_grad_* are not
        except Untranslatable as ex:
            wf[name] = str(ex)
            w["__fwd_failures__"][name] = str(ex)
    # ---- nn/losses.py: Loss.__call__ reductions and the two loss modules
    lo = loss_modules(repo)
    w["__losses__"] = lo
    for key in ("sum", "mean", "none"):
        if key in lo["reduce"]:
            op = lo["reduce"][key]
            term, ty = {"sum": ("vsum rows l", "R"), "mean": ("vmean rows l", "R"), "id": ("l", "vec")}[op]
            txt += "(* %s: Loss.__call__ with reduction %s *)\nDefinition loss_reduce_%s (rows : nat) (l : vec) : %s := %s.\n" % (
                LOSS_REL, "'%s'" % key if key != "none" else "= anything else", key, ty, term)
    for cls, wrapper in lo["modules"].items():
        if wrapper in w and wrapper not in w["__fwd_failures__"] and wrapper in WRAPPERS and ir["kernels"].get(WRAPPERS[wrapper] + "_forward", {}).get("fibre") == "row":
            txt += "(* %s: %s.forward = F.%s; one value per row of the (N, C) input *)\n" % (LOSS_REL, cls, wrapper)
            txt += "Definition %s_rows (sz : nat) (y_pred : nat -> vec) (y_true : nat -> nat) : vec :=\n  fun r => %s_out sz (y_pred r) (y_true r).\n" % (cls, wrapper)
        else:
            lo["failures"][cls] = lo["failures"].get(cls, "its functional wrapper was not translated")
    txt += "\n"
    return ir, w, txt


LOSS_REL = "synapgrad/nn/losses.py"
LOSS_CLASSES = ("NLLLoss", "CrossEntropyLoss")


def loss_modules(repo=None):
    """Loss.__call__: which tensor op each reduction string selects; NLLLoss / CrossEntropyLoss.forward: which functional.
    Fail-closed per item: {"reduce": {"sum": op, "mean": op, "none": op}, "modules": {class: wrapper}, "failures": {...}}"""
    repo = repo or common.REPO
    path = os.path.join(repo, LOSS_REL)
    res = {"reduce": {}, "modules": {}, "failures": {}}
    try:
        tree = ast.parse(open(path).read())
    except Exception as ex:
        res["failures"]["Loss.__call__"] = "cannot parse %s: %s" % (LOSS_REL, ex)
        return res
    classes = {c.name: c for c in tree.body if isinstance(c, ast.ClassDef)}

    def body_of(fn):
        return [s for s in fn.body if not (isinstance(s, ast.Expr) and isinstance(s.value, ast.Constant) and isinstance(s.value.value, str))]

    def method(cls, name):
        ms = [m for m in cls.body if isinstance(m, ast.FunctionDef) and m.name == name]
        return ms[0] if len(ms) == 1 else None
    try:
        Loss = classes.get("Loss")
        call = method(Loss, "__call__") if Loss else None
        init = method(Loss, "__init__") if Loss else None
        if call is None or init is None:
            raise Untranslatable(LOSS_REL, "class Loss with __init__ and __call__ not found")
        if not any((isinstance(s, ast.Assign) and isinstance(s.targets[0], ast.Attribute) and s.targets[0].attr == "reduction" and dump(s.targets[0].value) == pat("self") and dump(s.value) == pat("reduction")) for s in init.body):
            raise Untranslatable(LOSS_REL, "Loss.__init__ does not store `reduction`")
        params = [a.arg for a in call.args.args]
        if len(params) != 3:
            raise Untranslatable(LOSS_REL, "Loss.__call__ parameters")
        b = body_of(call)
        if len(b) != 3 or not (isinstance(b[0], ast.Assign) and len(b[0].targets) == 1 and isinstance(b[0].targets[0], ast.Name)
                               and dump(b[0].value) == pat("super().__call__(%s, %s)" % (params[1], params[2]))):
            raise Untranslatable("%s:%d" % (LOSS_REL, call.lineno), "Loss.__call__ is not `loss = super().__call__(..); if ..; return ..`")
        L = b[0].targets[0].id
        if not (isinstance(b[2], ast.Return) and isinstance(b[2].value, ast.Name)):
            raise Untranslatable("%s:%d" % (LOSS_REL, call.lineno), "Loss.__call__ return")
        V = b[2].value.id

        def branch(stmts, node):
            if len(stmts) != 1 or not (isinstance(stmts[0], ast.Assign) and len(stmts[0].targets) == 1 and isinstance(stmts[0].targets[0], ast.Name)
                                       and stmts[0].targets[0].id == V):
                raise Untranslatable("%s:%d" % (LOSS_REL, node.lineno), "reduction branch")
            v = stmts[0].value
            if dump(v) == pat("%s.sum()" % L):
                return "sum"
            if dump(v) == pat("%s.mean()" % L):
                return "mean"
            if dump(v) == pat(L):
                return "id"
            raise Untranslatable("%s:%d" % (LOSS_REL, v.lineno), "reduction " + dump(v))
        node = b[1]
        table = {}
        while True:
            if not isinstance(node, ast.If):
                raise Untranslatable("%s:%d" % (LOSS_REL, call.lineno), "reduction chain")
            t = node.test
            if not (isinstance(t, ast.Compare) and len(t.ops) == 1 and isinstance(t.ops[0], ast.Eq) and dump(t.left) == pat("self.reduction")
                    and isinstance(t.comparators[0], ast.Constant) and isinstance(t.comparators[0].value, str)):
                raise Untranslatable("%s:%d" % (LOSS_REL, node.lineno), "reduction test")
            key = t.comparators[0].value
            if key in table:
                raise Untranslatable("%s:%d" % (LOSS_REL, node.lineno), "duplicate reduction test")
            table[key] = branch(node.body, node)
            if len(node.orelse) == 1 and isinstance(node.orelse[0], ast.If):
                node = node.orelse[0]
                continue
            default = branch(node.orelse, node)
            break
        res["reduce"] = {"sum": table.get("sum", default), "mean": table.get("mean", default), "none": table.get("none", default)}
        extra = set(table) - {"sum", "mean", "none"}
        if extra:
            raise Untranslatable(LOSS_REL, "unknown reduction strings %s" % sorted(extra))
    except Untranslatable as ex:
        res["failures"]["Loss.__call__"] = str(ex)
    for cname_ in LOSS_CLASSES:
        try:
            c = classes.get(cname_)
            if c is None or [dump(x) for x in c.bases] != [pat("Loss")]:
                raise Untranslatable(LOSS_REL, "class %s(Loss) not found" % cname_)
            ms = [m for m in c.body if isinstance(m, ast.FunctionDef)]
            if [m.name for m in ms] != ["forward"]:
                raise Untranslatable(LOSS_REL, "%s defines methods %s" % (cname_, [m.name for m in ms]))
            fw = ms[0]
            ps = [a.arg for a in fw.args.args]
            b = body_of(fw)
            ok = len(ps) == 3 and len(b) == 1 and isinstance(b[0], ast.Return) and isinstance(b[0].value, ast.Call) \
                and isinstance(b[0].value.func, ast.Attribute) and dump(b[0].value.func.value) == pat("F") \
                and [dump(a) for a in b[0].value.args] == [pat(ps[1]), pat(ps[2])] and not b[0].value.keywords
            if not ok:
                raise Untranslatable("%s:%d" % (LOSS_REL, fw.lineno), "%s.forward is not `return F.<loss>(y_pred, y_true)`" % cname_)
            res["modules"][cname_] = b[0].value.func.attr
        except Untranslatable as ex:
            res["failures"][cname_] = str(ex)
    return res


def all_failures(ir, w):
    """{kernel or 'wrapper:<name>': reason}"""
    d = dict(ir["failures"])
    d.update({"wrapper:" + k: v for k, v in w["__failures__"].items()})
    d.update({"wrapper-forward:" + k: v for k, v in w["__fwd_failures__"].items()})
    d.update({"losses:" + k: v for k, v in w.get("__losses__", {}).get("failures", {}).items()})
    return d


@register("veckernels")
def gen():
    ir, w, txt = generate()
    changed = common.write_if_changed(os.path.join(common.COQ, OUT_REL), txt)
    fails = all_failures(ir, w)
    if fails:
        raise Untranslatable(OUT_REL, "written without: " + "; ".join("%s (%s)" % kv for kv in fails.items()))
    print("py2coq veckernels: %d kernels, %d wrappers -> %s%s" % (len(ir["kernels"]), len([k for k in w if not k.startswith("__")]), OUT_REL, "" if changed else " (unchanged)"))
    return ir, w
