"""py2coq: source census for property C19 (reproducibility).  synapgrad/**/*.py -> coq/Gen/GenCensus.v + work/census.json

A census over the WHOLE package AST (every .py under REPO/synapgrad).  Fail closed: a syntax error, a `from x import *`,
a dynamic import that is not a constant, a reference to one of the watched modules that cannot be classified, or an
unknown member of numpy.random / random / datetime raises `Unclassifiable`.

 (a) draws      every reference (call or bare reference) to a source of randomness / non-determinism
                numpy.random.*  random.*  os.urandom/getrandom  secrets.*  uuid.*  time.*  datetime.now/...  hash(  id(  .__hash__(
                resolved through the lexical scopes and the import table of the file (aliases, from-imports, function-local
                imports, `x = np.random`, `x = importlib.import_module("const")`), NOT by spelling: a parameter or local called
                `random` shadows the module, `import numpy.random as whatever` is tracked.
 (b) set_news   every construction of a set / frozenset (display, comprehension, call, set algebra, result of a same-file
                function that returns sets) and
     set_uses   every use of a variable bound to such a set (closures included) or of an anonymous set, classified
                Membership | Add | Size | Iterate | Escape | OtherUse;   dicts: every dict construction with its key kind.
 (c) seed_body  the statements of utils.manual_seed.
 (d) hash_defs  every __hash__ / __eq__ definition (or @dataclass) in a class of the package.
 (e) sorts      every sorted( / .sort( call, with whether a key is given and whether the sorted elements are syntactically
                numbers (`numeric_expr` below: int arithmetic / guarded names), e.g. sorted(ax + a.ndim if ax < 0 else ax for ax in axes);
     order_defs every __lt__/__le__/__gt__/__ge__/__cmp__ definition or @total_ordering in a class of the package.
 (f) uninits    every np.empty / np.empty_like / np.ndarray( allocation (uninitialised memory).
 (g) visual_imports   every import of synapgrad.visual outside synapgrad/visual/.
 (h) empty_uses every CALL of synapgrad.empty (the documented-uninitialised constructor) in the package, with the attribute it
                is stored in and `initialised` = the translator could establish that an nn.init.*_ call (one that provably
                replaces `.data` completely) overwrites that attribute on every path on which the allocation happens
                (guard-context rule, see `EmptyAnalysis`); anything it cannot establish is `false` (fail-safe, like Escape).

The generated Coq file contains only data; its meaning is in coq/IR/Census.v.
Type annotations are not visited (they are never on the numeric path).
"""
import ast, builtins, json, os
from lib import common
from lib.py2coq.main import register


class Unclassifiable(Exception):
    pass


# ---------------------------------------------------------------------------------------------- classification tables
NP_GLOBAL = {  # functions of numpy.random that use NumPy's global (legacy, module-level) RandomState
    'beta', 'binomial', 'bytes', 'chisquare', 'choice', 'dirichlet', 'exponential', 'f', 'gamma', 'geometric', 'get_state',
    'gumbel', 'hypergeometric', 'laplace', 'logistic', 'lognormal', 'logseries', 'multinomial', 'multivariate_normal',
    'negative_binomial', 'noncentral_chisquare', 'noncentral_f', 'normal', 'pareto', 'permutation', 'poisson', 'power',
    'rand', 'randint', 'randn', 'random', 'random_integers', 'random_sample', 'ranf', 'rayleigh', 'sample', 'seed',
    'set_state', 'shuffle', 'standard_cauchy', 'standard_exponential', 'standard_gamma', 'standard_normal', 'standard_t',
    'triangular', 'uniform', 'vonmises', 'wald', 'weibull', 'zipf'}
NP_LOCAL = {'Generator', 'RandomState', 'SeedSequence', 'MT19937', 'Philox', 'PCG64', 'PCG64DXSM', 'SFC64', 'default_rng',
            'BitGenerator', 'get_bit_generator', 'set_bit_generator'}
PY_GLOBAL = {'seed', 'random', 'uniform', 'randint', 'randrange', 'choice', 'choices', 'shuffle', 'sample', 'gauss',
             'normalvariate', 'betavariate', 'expovariate', 'gammavariate', 'lognormvariate', 'paretovariate', 'triangular',
             'vonmisesvariate', 'weibullvariate', 'getrandbits', 'randbytes', 'getstate', 'setstate', 'binomialvariate'}
PY_LOCAL = {'Random', 'SystemRandom'}
DATETIME_CLOCK = {'now', 'utcnow', 'today'}
DATETIME_PURE = {'timedelta', 'datetime', 'date', 'time', 'timezone', 'strptime', 'fromisoformat', 'fromtimestamp', 'combine',
                 'fromordinal', 'min', 'max', 'UTC'}
OS_ENTROPY = {'urandom', 'getrandom'}
RESEED = {'seed', 'set_state', 'setstate', 'set_bit_generator'}

ITER_FUNCS = {'list', 'tuple', 'sorted', 'min', 'max', 'sum', 'iter', 'next', 'enumerate', 'zip', 'map', 'filter', 'any', 'all',
              'reversed', 'dict', 'str', 'repr', 'print', 'format'}
SIZE_FUNCS = {'len', 'bool'}
SET_MUTATORS = {'add', 'update', 'discard', 'remove', 'clear', 'difference_update', 'intersection_update',
                'symmetric_difference_update'}
SET_DERIVERS = {'copy', 'union', 'intersection', 'difference', 'symmetric_difference'}
LABEL_FUNCS = {'str', 'repr', 'format', 'hex', 'print'}
ORDER_METHODS = {'__lt__', '__le__', '__gt__', '__ge__', '__cmp__'}
UNINIT = {'numpy.empty', 'numpy.empty_like', 'numpy.ndarray'}
DICT_CTORS = {'builtin.dict': 'DictCall', 'collections.OrderedDict': 'OrderedDictCall', 'collections.defaultdict': 'DefaultDictCall',
              'collections.Counter': 'CounterCall'}


def U(n, limit=70):
    t = ast.unparse(n).replace("\n", " ")
    return t if len(t) <= limit else t[:limit - 3] + "..."


# ---------------------------------------------------------------------------------------------- scopes
class Scope:
    def __init__(self, kind, name, parent, node):
        self.kind, self.name, self.parent, self.node = kind, name, parent, node
        self.bindings = {}        # name -> [(kind, payload)]
        self.globals_decl = set()
        self.nonlocal_decl = set()
        self.setvars = {}         # name -> ctor kind (filled by the set analysis)

    def bind(self, name, kind, payload=None):
        self.bindings.setdefault(name, []).append((kind, payload))

    def qual(self):
        parts = []
        s = self
        while s is not None and s.kind != 'module':
            if s.kind in ('function', 'class'):
                parts.append(s.name)
            elif s.kind == 'lambda':
                parts.append('<lambda>')
            s = s.parent
        return ".".join(reversed(parts)) or "<module>"

    def module(self):
        s = self
        while s.parent is not None:
            s = s.parent
        return s


class FileCensus:
    """All passes over one file."""

    def __init__(self, rel, pkgrel, src):
        self.rel = rel            # path relative to synapgrad/, e.g. "nn/modules.py"
        self.pkg = pkgrel         # dotted package of the file, e.g. "synapgrad.nn"
        try:
            self.tree = ast.parse(src, filename=rel)
        except SyntaxError as ex:
            raise Unclassifiable("%s: syntax error: %s" % (rel, ex))
        self.rows = {k: [] for k in ("draws", "set_news", "set_uses", "dicts", "hash_defs", "order_defs", "sorts", "uninits", "empty_uses", "visual_imports")}
        self.mod = Scope('module', '<module>', None, self.tree)
        self.tree._scope = self.mod
        self.fn_returns = {}      # module-level function name -> None | 'single' | [bool,...]
        self._build(self.tree, self.mod, None)
        self._mark_dead(self.tree, False)

    # ---- pass 1: scopes, parents, bindings ----------------------------------------------------
    def err(self, node, what):
        raise Unclassifiable("%s:%d %s: %s" % (self.rel, getattr(node, "lineno", 0), what, U(node)))

    def _bind_target(self, tgt, scope, kind, value=None):
        """bind the names of an assignment target"""
        if isinstance(tgt, ast.Name):
            self._bind_name(tgt.id, scope, kind, value)
        elif isinstance(tgt, (ast.Tuple, ast.List)):
            vals = None
            if isinstance(value, (ast.Tuple, ast.List)) and len(value.elts) == len(tgt.elts) and \
                    not any(isinstance(e, ast.Starred) for e in list(value.elts) + list(tgt.elts)):
                vals = value.elts
            for i, e in enumerate(tgt.elts):
                if vals is not None:
                    self._bind_target(e, scope, kind, vals[i])
                elif isinstance(value, ast.Call) and kind == 'assign' and not any(isinstance(x, ast.Starred) for x in tgt.elts):
                    self._bind_target(e, scope, 'assign_pos', (value, i))
                else:
                    self._bind_target(e, scope, kind if kind != 'assign' else 'other', None)
        elif isinstance(tgt, ast.Starred):
            self._bind_target(tgt.value, scope, 'other', None)
        # Attribute / Subscript targets bind no name

    def _bind_name(self, name, scope, kind, payload):
        s = scope
        if name in s.globals_decl:
            s = s.module()
        elif name in s.nonlocal_decl:
            p = s.parent
            while p is not None and (p.kind == 'class' or name not in p.bindings) and p.parent is not None:
                p = p.parent
            s = p
        s.bind(name, kind, payload)

    def _func_scope_for_walrus(self, scope):
        s = scope
        while s.kind == 'comp':
            s = s.parent
        return s

    def _build(self, node, scope, parent):
        node._parent = parent
        node._scope = scope
        T = type(node)
        if T in (ast.FunctionDef, ast.AsyncFunctionDef):
            self._bind_name(node.name, scope, 'def', node)
            for d in node.decorator_list:
                self._build(d, scope, node)
            a = node.args
            for d in list(a.defaults) + [k for k in a.kw_defaults if k is not None]:
                self._build(d, scope, node)
            inner = Scope('function', node.name, scope, node)
            node._inner = inner
            for st in node.body:     # global/nonlocal declarations first (they affect where names bind)
                self._collect_decls(st, inner)
            for arg in a.posonlyargs + a.args + a.kwonlyargs + ([a.vararg] if a.vararg else []) + ([a.kwarg] if a.kwarg else []):
                inner.bind(arg.arg, 'param', None)
                arg._parent = node; arg._scope = inner
            for st in node.body:
                self._build(st, inner, node)
            return
        if T is ast.Lambda:
            a = node.args
            for d in list(a.defaults) + [k for k in a.kw_defaults if k is not None]:
                self._build(d, scope, node)
            inner = Scope('lambda', '<lambda>', scope, node)
            node._inner = inner
            for arg in a.posonlyargs + a.args + a.kwonlyargs + ([a.vararg] if a.vararg else []) + ([a.kwarg] if a.kwarg else []):
                inner.bind(arg.arg, 'param', None)
            self._build(node.body, inner, node)
            return
        if T is ast.ClassDef:
            self._bind_name(node.name, scope, 'class', node)
            for d in node.decorator_list + node.bases + [k.value for k in node.keywords]:
                self._build(d, scope, node)
            inner = Scope('class', node.name, scope, node)
            node._inner = inner
            for st in node.body:
                self._collect_decls(st, inner)
            for st in node.body:
                self._build(st, inner, node)
            return
        if T in (ast.ListComp, ast.SetComp, ast.GeneratorExp, ast.DictComp):
            inner = Scope('comp', '<comp>', scope, node)
            node._inner = inner
            gens = node.generators
            for gi, g in enumerate(gens):
                g._parent = node; g._scope = inner
                self._build(g.iter, scope if gi == 0 else inner, g)
                self._build_target(g.target, inner, g, 'comp')
                for c in g.ifs:
                    self._build(c, inner, g)
            if T is ast.DictComp:
                self._build(node.key, inner, node); self._build(node.value, inner, node)
            else:
                self._build(node.elt, inner, node)
            return
        if T is ast.Import:
            for al in node.names:
                if al.asname:
                    self._bind_name(al.asname, scope, 'import', al.name)
                else:
                    self._bind_name(al.name.split(".")[0], scope, 'import', al.name.split(".")[0])
            return
        if T is ast.ImportFrom:
            base = node.module or ""
            if node.level:
                pk = self.pkg.split(".")
                pk = pk[:len(pk) - (node.level - 1)] if node.level > 1 else pk
                base = ".".join(pk + ([base] if base else []))
            for al in node.names:
                if al.name == "*":
                    self.err(node, "star import (cannot build the import table)")
                self._bind_name(al.asname or al.name, scope, 'import', base + "." + al.name)
            return
        if T in (ast.Global, ast.Nonlocal):
            return
        if T is ast.Assign:
            self._build(node.value, scope, node)
            for t in node.targets:
                self._build_target(t, scope, node, 'assign', node.value)
            return
        if T is ast.AnnAssign:
            if node.value is not None:
                self._build(node.value, scope, node)
            self._build_target(node.target, scope, node, 'assign', node.value)
            return                                    # annotation not visited
        if T is ast.AugAssign:
            self._build(node.value, scope, node)
            self._build_target(node.target, scope, node, 'other')
            return
        if T in (ast.For, ast.AsyncFor):
            self._build(node.iter, scope, node)
            self._build_target(node.target, scope, node, 'other')
            for st in node.body + node.orelse:
                self._build(st, scope, node)
            return
        if T in (ast.With, ast.AsyncWith):
            for it in node.items:
                it._parent = node; it._scope = scope
                self._build(it.context_expr, scope, it)
                if it.optional_vars is not None:
                    self._build_target(it.optional_vars, scope, it, 'other')
            for st in node.body:
                self._build(st, scope, node)
            return
        if T is ast.ExceptHandler:
            if node.type is not None:
                self._build(node.type, scope, node)
            if node.name:
                self._bind_name(node.name, scope, 'other', None)
            for st in node.body:
                self._build(st, scope, node)
            return
        if T is ast.NamedExpr:
            self._build(node.value, scope, node)
            fs = self._func_scope_for_walrus(scope)
            node.target._parent = node; node.target._scope = scope
            self._bind_name(node.target.id, fs, 'assign', node.value)
            return
        if T is ast.Delete:
            for t in node.targets:
                self._build_target(t, scope, node, 'other')
            return
        if T in (ast.Match,) or T.__name__ in ("TypeAlias", "TryStar"):
            self.err(node, "statement kind not supported by the census")
        if T is ast.arg:
            return
        # generic: visit children (annotations are only reachable through arg/AnnAssign/FunctionDef.returns, all skipped)
        for ch in ast.iter_child_nodes(node):
            self._build(ch, scope, node)

    def _build_target(self, tgt, scope, parent, kind, value=None):
        """visit a store target: binds names; attribute/subscript bases are ordinary loads"""
        self._bind_target(tgt, scope, kind, value)
        self._visit_target(tgt, scope, parent)

    def _visit_target(self, tgt, scope, parent):
        tgt._parent = parent; tgt._scope = scope
        if isinstance(tgt, (ast.Tuple, ast.List)):
            for e in tgt.elts:
                self._visit_target(e, scope, tgt)
        elif isinstance(tgt, ast.Starred):
            self._visit_target(tgt.value, scope, tgt)
        elif isinstance(tgt, ast.Name):
            pass
        else:
            for ch in ast.iter_child_nodes(tgt):
                self._build(ch, scope, tgt)

    def _collect_decls(self, st, inner):
        """global / nonlocal declarations of a function or class body (not of nested scopes)"""
        stack = [st]
        while stack:
            n = stack.pop()
            if isinstance(n, ast.Global):
                inner.globals_decl.update(n.names)
            elif isinstance(n, ast.Nonlocal):
                inner.nonlocal_decl.update(n.names)
            elif isinstance(n, (ast.FunctionDef, ast.AsyncFunctionDef, ast.ClassDef, ast.Lambda)) and n is not st:
                continue
            else:
                if isinstance(n, (ast.FunctionDef, ast.AsyncFunctionDef, ast.ClassDef, ast.Lambda)):
                    continue
                stack.extend(ast.iter_child_nodes(n))

    # ---- dead code: statements that syntactically follow return/raise/break/continue in the same block ------------
    def _mark_dead(self, node, dead):
        node._dead = dead
        for field, val in ast.iter_fields(node):
            if isinstance(val, list) and val and isinstance(val[0], ast.stmt):
                d = dead
                for st in val:
                    self._mark_dead(st, d)
                    if isinstance(st, (ast.Return, ast.Raise, ast.Break, ast.Continue)):
                        d = True
            elif isinstance(val, list):
                for x in val:
                    if isinstance(x, ast.AST):
                        self._mark_dead(x, dead)
            elif isinstance(val, ast.AST):
                self._mark_dead(val, dead)

    # ---- name resolution --------------------------------------------------------------------------
    def resolve(self, name, scope):
        """-> (scope, bindings) of the lexically visible binding, or None (builtin / unknown global)"""
        s = scope
        first = True
        while s is not None:
            if name in s.globals_decl:
                m = s.module()
                return (m, m.bindings[name]) if name in m.bindings else None
            if s.kind == 'class' and not first:
                s = s.parent
                continue
            if name in s.bindings:
                return s, s.bindings[name]
            first = False
            s = s.parent
        return None

    def origin(self, node, depth=0):
        """dotted origin of a Name / Attribute chain if it denotes an imported module or a member of one, else None"""
        if depth > 8:
            return None
        if isinstance(node, ast.Name):
            r = self.resolve(node.id, node._scope)
            if r is None:
                return "builtin." + node.id if hasattr(builtins, node.id) else None
            outs = set()
            plain = False
            for kind, payload in r[1]:
                if kind == 'import':
                    outs.add(payload)
                elif kind == 'assign' and payload is not None:
                    o = self._alias_origin(payload, depth + 1)
                    if o is not None:
                        outs.add(o)
                    else:
                        plain = True
                else:
                    plain = True
            watched = [o for o in outs if watched_root(o) is not None]
            if watched:
                if len(set(watched)) > 1:
                    self.err(node, "name bound to several watched modules")
                return watched[0]           # tracked even if the name is also rebound to something else (conservative)
            if plain or len(outs) != 1:
                return None
            return next(iter(outs))
        if isinstance(node, ast.Attribute):
            b = self.origin(node.value, depth)
            if b is None or b.startswith("builtin."):
                return None
            return b + "." + node.attr
        return None

    def _alias_origin(self, value, depth):
        """`x = np.random` / `x = importlib.import_module("const")` / `x = __import__("const")`"""
        if isinstance(value, (ast.Name, ast.Attribute)):
            return self.origin(value, depth)
        if isinstance(value, ast.Call):
            f = self.origin(value.func, depth)
            if f in ("importlib.import_module", "builtin.__import__"):
                if len(value.args) >= 1 and isinstance(value.args[0], ast.Constant) and isinstance(value.args[0].value, str):
                    return value.args[0].value
                self.err(value, "dynamic import with a non-constant module name")
        return None

    # ---- helpers ----------------------------------------------------------------------------------
    def func_of(self, node):
        s = node._scope
        while s.kind == 'comp':
            s = s.parent
        return s.qual()

    def row_base(self, node):
        return {"file": self.rel, "line": node.lineno, "func": self.func_of(node)}

    # ---- pass 2: set variables --------------------------------------------------------------------
    def setvar_of(self, node):
        """(scope, name) if node is a Name denoting a tracked set variable"""
        if isinstance(node, ast.Name):
            r = self.resolve(node.id, node._scope)
            if r is not None and node.id in r[0].setvars:
                return r[0], node.id
        return None

    def set_expr_kind(self, node):
        """constructor kind if the expression builds a set, else None"""
        if isinstance(node, ast.Set):
            return "CtorDisplay"
        if isinstance(node, ast.SetComp):
            return "CtorComp"
        if isinstance(node, ast.Call):
            f = self.origin(node.func)
            if f == "builtin.set":
                return "CtorCall"
            if f == "builtin.frozenset":
                return "CtorFrozen"
            if isinstance(node.func, ast.Attribute) and node.func.attr in SET_DERIVERS and self.is_setish(node.func.value):
                return "CtorDerived"
            if isinstance(node.func, ast.Name):
                r = self.resolve(node.func.id, node._scope)
                if r is not None and r[0].kind == 'module' and self.fn_returns.get(node.func.id) == 'single':
                    return "CtorFromCall"
        if isinstance(node, ast.BinOp) and isinstance(node.op, (ast.BitOr, ast.BitAnd, ast.Sub, ast.BitXor)):
            if any(self.is_setish(x) or self._is_dictview(x) for x in (node.left, node.right)):
                return "CtorDerived"
        if isinstance(node, ast.IfExp) and (self.is_setish(node.body) or self.is_setish(node.orelse)):
            return "CtorDerived"
        return None

    def _is_dictview(self, node):
        return isinstance(node, ast.Call) and isinstance(node.func, ast.Attribute) and node.func.attr in ("keys", "items") and not node.args

    def is_setish(self, node):
        return self.setvar_of(node) is not None or self.set_expr_kind(node) is not None

    def _analyse_sets(self):
        scopes = []

        def collect(n):
            if hasattr(n, "_inner"):
                scopes.append(n._inner)
            for ch in ast.iter_child_nodes(n):
                collect(ch)
        collect(self.tree)
        scopes.append(self.mod)
        for _ in range(6):
            changed = False
            for s in scopes:
                for name, bs in s.bindings.items():
                    if name in s.setvars:
                        continue
                    for kind, payload in bs:
                        k = None
                        if kind == 'assign' and payload is not None:
                            k = self.set_expr_kind(payload)
                            if k is None and self.setvar_of(payload) is not None:
                                k = "CtorDerived"      # plain alias  t = s
                        elif kind == 'assign_pos':
                            call, i = payload
                            if isinstance(call.func, ast.Name):
                                r = self.resolve(call.func.id, call._scope)
                                summ = self.fn_returns.get(call.func.id)
                                if r is not None and r[0].kind == 'module' and isinstance(summ, list) and i < len(summ) and summ[i]:
                                    k = "CtorFromCall"
                        if k is not None:
                            s.setvars[name] = k
                            changed = True
                            break
            # summaries of module-level functions
            for st in self.tree.body:
                if isinstance(st, (ast.FunctionDef, ast.AsyncFunctionDef)):
                    summ = None
                    for sub in self._own_nodes(st):
                        if isinstance(sub, ast.Return) and sub.value is not None:
                            v = sub.value
                            if isinstance(v, ast.Tuple):
                                flags = [self.is_setish(e) for e in v.elts]
                                if any(flags):
                                    if isinstance(summ, list) and len(summ) == len(flags):
                                        summ = [a or b for a, b in zip(summ, flags)]
                                    elif summ is None:
                                        summ = flags
                            elif self.is_setish(v):
                                summ = 'single'
                    if summ != self.fn_returns.get(st.name):
                        self.fn_returns[st.name] = summ
                        changed = True
            if not changed:
                break
        else:
            raise Unclassifiable("%s: set analysis did not reach a fixpoint" % self.rel)

    def _own_nodes(self, fn):
        """nodes of a function body excluding nested function/class bodies"""
        stack = list(fn.body)
        while stack:
            n = stack.pop()
            yield n
            if isinstance(n, (ast.FunctionDef, ast.AsyncFunctionDef, ast.ClassDef, ast.Lambda)):
                continue
            stack.extend(ast.iter_child_nodes(n))

    # ---- classification of one use of a set-valued expression ---------------------------------------
    def classify_set_use(self, node):
        p = node._parent
        if isinstance(p, ast.keyword):
            p = p._parent
            return self._as_call_arg(p)
        if isinstance(p, ast.Compare):
            if node is p.left:
                return "OtherUse"
            i = p.comparators.index(node)
            return "Membership" if isinstance(p.ops[i], (ast.In, ast.NotIn)) else "OtherUse"
        if isinstance(p, ast.Attribute) and p.value is node:
            pp = p._parent
            if isinstance(pp, ast.Call) and pp.func is p:
                if p.attr in SET_MUTATORS:
                    return "Add"
                if p.attr == "__contains__":
                    return "Membership"
                if p.attr == "pop":
                    return "Iterate"
                if p.attr == "__len__":
                    return "Size"
            return "OtherUse"
        if isinstance(p, (ast.For, ast.AsyncFor)) and p.iter is node:
            return "Iterate"
        if isinstance(p, ast.comprehension) and p.iter is node:
            return "Iterate"
        if isinstance(p, ast.Call):
            if p.func is node:
                return "OtherUse"
            return self._as_call_arg(p)
        if isinstance(p, ast.Starred):
            return "Iterate"
        if isinstance(p, (ast.Return, ast.Yield, ast.YieldFrom, ast.Await)):
            return "Escape"
        if isinstance(p, (ast.Tuple, ast.List, ast.Set, ast.Dict)):
            return "Escape"
        if isinstance(p, (ast.Assign, ast.AnnAssign)) and p.value is node:
            tgts = p.targets if isinstance(p, ast.Assign) else [p.target]
            if all(isinstance(t, ast.Name) for t in tgts):
                return None                       # bound to a tracked variable: the variable's uses are recorded instead
            if all(isinstance(t, (ast.Name, ast.Tuple, ast.List)) for t in tgts):
                return "OtherUse"
            return "Escape"                       # stored in an attribute / container
        if isinstance(p, (ast.If, ast.While, ast.IfExp)) and p.test is node:
            return "Size"
        if isinstance(p, ast.UnaryOp) and isinstance(p.op, ast.Not):
            return "Size"
        if isinstance(p, ast.AugAssign):
            return "Add" if p.target is node else "OtherUse"
        if isinstance(p, (ast.FormattedValue, ast.JoinedStr)):
            return "Escape"
        return "OtherUse"

    def _as_call_arg(self, call):
        f = self.origin(call.func)
        if f is not None and f.startswith("builtin."):
            b = f[8:]
            if b in SIZE_FUNCS:
                return "Size"
            if b in ITER_FUNCS:
                return "Iterate"
            if b in ("set", "frozenset", "isinstance", "type"):
                return "OtherUse"
            return "Escape"
        if f is not None and f.startswith("numpy."):
            return "Iterate"
        return "Escape"

    # ---- which elements does a keyless sorted(...) order? ------------------------------------------------------------
    # Judgement  numeric_expr(e, G):  "if every operand of e that is not a package object is a builtin Python value or a NumPy
    # scalar/array, then evaluating e either raises or yields a number (int / float / bool / NumPy scalar; or a NumPy array, which
    # compares by value)".  Justification, rule by rule (Python 3 has NO default ordering and no mixed-type arithmetic on builtins):
    #   known number : int/float/bool literal; len(..), int(..), float(..) (always return a number); x.ndim, x.shape[i] (ints in the
    #                  NumPy / Tensor API); +,-,*,//,/,%,** and unary -,+ of known numbers.
    #   K + x, x + K, -, //, /, ** with ONE numeric side: builtin non-numbers (str, list, tuple, None, dict, set) raise TypeError
    #                  against a number, so if it returns, the other side was a number too.   `*` needs BOTH sides numeric
    #                  (sequence * int is a sequence), `%` needs the LEFT side numeric (str % x is formatting).
    #   guard        : in `b if t else c`, a bare name compared by < <= > >= with a numeric expression in the (always evaluated,
    #                  first) comparison of t is numeric in b and c: order comparison of a builtin non-number with a number raises.
    # Package objects (Tensor, Parameter, Module) overload + and * but define no ordering (order_defs = [] is part of the theorem),
    # so a keyless sort over them raises TypeError instead of ordering them.
    def known_number(self, e):
        if isinstance(e, ast.Constant):
            return isinstance(e.value, (int, float)) and not isinstance(e.value, complex)
        if isinstance(e, ast.Call) and not e.keywords:
            f = self.origin(e.func)
            return f in ("builtin.len", "builtin.int", "builtin.float") and not any(isinstance(a, ast.Starred) for a in e.args)
        if isinstance(e, ast.Attribute) and e.attr == "ndim":
            return True
        if isinstance(e, ast.Subscript) and isinstance(e.value, ast.Attribute) and e.value.attr == "shape" and not isinstance(e.slice, (ast.Slice, ast.Tuple)):
            return True
        if isinstance(e, ast.UnaryOp) and isinstance(e.op, (ast.USub, ast.UAdd)):
            return self.known_number(e.operand)
        if isinstance(e, ast.BinOp) and isinstance(e.op, (ast.Add, ast.Sub, ast.Mult, ast.FloorDiv, ast.Div, ast.Mod, ast.Pow)):
            return self.known_number(e.left) and self.known_number(e.right)
        return False

    def numeric_expr(self, e, G=frozenset()):
        if self.known_number(e):
            return True
        if isinstance(e, ast.Name):
            return e.id in G
        if isinstance(e, ast.UnaryOp) and isinstance(e.op, (ast.USub, ast.UAdd)):
            return self.numeric_expr(e.operand, G)
        if isinstance(e, ast.BinOp):
            l, r = self.numeric_expr(e.left, G), self.numeric_expr(e.right, G)
            if isinstance(e.op, (ast.Add, ast.Sub, ast.FloorDiv, ast.Div, ast.Pow)):
                return l or r
            if isinstance(e.op, ast.Mult):
                return l and r
            if isinstance(e.op, ast.Mod):
                return l
            return False
        if isinstance(e, ast.IfExp):
            G2 = frozenset(G | self._guarded_names(e.test, G))
            return self.numeric_expr(e.body, G2) and self.numeric_expr(e.orelse, G2)
        return False

    def _guarded_names(self, t, G):
        """names forced to be numbers by the part of the test that is always evaluated"""
        if isinstance(t, ast.BoolOp):
            return self._guarded_names(t.values[0], G)
        if isinstance(t, ast.UnaryOp) and isinstance(t.op, ast.Not):
            return self._guarded_names(t.operand, G)
        if isinstance(t, ast.Compare) and len(t.ops) == 1 and isinstance(t.ops[0], (ast.Lt, ast.LtE, ast.Gt, ast.GtE)):
            a, b = t.left, t.comparators[0]
            if isinstance(a, ast.Name) and self.numeric_expr(b, G):
                return {a.id}
            if isinstance(b, ast.Name) and self.numeric_expr(a, G):
                return {b.id}
        return set()

    def sorted_elems(self, arg):
        """ElemsNumeric iff the single positional argument of sorted( ) is syntactically a collection of numbers"""
        if any(isinstance(n, ast.NamedExpr) for n in ast.walk(arg)):
            return "ElemsUnknown"                 # a walrus could rebind a guarded name
        if isinstance(arg, (ast.GeneratorExp, ast.ListComp, ast.SetComp)):
            return "ElemsNumeric" if self.numeric_expr(arg.elt) else "ElemsUnknown"
        if isinstance(arg, (ast.List, ast.Tuple)) and arg.elts:
            ok = all(not isinstance(x, ast.Starred) and self.numeric_expr(x) for x in arg.elts)
            return "ElemsNumeric" if ok else "ElemsUnknown"
        if isinstance(arg, ast.Call) and self.origin(arg.func) == "builtin.range":
            return "ElemsNumeric"
        return "ElemsUnknown"

    # ---- pass 3: rows ------------------------------------------------------------------------------
    def run(self):
        self._analyse_sets()
        for node in ast.walk(self.tree):
            if not hasattr(node, "_scope"):
                continue                          # annotation subtree (never visited)
            self._visit_watched(node)
            self._visit_sets(node)
            self._visit_misc(node)
        self.rows["empty_uses"] = EmptyAnalysis(self).rows()
        for k in self.rows:
            self.rows[k].sort(key=lambda r: (r["line"], json.dumps(r, sort_keys=True)))
        return self.rows

    def _is_chain_top(self, node):
        p = node._parent
        return not (isinstance(p, ast.Attribute) and p.value is node)

    def _visit_watched(self, node):
        if not isinstance(node, (ast.Name, ast.Attribute)) or not self._is_chain_top(node):
            return
        if isinstance(node, ast.Name) and isinstance(node.ctx, (ast.Store, ast.Del)):
            return
        if isinstance(node, ast.Attribute) and isinstance(node.ctx, (ast.Store, ast.Del)):
            return
        p = node._parent
        called = isinstance(p, ast.Call) and p.func is node
        # x.__hash__()  on any object
        if isinstance(node, ast.Attribute) and node.attr == "__hash__" and called:
            self._hash_row(node, p, "__hash__")
            return
        o = self.origin(node)
        if o is None:
            return
        if o in ("builtin.hash", "builtin.id"):
            self._hash_row(node, p if called else None, o[8:])
            return
        if o in UNINIT and called:
            r = self.row_base(node); r.update({"callee": U(node)})
            self.rows["uninits"].append(r)
            return
        wr = watched_root(o)
        if wr is None:
            return
        root, rest = wr
        if not rest:
            # the module object itself used as a value: only `name = <module>` (an alias, tracked) is understood
            if isinstance(p, (ast.Assign, ast.AnnAssign)) and p.value is node and \
                    all(isinstance(t, ast.Name) for t in (p.targets if isinstance(p, ast.Assign) else [p.target])):
                return
            self.err(node, "watched module %s used as a value (cannot follow)" % root)
        if len(rest) > 1 and root != "datetime":
            self.err(node, "member of watched module %s not understood" % root)
        fn = rest[-1]
        cls = None
        if root == "numpy.random":
            cls = "GlobalNumpy" if fn in NP_GLOBAL else "LocalGenerator" if fn in NP_LOCAL else None
        elif root == "random":
            cls = "GlobalPython" if fn in PY_GLOBAL else "LocalGenerator" if fn in PY_LOCAL else None
        elif root in ("os", "secrets", "uuid"):
            cls = "OsEntropy"
        elif root == "time":
            cls = "Clock"
        elif root == "datetime":
            if fn in DATETIME_CLOCK:
                cls = "Clock"
            elif all(x in DATETIME_PURE for x in rest):
                return
        if cls is None:
            self.err(node, "unknown member of watched module %s" % root)
        r = self.row_base(node)
        r.update({"callee": U(node), "fn": fn, "class": cls, "use": "NotHash", "set": "", "owner": "", "live": not node._dead, "called": called,
                  "origin": o})
        self.rows["draws"].append(r)

    def _hash_row(self, node, call, fn):
        use, setname, owner = "Value", "", ""
        if call is not None:
            p = call._parent
            if isinstance(p, ast.keyword):
                p = p._parent
            if isinstance(p, ast.Compare) and p.left is call and all(isinstance(o, (ast.In, ast.NotIn)) for o in p.ops) \
                    and len(p.comparators) == 1 and self.setvar_of(p.comparators[0]) is not None:
                use, setname, owner = "DedupKey", p.comparators[0].id, self.setvar_of(p.comparators[0])[0].qual()
            elif isinstance(p, ast.Call) and isinstance(p.func, ast.Attribute) and p.func.attr in ("add", "discard", "remove") \
                    and call in p.args and self.setvar_of(p.func.value) is not None:
                use, setname, owner = "DedupKey", p.func.value.id, self.setvar_of(p.func.value)[0].qual()
            elif isinstance(p, ast.Call) and (self.origin(p.func) or "").startswith("builtin.") and self.origin(p.func)[8:] in LABEL_FUNCS:
                use = "Label"
            elif isinstance(p, ast.FormattedValue):
                use = "Label"
            elif isinstance(p, ast.BinOp) and isinstance(p.op, ast.Mod) and isinstance(p.left, ast.Constant) and isinstance(p.left.value, str):
                use = "Label"
        r = self.row_base(node)
        r.update({"callee": U(call if call is not None else node), "fn": fn, "class": "AddressOrHash", "use": use, "set": setname, "owner": owner,
                  "live": not node._dead, "called": call is not None, "origin": "builtin." + fn})
        self.rows["draws"].append(r)

    def _visit_sets(self, node):
        # uses of tracked variables
        if isinstance(node, ast.Name):
            sv = self.setvar_of(node)
            if sv is None:
                return
            if isinstance(node.ctx, ast.Load):
                kind = self.classify_set_use(node)
            elif isinstance(node._parent, ast.AugAssign) and node._parent.target is node:
                kind = "Add"
            else:
                return
            if kind is None:
                return
            r = self.row_base(node)
            r.update({"var": node.id, "owner": sv[0].qual(), "kind": kind, "text": U(self._stmt_of(node))})
            self.rows["set_uses"].append(r)
            return
        k = self.set_expr_kind(node)
        if k is None:
            return
        # a construction: which variable (if any) receives it
        p = node._parent
        var = None
        if isinstance(p, (ast.Assign, ast.AnnAssign, ast.NamedExpr)) and p.value is node:
            tgts = p.targets if isinstance(p, ast.Assign) else [p.target]
            if all(isinstance(t, ast.Name) for t in tgts):
                var = tgts[0].id
        elif isinstance(p, ast.Tuple) and isinstance(p._parent, ast.Assign) and p._parent.value is p:
            a = p._parent
            if len(a.targets) == 1 and isinstance(a.targets[0], (ast.Tuple, ast.List)) and len(a.targets[0].elts) == len(p.elts):
                t = a.targets[0].elts[p.elts.index(node)]
                if isinstance(t, ast.Name):
                    var = t.id
        r = self.row_base(node)
        r.update({"var": var if var is not None else "<anon>", "ctor": k, "text": U(node)})
        self.rows["set_news"].append(r)
        if var is None:
            kind = self.classify_set_use(node)
            if kind is None:
                kind = "OtherUse"
            u = self.row_base(node)
            u.update({"var": "<anon>", "owner": self.func_of(node), "kind": kind, "text": U(self._stmt_of(node))})
            self.rows["set_uses"].append(u)

    def _stmt_of(self, node):
        n = node
        while n is not None and not isinstance(n, ast.stmt):
            n = n._parent
        return n if n is not None else node

    def _visit_misc(self, node):
        # dict constructions
        if isinstance(node, ast.Dict):
            ks = node.keys
            if not ks:
                kk = "KeyEmpty"
            elif all(k is not None and isinstance(k, ast.Constant) and isinstance(k.value, str) for k in ks):
                kk = "KeyStr"
            else:
                kk = "KeyUnknown"
            r = self.row_base(node); r.update({"ctor": "DictDisplay", "keys": kk, "text": U(node)})
            self.rows["dicts"].append(r)
        elif isinstance(node, ast.DictComp):
            r = self.row_base(node); r.update({"ctor": "DictComp", "keys": "KeyUnknown", "text": U(node)})
            self.rows["dicts"].append(r)
        elif isinstance(node, ast.Call):
            f = self.origin(node.func)
            if f in DICT_CTORS:
                kk = "KeyUnknown" if node.args else ("KeyStr" if node.keywords else "KeyEmpty")   # keywords = identifier keys
                r = self.row_base(node); r.update({"ctor": DICT_CTORS[f], "keys": kk, "text": U(node)})
                self.rows["dicts"].append(r)
            # sorted( / .sort(
            if f == "builtin.sorted" or (isinstance(node.func, ast.Attribute) and node.func.attr == "sort"
                                         and not (f or "").startswith("numpy.")):
                has_key = any(k.arg == "key" and not (isinstance(k.value, ast.Constant) and k.value.value is None) for k in node.keywords)
                what = U(node.args[0]) if (f == "builtin.sorted" and node.args) else U(node.func.value) if isinstance(node.func, ast.Attribute) else ""
                elems = self.sorted_elems(node.args[0]) if (f == "builtin.sorted" and len(node.args) == 1) else "ElemsUnknown"
                r = self.row_base(node); r.update({"callee": U(node.func), "has_key": has_key, "elems": elems, "what": what})
                self.rows["sorts"].append(r)
        # __hash__ / __eq__ definitions
        if isinstance(node, ast.ClassDef):
            for st in node.body:
                if isinstance(st, (ast.FunctionDef, ast.AsyncFunctionDef)) and st.name in ("__hash__", "__eq__"):
                    self.rows["hash_defs"].append({"file": self.rel, "line": st.lineno, "func": node.name, "method": st.name})
                if isinstance(st, ast.Assign):
                    for t in st.targets:
                        if isinstance(t, ast.Name) and t.id in ("__hash__", "__eq__"):
                            self.rows["hash_defs"].append({"file": self.rel, "line": st.lineno, "func": node.name, "method": t.id})
            for st in node.body:
                if isinstance(st, (ast.FunctionDef, ast.AsyncFunctionDef)) and st.name in ORDER_METHODS:
                    self.rows["order_defs"].append({"file": self.rel, "line": st.lineno, "func": node.name, "method": st.name})
                if isinstance(st, ast.Assign):
                    for t in st.targets:
                        if isinstance(t, ast.Name) and t.id in ORDER_METHODS:
                            self.rows["order_defs"].append({"file": self.rel, "line": st.lineno, "func": node.name, "method": t.id})
            for d in node.decorator_list:
                f = self.origin(d.func if isinstance(d, ast.Call) else d)
                if f is not None and f.endswith("dataclass"):
                    self.rows["hash_defs"].append({"file": self.rel, "line": node.lineno, "func": node.name, "method": "@dataclass"})
                    if isinstance(d, ast.Call) and any(k.arg == "order" for k in d.keywords):
                        self.rows["order_defs"].append({"file": self.rel, "line": node.lineno, "func": node.name, "method": "@dataclass(order=)"})
                if f is not None and f.endswith("total_ordering"):
                    self.rows["order_defs"].append({"file": self.rel, "line": node.lineno, "func": node.name, "method": "@total_ordering"})
        # imports of the visualisation module outside of it
        if isinstance(node, (ast.Import, ast.ImportFrom)) and not self.rel.startswith("visual/"):
            names = []
            if isinstance(node, ast.Import):
                names = [al.name for al in node.names]
            else:
                base = node.module or ""
                if node.level:
                    pk = self.pkg.split(".")
                    pk = pk[:len(pk) - (node.level - 1)] if node.level > 1 else pk
                    base = ".".join(pk + ([base] if base else []))
                names = [base + "." + al.name for al in node.names]
            for n in names:
                if n == "synapgrad.visual" or n.startswith("synapgrad.visual."):
                    r = self.row_base(node); r.update({"name": n})
                    self.rows["visual_imports"].append(r)


# ---------------------------------------------------------------------------------------------- uninitialised memory -> state
EMPTY_ORIGINS = {"synapgrad.empty", "synapgrad.tensor.empty", "synapgrad.empty_like", "synapgrad.tensor.empty_like"}
FULL_INITS = set()      # origins "synapgrad.nn.init.<fn>_" of initialisers that replace tensor.data completely (set by extract_all)


def full_inits(tree):
    """functions f(tensor, ...) of nn/init.py that on every normally-returning path execute `tensor.data = <expr>` for their
    first parameter: an unconditional top-level `tensor.data = ...`, or an unconditional top-level `return g(tensor, ...)` with g
    already in the set (statements before it may only raise, not return)"""
    defs = {f.name: f for f in tree.body if isinstance(f, ast.FunctionDef) and f.name.endswith("_") and not f.name.startswith("_") and f.args.args}
    ok = set()
    changed = True
    while changed:
        changed = False
        for name, f in defs.items():
            if name in ok:
                continue
            first = f.args.args[0].arg
            if any(isinstance(n, ast.Name) and n.id == first and isinstance(n.ctx, (ast.Store, ast.Del)) for n in ast.walk(f)):
                continue
            for st in f.body:
                if any(isinstance(n, ast.Return) for n in ast.walk(st)) and not isinstance(st, ast.Return):
                    break                                   # an early return under a condition: cannot establish
                if isinstance(st, ast.Assign) and len(st.targets) == 1 and isinstance(st.targets[0], ast.Attribute) and \
                        st.targets[0].attr == "data" and isinstance(st.targets[0].value, ast.Name) and st.targets[0].value.id == first:
                    ok.add(name); changed = True
                    break
                if isinstance(st, ast.Return):
                    v = st.value
                    if isinstance(v, ast.Call) and isinstance(v.func, ast.Name) and v.func.id in ok and v.args and \
                            isinstance(v.args[0], ast.Name) and v.args[0].id == first:
                        ok.add(name); changed = True
                    break
    return {"synapgrad.nn.init." + n for n in ok}


class EmptyAnalysis:
    """For every call of synapgrad.empty: is the result overwritten on every path?

    Accepted shape (everything else is `initialised = false`):
      * the call is in the body of `C.__init__` (not in a nested function, not under a loop), in a statement
            self.X = [nn.Parameter(] synapgrad.empty(...) [)]          or
            v = synapgrad.empty(...)   followed, as the next statement of the same block that mentions v, by
            self.X = [nn.Parameter(] v [)]
      * an INITIALISING EVENT for X:  `<full init>(self.X, ...)`  (a function of nn/init.py in FULL_INITS) or `self.X.data = ...`,
        located in `__init__` after the allocation or in a method of C reached from `__init__` after the allocation through
        `self.m()` calls (depth <= 3; m defined in C, not overridden by a subclass in the file), with no `return` in between;
      * GUARD-CONTEXT RULE: every guard on the way to the event (the `if` tests enclosing the call site(s) and the event) must be a
        fact established by the allocation's own guard context.  Guards are normalised:
            `P` / `self.P`          -> flag:P      (P a constructor parameter that is never rebound; `self.P` only if `self.P = P`
                                                    is an unconditional top-level statement of __init__ executed before, and the
                                                    only assignment to .P in the class)
            `self.X is not None`    -> notnone:X   (a fact for the allocated attribute X itself; `is None` is its negation)
            `not g`                 -> negation
            anything else           -> opaque, identified with that very `if` statement (so only an enclosing `if` of the
                                       allocation itself matches)
        Facts of the allocation = its own guard elements + notnone:X.  An event under a guard that is not such a fact (r3m1:
        buffers allocated under `if self.track_running_stats`, reset only under `if affine`) does not count.
    """

    def __init__(self, fc):
        self.fc = fc

    def is_empty_call(self, n):
        if not isinstance(n, ast.Call) or not hasattr(n, "_scope"):
            return False
        o = self.fc.origin(n.func)
        if o in EMPTY_ORIGINS:
            return True
        if self.fc.rel == "tensor.py" and isinstance(n.func, ast.Name) and n.func.id in ("empty", "empty_like"):
            r = self.fc.resolve(n.func.id, n._scope)
            return r is not None and r[0].kind == "module" and any(k == "def" for k, _ in r[1])
        return False

    def rows(self):
        fc = self.fc
        calls = [n for n in ast.walk(fc.tree) if self.is_empty_call(n)]
        out = []
        classes = [n for n in ast.walk(fc.tree) if isinstance(n, ast.ClassDef)]
        for call in calls:
            s = call._scope
            while s.kind == "comp":
                s = s.parent
            row = {"file": fc.rel, "line": call.lineno, "func": fc.func_of(call), "attr": "", "initialised": False, "how": ""}
            cls = None
            if s.kind == "function" and s.name == "__init__" and s.parent is not None and s.parent.kind == "class":
                cls = s.parent.node
            if cls is None:
                row["how"] = "not in the body of a constructor"
            else:
                ok, attr, how = self.judge(cls, s.node, call, classes)
                row.update({"attr": attr, "initialised": ok, "how": how})
            out.append(row)
        return out

    # -- guard paths -----------------------------------------------------------------------------------------
    def walk(self, stmts, path, ctx, acc):
        """acc += (stmt, path, block) for every statement; nested defs/classes are not entered"""
        for st in stmts:
            acc.append((st, path, stmts))
            if isinstance(st, ast.If):
                key, pol = self.norm(st.test, ctx, st)
                self.walk(st.body, path + [(key, pol)], ctx, acc)
                self.walk(st.orelse, path + [(key, not pol)], ctx, acc)
            elif isinstance(st, (ast.For, ast.AsyncFor, ast.While)):
                self.walk(st.body, path + [("loop:%d" % id(st), True)], ctx, acc)
                self.walk(st.orelse, path + [("loop:%d" % id(st), False)], ctx, acc)
            elif isinstance(st, (ast.With, ast.AsyncWith)):
                self.walk(st.body, path, ctx, acc)
            elif isinstance(st, ast.Try):
                self.walk(st.body, path + [("try:%d" % id(st), True)], ctx, acc)
                for h in st.handlers:
                    self.walk(h.body, path + [("except:%d" % id(h), True)], ctx, acc)
                self.walk(st.orelse, path + [("try:%d" % id(st), True)], ctx, acc)
                self.walk(st.finalbody, path, ctx, acc)
            elif isinstance(st, ast.Match) if hasattr(ast, "Match") else False:
                acc.append((st, path + [("opaque:%d" % id(st), True)], stmts))

    def norm(self, test, ctx, owner):
        selfname, flags_param, flags_attr, line_ok = ctx
        if isinstance(test, ast.UnaryOp) and isinstance(test.op, ast.Not):
            k, p = self.norm(test.operand, ctx, owner)
            return (k, not p) if not k.startswith("opaque:") else ("opaque:%d" % id(owner), True)
        if isinstance(test, ast.Name) and test.id in flags_param:
            return "flag:" + test.id, True
        if isinstance(test, ast.Attribute) and isinstance(test.value, ast.Name) and test.value.id == selfname and \
                test.attr in flags_attr and line_ok(test.attr, test.lineno):
            return "flag:" + test.attr, True
        if isinstance(test, ast.Compare) and len(test.ops) == 1 and isinstance(test.ops[0], (ast.Is, ast.IsNot)) and \
                isinstance(test.comparators[0], ast.Constant) and test.comparators[0].value is None and \
                isinstance(test.left, ast.Attribute) and isinstance(test.left.value, ast.Name) and test.left.value.id == selfname:
            return "notnone:" + test.left.attr, isinstance(test.ops[0], ast.IsNot)
        return "opaque:%d" % id(owner), True

    @staticmethod
    def self_attr(e, selfname):
        if isinstance(e, ast.Attribute) and isinstance(e.value, ast.Name) and e.value.id == selfname:
            return e.attr
        return None

    def unwrap(self, v):
        """synapgrad.empty(...) possibly wrapped in nn.Parameter( ) -> the inner expression"""
        if isinstance(v, ast.Call) and len(v.args) >= 1 and (self.fc.origin(v.func) or "").endswith(".Parameter"):
            return v.args[0]
        return v

    def judge(self, cls, init, call, classes):
        fc = self.fc
        if not init.args.args:
            return False, "", "constructor without self"
        selfname = init.args.args[0].arg
        params = [a.arg for a in init.args.posonlyargs + init.args.args + init.args.kwonlyargs][1:]
        never_rebound = {p for p in params if [k for k, _ in init._inner.bindings.get(p, [])] == ["param"]}
        # self.P = P at the top level of __init__, the only assignment to .P anywhere in the class
        attr_assigns = {}
        for m in cls.body:
            if isinstance(m, (ast.FunctionDef, ast.AsyncFunctionDef)) and m.args.args:
                sn = m.args.args[0].arg
                for n in ast.walk(m):
                    tg = []
                    if isinstance(n, ast.Assign):
                        tg = n.targets
                    elif isinstance(n, (ast.AugAssign, ast.AnnAssign)):
                        tg = [n.target]
                    for t in tg:
                        for e in (t.elts if isinstance(t, (ast.Tuple, ast.List)) else [t]):
                            a = self.self_attr(e, sn)
                            if a is not None:
                                attr_assigns[a] = attr_assigns.get(a, 0) + 1
                    if isinstance(n, ast.Call) and (fc.origin(n.func) in ("builtin.setattr",) or
                                                    (isinstance(n.func, ast.Attribute) and n.func.attr in ("__setattr__", "__dict__"))):
                        attr_assigns["*"] = 1
        link_line = {}
        for st in init.body:
            if isinstance(st, ast.Assign) and len(st.targets) == 1 and isinstance(st.value, ast.Name) and st.value.id in never_rebound:
                a = self.self_attr(st.targets[0], selfname)
                if a is not None and attr_assigns.get(a) == 1 and "*" not in attr_assigns:
                    link_line[a] = (st.lineno, st.value.id)
        flags_attr = {a for a, (ln, pname) in link_line.items() if a == pname}
        ctx_init = (selfname, never_rebound, flags_attr, lambda a, line: link_line[a][0] < line)
        acc = []
        self.walk(init.body, [], ctx_init, acc)
        by_id = {id(st): (path, block) for st, path, block in acc}
        sa = fc._stmt_of(call)
        if id(sa) not in by_id:
            return False, "", "allocation inside a nested function"
        path_a, block_a = by_id[id(sa)]
        if any(k.startswith(("loop:", "try:", "except:")) for k, _ in path_a):
            return False, "", "allocation under a loop / try"
        # ---- which attribute receives it
        attr, attr_line = None, None
        if isinstance(sa, ast.Assign) and len(sa.targets) == 1 and self.unwrap(sa.value) is call:
            t = sa.targets[0]
            if self.self_attr(t, selfname) is not None:
                attr, attr_line = self.self_attr(t, selfname), sa.lineno
            elif isinstance(t, ast.Name):
                v = t.id
                for st in block_a[block_a.index(sa) + 1:]:
                    if any(isinstance(n, ast.Name) and n.id == v for n in ast.walk(st)):
                        if isinstance(st, ast.Assign) and len(st.targets) == 1 and self.self_attr(st.targets[0], selfname) is not None:
                            u = self.unwrap(st.value)
                            if isinstance(u, ast.Name) and u.id == v:
                                attr, attr_line = self.self_attr(st.targets[0], selfname), st.lineno
                        break
        if attr is None:
            return False, "", "result is not stored directly in an attribute of self"
        facts = set(path_a) | {("notnone:" + attr, True)}
        # ---- initialising events
        returns_init = sorted(n.lineno for st, _, _ in acc for n in [st] if isinstance(n, ast.Return))
        events = []
        self.events(cls, init, selfname, acc, [], None, 0, classes, events, ctx_init, flags_attr, link_line)
        reasons = []
        for (a, path, site_line, text, ret_ok) in events:
            if a != attr or site_line <= attr_line:
                continue
            if not ret_ok or any(attr_line < r < site_line for r in returns_init):
                reasons.append("%s: a return may precede it" % text)
                continue
            missing = [g for g in path if g not in facts]
            if missing:
                reasons.append("%s is guarded by %s which the allocation's context %s does not establish"
                               % (text, self.show(missing), self.show(sorted(facts))))
                continue
            return True, attr, text
        return False, attr, "; ".join(reasons)[:240] or "no nn.init call on self.%s after the allocation" % attr

    @staticmethod
    def show(path):
        return "[" + ", ".join(("" if p else "not ") + (k.split(":")[0] + ":" + k.split(":")[1] if not k.startswith(("opaque", "loop", "try", "except")) else k.split(":")[0])
                               for k, p in path) + "]"

    def events(self, cls, fn, selfname, acc, prefix, site_line, depth, classes, out, ctx, flags_attr, link_line):
        fc = self.fc
        methods = {m.name: m for m in cls.body if isinstance(m, (ast.FunctionDef, ast.AsyncFunctionDef))}
        returns = sorted(st.lineno for st, _, _ in acc if isinstance(st, ast.Return))
        for st, path, _ in acc:
            line = site_line if site_line is not None else st.lineno
            ret_ok = not any(r < st.lineno for r in returns) if site_line is not None else True
            full = prefix + path
            if any(k.startswith(("loop:", "except:")) for k, _ in path):
                continue
            if isinstance(st, ast.Assign) and len(st.targets) == 1 and isinstance(st.targets[0], ast.Attribute) and st.targets[0].attr == "data":
                a = self.self_attr(st.targets[0].value, selfname)
                if a is not None:
                    out.append((a, full, line, "self.%s.data = ... (line %d)" % (a, st.lineno), ret_ok))
            c = st.value if isinstance(st, ast.Expr) else (st.value if isinstance(st, ast.Return) else None)
            if not isinstance(c, ast.Call):
                continue
            o = fc.origin(c.func)
            if o in FULL_INITS and c.args:
                a = self.self_attr(c.args[0], selfname)
                if a is not None:
                    out.append((a, full, line, "%s(self.%s) in %s.%s (line %d)" % (U(c.func), a, cls.name, fn.name, st.lineno), ret_ok))
            m = self.self_attr(c.func, selfname)
            if m is not None and m in methods and depth < 3:
                overridden = any(m in {x.name for x in k.body if isinstance(x, (ast.FunctionDef, ast.AsyncFunctionDef))}
                                 for k in classes if k is not cls and self.subclass_of(k, cls, classes))
                callee = methods[m]
                if overridden or not callee.args.args or callee.decorator_list:
                    continue
                sn = callee.args.args[0].arg
                cctx = (sn, set(), flags_attr, lambda a, ln: True)
                if site_line is None and any(link_line[a][0] >= st.lineno for a in flags_attr):
                    cctx = (sn, set(), {a for a in flags_attr if link_line[a][0] < st.lineno}, lambda a, ln: True)
                cacc = []
                self.walk(callee.body, [], cctx, cacc)
                sub = []
                self.events(cls, callee, sn, cacc, full, line, depth + 1, classes, sub, cctx, cctx[2], link_line)
                out.extend((a, p, l, t, r and ret_ok) for a, p, l, t, r in sub)

    def subclass_of(self, k, cls, classes, depth=0):
        if depth > 6:
            return False
        for b in k.bases:
            if isinstance(b, ast.Name):
                if b.id == cls.name:
                    return True
                for k2 in classes:
                    if k2.name == b.id and k2 is not k and self.subclass_of(k2, cls, classes, depth + 1):
                        return True
        return False



def watched_root(o):
    """split a dotted origin into (watched root, remaining attribute path) or None"""
    parts = o.split(".")
    if parts[:2] == ["numpy", "random"]:
        return "numpy.random", parts[2:]
    if parts[0] == "random":
        return "random", parts[1:]
    if parts[0] == "os" and len(parts) >= 2 and parts[1] in OS_ENTROPY:
        return "os", parts[1:]
    if parts[0] in ("secrets", "uuid", "time", "datetime"):
        return parts[0], parts[1:]
    return None


# ---------------------------------------------------------------------------------------------- manual_seed
def seed_body(fc):
    """statements of utils.manual_seed (docstring skipped)"""
    fn = None
    for st in fc.tree.body:
        if isinstance(st, ast.FunctionDef) and st.name == "manual_seed":
            if fn is not None:
                raise Unclassifiable("utils.py: manual_seed defined twice")
            fn = st
    if fn is None:
        raise Unclassifiable("utils.py: manual_seed not found")
    a = fn.args
    params = [x.arg for x in a.posonlyargs + a.args + a.kwonlyargs]
    if len(params) != 1 or a.vararg or a.kwarg:
        raise Unclassifiable("utils.py:%d manual_seed does not take exactly one parameter" % fn.lineno)
    param = params[0]
    out = []
    body = list(fn.body)
    if body and isinstance(body[0], ast.Expr) and isinstance(body[0].value, ast.Constant) and isinstance(body[0].value.value, str):
        body = body[1:]
    for st in body:
        row = {"file": fc.rel, "line": st.lineno, "func": "manual_seed", "callee": "SeedOtherStmt", "arg": "ArgOther", "text": U(st)}
        if isinstance(st, ast.Expr) and isinstance(st.value, ast.Call):
            c = st.value
            o = fc.origin(c.func)
            row["callee"] = {"numpy.random.seed": "SeedNumpy", "random.seed": "SeedPython"}.get(o, "SeedOtherCall")
            if len(c.args) == 1 and not c.keywords and isinstance(c.args[0], ast.Name) and c.args[0].id == param:
                r = fc.resolve(param, c.args[0]._scope)
                if r is not None and [k for k, _ in r[1]] == ['param']:       # the parameter itself, never rebound
                    row["arg"] = "ArgParam"
        out.append(row)
    return out


# ---------------------------------------------------------------------------------------------- driver
def package_files():
    root = os.path.join(common.REPO, "synapgrad")
    if not os.path.isdir(root):
        raise Unclassifiable("package directory %s not found" % root)
    res = []
    for d, dirs, fs in os.walk(root):
        dirs[:] = sorted(x for x in dirs if x != "__pycache__")
        for f in sorted(fs):
            if f.endswith(".py"):
                res.append(os.path.relpath(os.path.join(d, f), root))
    return root, sorted(res)


def extract_all():
    root, files = package_files()
    census = {k: [] for k in ("draws", "set_news", "set_uses", "dicts", "hash_defs", "order_defs", "sorts", "uninits", "empty_uses", "visual_imports")}
    census["files"] = files
    census["seed_body"] = None
    census["seed_exported"] = False
    FULL_INITS.clear()
    ip = os.path.join(root, "nn", "init.py")
    if os.path.exists(ip):
        try:
            FULL_INITS.update(full_inits(ast.parse(open(ip, encoding="utf8").read())))
        except SyntaxError as ex:
            raise Unclassifiable("nn/init.py: syntax error: %s" % ex)
    census["full_inits"] = sorted(FULL_INITS)
    for rel in files:
        src = open(os.path.join(root, rel), encoding="utf8").read()
        pk = ["synapgrad"] + rel.split(os.sep)[:-1]
        fc = FileCensus(rel.replace(os.sep, "/"), ".".join(pk), src)
        rows = fc.run()
        for k, v in rows.items():
            census[k].extend(v)
        if rel == "utils.py":
            census["seed_body"] = seed_body(fc)
        if rel == "__init__.py":
            for st in fc.tree.body:
                if isinstance(st, ast.ImportFrom) and st.module == "synapgrad.utils" and st.level == 0 and \
                        any(al.name == "manual_seed" and al.asname in (None, "manual_seed") for al in st.names):
                    census["seed_exported"] = True
    if census["seed_body"] is None:
        raise Unclassifiable("synapgrad/utils.py not found")
    for k in ("draws", "set_news", "set_uses", "dicts", "hash_defs", "order_defs", "sorts", "uninits", "empty_uses", "visual_imports"):
        for r in census[k]:
            if not (0 < r["line"] < 5000):
                raise Unclassifiable("%s:%d line number out of the supported range" % (r["file"], r["line"]))
    return census


def cs(s):
    s = "".join(ch if 32 <= ord(ch) < 127 else "?" for ch in str(s))
    return '"%s"' % s.replace('"', "'")


def cbool(b):
    return "true" if b else "false"


def clist(xs, indent="  "):
    if not xs:
        return "[]"
    return "[\n" + ";\n".join(indent + x for x in xs) + "\n]"


def emit(c):
    out = ["(* GENERATED by lib/py2coq/gen_census.py from every .py file under synapgrad/. DO NOT EDIT. *)",
           "From Coq Require Import List String Bool.", "Import ListNotations.", "Open Scope string_scope.",
           "From SG Require Import IR.Census.", ""]
    out.append("Definition files : list string := %s.\n" % clist([cs(f) for f in c["files"]]))
    out.append("Definition draws : list draw := %s.\n" % clist(
        ["mkDraw %s %d %s %s %s %s %s %s %s %s %s" % (cs(r["file"]), r["line"], cs(r["func"]), cs(r["callee"]), cs(r["fn"]), r["class"],
                                                        r["use"], cs(r["set"]), cs(r["owner"]), cbool(r["live"]), cbool(r["called"])) for r in c["draws"]]))
    out.append("Definition set_news : list set_new := %s.\n" % clist(
        ["mkSetNew %s %d %s %s %s" % (cs(r["file"]), r["line"], cs(r["func"]), cs(r["var"]), r["ctor"]) for r in c["set_news"]]))
    out.append("Definition set_uses : list set_use := %s.\n" % clist(
        ["mkSetUse %s %d %s %s %s %s %s" % (cs(r["file"]), r["line"], cs(r["func"]), cs(r["var"]), cs(r["owner"]), r["kind"], cs(r["text"]))
         for r in c["set_uses"]]))
    out.append("Definition dicts : list dict_new := %s.\n" % clist(
        ["mkDictNew %s %d %s %s %s" % (cs(r["file"]), r["line"], cs(r["func"]), r["ctor"], r["keys"]) for r in c["dicts"]]))
    out.append("Definition hash_defs : list hash_def := %s.\n" % clist(
        ["mkHashDef %s %d %s %s" % (cs(r["file"]), r["line"], cs(r["func"]), cs(r["method"])) for r in c["hash_defs"]]))
    out.append("Definition sorts : list sort_call := %s.\n" % clist(
        ["mkSort %s %d %s %s %s %s %s" % (cs(r["file"]), r["line"], cs(r["func"]), cs(r["callee"]), cbool(r["has_key"]), r["elems"], cs(r["what"])) for r in c["sorts"]]))
    out.append("Definition order_defs : list hash_def := %s.\n" % clist(
        ["mkHashDef %s %d %s %s" % (cs(r["file"]), r["line"], cs(r["func"]), cs(r["method"])) for r in c["order_defs"]]))
    out.append("Definition uninits : list site := %s.\n" % clist(
        ["mkSite %s %d %s %s" % (cs(r["file"]), r["line"], cs(r["func"]), cs(r["callee"])) for r in c["uninits"]]))
    out.append("Definition empty_uses : list empty_use := %s.\n" % clist(
        ["mkEmptyUse %s %d %s %s %s %s" % (cs(r["file"]), r["line"], cs(r["func"]), cs(r["attr"]), cbool(r["initialised"]), cs(r["how"])) for r in c["empty_uses"]]))
    out.append("Definition visual_imports : list site := %s.\n" % clist(
        ["mkSite %s %d %s %s" % (cs(r["file"]), r["line"], cs(r["func"]), cs(r["name"])) for r in c["visual_imports"]]))
    out.append("Definition seed_body : list seed_stmt := %s.\n" % clist(
        ["mkSeedStmt %s %s %d %s" % (r["callee"], r["arg"], r["line"], cs(r["text"])) for r in c["seed_body"]]))
    out.append("Definition seed_exported : bool := %s.\n" % cbool(c["seed_exported"]))
    return "\n".join(out)


@register("census")
def generate():
    gen = os.path.join(common.COQ, "Gen", "GenCensus.v")
    try:
        c = extract_all()
    except Exception as ex:
        # never leave a stale census behind: an empty one (no exported manual_seed, no rows) makes the obligations of
        # Props/C19.v fail (manual_seed_seeds_both, the non-vacuity examples) until the source can be classified again
        empty = {k: [] for k in ("files", "draws", "set_news", "set_uses", "dicts", "hash_defs", "order_defs", "sorts", "uninits", "empty_uses", "visual_imports", "seed_body")}
        empty["seed_exported"] = False
        common.write_if_changed(gen, "(* TRANSLATOR FAILED (fail-closed): %s *)\n" % str(ex).replace("*)", "* )").replace("(*", "( *") + emit(empty))
        try:
            os.remove(os.path.join(common.ROOT, "work", "census.json"))
        except FileNotFoundError:
            pass
        raise
    common.write_if_changed(gen, emit(c))
    os.makedirs(os.path.join(common.ROOT, "work"), exist_ok=True)
    json.dump(c, open(os.path.join(common.ROOT, "work", "census.json"), "w"), indent=1)
    return c
