"""Shared machinery of the engine checks C03 / C04 / C17 (work package A2).

* a small JSON-able program language (leaves, ops, backward, resets, retain) and a seeded generator,
* an executor that runs a program on the real engine while recording, from outside,
    - every tensor creation (hook on Tensor.__init__: the arguments the op wrappers pass),
    - every closure invocation (hook on BackwardFunction.__call__),
    - every tensor's `_grad` after every event,
* the recorded arena (introspection of `_children`, `requires_grad`, `grad_fn`, `_retain_grad`) and the local
  derivatives (exact Jacobians of the op semantics, evaluated with dual numbers over Fractions),
* printers of all that as Coq terms for Engine/History.v at the instance Z2Alg (tensors with <= 2 elements),
* an oracle that does not use the Coq model: forward-mode AD over Fractions on the recorded program.
"""
import json
from fractions import Fraction

from lib import impl
from lib.common import cb, clist

np = impl.np
sg = impl.synapgrad
TM = impl.tensor_mod
Tensor = sg.Tensor


# ----------------------------------------------------------------------------------------------
# exact numbers with tangents
class Dual:
    __slots__ = ("v", "t")

    def __init__(self, v, t=None):
        self.v = Fraction(v)
        self.t = t if t is not None else {}

    @staticmethod
    def lift(x):
        return x if isinstance(x, Dual) else Dual(x)

    def __add__(self, o):
        o = Dual.lift(o)
        t = dict(self.t)
        for k, x in o.t.items():
            t[k] = t.get(k, 0) + x
        return Dual(self.v + o.v, t)
    __radd__ = __add__

    def __neg__(self):
        return Dual(-self.v, {k: -x for k, x in self.t.items()})

    def __sub__(self, o):
        return self + (-Dual.lift(o))

    def __rsub__(self, o):
        return Dual.lift(o) + (-self)

    def __mul__(self, o):
        o = Dual.lift(o)
        t = {k: x * o.v for k, x in self.t.items()}
        for k, x in o.t.items():
            t[k] = t.get(k, 0) + x * self.v
        return Dual(self.v * o.v, t)
    __rmul__ = __mul__

    def __pow__(self, n):
        n = int(n)
        assert n >= 0
        r = Dual(1)
        for _ in range(n):
            r = r * self
        return r

    def __repr__(self):
        return "D(%s,%s)" % (self.v, self.t)


def obj_array(vals, shape):
    a = np.empty(len(vals), dtype=object)
    for i, x in enumerate(vals):
        a[i] = x
    return a.reshape(tuple(shape))


def as_obj(x):
    if isinstance(x, np.ndarray) and x.dtype == object:
        return x
    a = np.empty((), dtype=object)
    a[()] = x
    return a


def to_frac(x):
    f = float(x)
    assert f == int(f), "non-integer value %r" % (x,)
    return Fraction(int(f))


# op semantics (NumPy on exact number objects), keyed by Tensor._operation
def _norm_key(key):
    if isinstance(key, list):
        return tuple(_norm_key(k) for k in key)
    return key


SPEC = {
    "Add": lambda c, p: c[0] + c[1],
    "Mul": lambda c, p: c[0] * c[1],
    "Matmul": lambda c, p: np.matmul(c[0], c[1]),
    "Addmm": lambda c, p: c[0] + np.matmul(c[1], c[2]),
    "Pow": lambda c, p: c[0] ** p["n"],
    "Neg": lambda c, p: -c[0],
    "Clone": lambda c, p: c[0].copy(),
    "Sum": lambda c, p: as_obj(np.sum(c[0], axis=p.get("dim"), keepdims=p.get("keepdims", False))),
    "Stack": lambda c, p: np.stack(list(c), axis=p.get("dim", 0)),
    "Concat": lambda c, p: np.concatenate(list(c), axis=p.get("dim", 0)),
    "Unbind": lambda c, p: as_obj(np.moveaxis(c[0], p.get("dim", 0), 0)[p["index"]]),
    "Slice": lambda c, p: as_obj(c[0][_norm_key(p["key"])]),
    "Reshape": lambda c, p: c[0].reshape(tuple(p["shape"])),
    "Squeeze": lambda c, p: np.squeeze(c[0], axis=p.get("dim")),
    "Unsqueeze": lambda c, p: np.expand_dims(c[0], p["dim"]),
    "Transpose": lambda c, p: np.swapaxes(c[0], p["d0"], p["d1"]),
    "Flatten": lambda c, p: c[0].reshape(-1),
}
NEEDS_PARAMS = {"Pow", "Unbind", "Slice", "Reshape", "Unsqueeze", "Transpose"}


def spec_apply(op, children, params):
    if op not in SPEC:
        raise KeyError("no semantics for operation %r" % op)
    if op in NEEDS_PARAMS and not params:
        raise KeyError("operation %r recorded without its parameters" % op)
    return as_obj(SPEC[op](children, params or {}))


def jacobians(op, child_datas, params, out_data):
    """For every child slot the 2x2 matrix M with M[i][j] = d out_j / d in_i (flat indices, zero padded)."""
    res = []
    consts = [obj_array([to_frac(x) for x in d.reshape(-1)], d.shape) for d in child_datas]
    for k, d in enumerate(child_datas):
        n = d.size
        if n > 2:
            raise ValueError("operand with more than two elements")
        var = obj_array([Dual(to_frac(x), {i: Fraction(1)}) for i, x in enumerate(d.reshape(-1))], d.shape)
        args = list(consts)
        args[k] = var
        out = spec_apply(op, args, params).reshape(-1)
        if out.size > 2:
            raise ValueError("result with more than two elements")
        if out.size != out_data.size or any(Dual.lift(o).v != to_frac(y) for o, y in zip(out, out_data.reshape(-1))):
            raise ValueError("forward value of %s differs from the op semantics: %s vs %s" % (op, out, out_data))
        M = [[0, 0], [0, 0]]
        for j, o in enumerate(out):
            o = Dual.lift(o)
            for i in range(n):
                x = o.t.get(i, Fraction(0))
                assert x.denominator == 1
                M[i][j] = int(x)
        res.append(M)
    return res


# ----------------------------------------------------------------------------------------------
# hooks (installed once per process, from outside the package)
class Recorder:
    current = None

    def __init__(self):
        self.nodes = []          # dicts: t, children_arg, requested, gm
        self.index = {}          # id(tensor) -> arena index
        self.params = {}         # arena index -> op parameters (for parametrised ops called by the program)
        self.calls = []          # arena indices of closure invocations (current backward)
        self.fn_owner = {}       # id(BackwardFunction) -> arena index
        self.active = False
        self.stray = 0           # tensors created while not recording

    def on_create(self, t, children, requested):
        if not self.active:
            self.stray += 1
            return
        i = len(self.nodes)
        self.nodes.append({"t": t, "children_arg": tuple(children), "requested": bool(requested), "gm": bool(TM.gradient__)})
        self.index[id(t)] = i

    def on_call(self, bf):
        self.calls.append(self.fn_owner.get(id(bf), -1))

    def refresh_owners(self):
        for i, nd in enumerate(self.nodes):
            f = nd["t"]._grad_fn
            if f is not None:
                self.fn_owner[id(f)] = i

    def idx(self, t):
        return self.index[id(t)]


def install_hooks():
    if getattr(Tensor.__init__, "_a2_hook", False):
        return
    orig_init = Tensor.__init__

    def init(self, data, *a, **k):
        orig_init(self, data, *a, **k)
        R = Recorder.current
        if R is not None and not isinstance(data, Tensor):
            children = a[0] if len(a) > 0 else k.get("children", ())
            requested = a[2] if len(a) > 2 else k.get("requires_grad", False)
            R.on_create(self, children, requested)
    init._a2_hook = True
    Tensor.__init__ = init
    BF = impl.TF.BackwardFunction
    orig_call = BF.__call__

    def call(self):
        R = Recorder.current
        if R is not None:
            R.on_call(self)
        return orig_call(self)
    BF.__call__ = call


# ----------------------------------------------------------------------------------------------
# real ops of the program language: name -> (callable on real tensors, parameter annotation for the outputs)
def _real_ops():
    return {
        "add": lambda a, p: [a[0] + a[1]],
        "mul": lambda a, p: [a[0] * a[1]],
        "sub": lambda a, p: [a[0] - a[1]],
        "neg": lambda a, p: [-a[0]],
        "negf": lambda a, p: [sg.neg(a[0])],
        "pow": lambda a, p: [a[0] ** p["n"]],
        "sum": lambda a, p: [a[0].sum()],
        "clone": lambda a, p: [a[0].clone()],
        "stack": lambda a, p: [sg.stack(list(a), 0)],
        "unbind": lambda a, p: list(sg.unbind(a[0], 0)),
        "index": lambda a, p: [a[0][p["i"]]],
        "mm": lambda a, p: [sg.matmul(a[0].reshape((1, 2)), a[1].reshape((2, 1)))],
        "mm11": lambda a, p: [sg.matmul(a[0].reshape((1, 1)), a[1].reshape((1, 1)))],
        "addc": lambda a, p: [a[0] + float(p["c"])],
        "mulc": lambda a, p: [a[0] * float(p["c"])],
        "rsubc": lambda a, p: [float(p["c"]) - a[0]],
        "flat": lambda a, p: [a[0].unsqueeze(0).transpose(0, 1).flatten()],
        "sq": lambda a, p: [a[0].squeeze()],
    }


def annotate(R, op, p, outs, before):
    """Attach the parameters of parametrised operations to the arena nodes created by this step."""
    new = range(before, len(R.nodes))
    for i in new:
        t = R.nodes[i]["t"]
        o = t._operation
        if o == "Pow":
            R.params[i] = {"n": p["n"]}
        elif o == "Unbind":
            R.params[i] = {"dim": 0, "index": [id(x) for x in outs].index(id(t))}
        elif o == "Slice":
            R.params[i] = {"key": p["i"]}
        elif o == "Stack":
            R.params[i] = {"dim": 0}
        elif o == "Reshape":
            R.params[i] = {"shape": list(t.data.shape)}
        elif o == "Unsqueeze":
            R.params[i] = {"dim": 0}
        elif o == "Transpose":
            R.params[i] = {"d0": 0, "d1": 1}
        elif o == "Sum":
            R.params[i] = {"dim": None}
        elif o == "Squeeze":
            R.params[i] = {"dim": None}


# ----------------------------------------------------------------------------------------------
class _StopProgram(Exception):
    pass


class Execution:
    """Result of running a program: model events, observations, and everything the oracle needs."""

    def __init__(self):
        self.R = None
        self.events = []         # model events: ("Build", i) | ("Backward", root, seedvec) | ("ZeroTensor", v) | ...
        self.obs = []            # per model event: None (not observed) | {"bufs": [...], "log": [...]} | "raised"
        self.pool = {}           # program id -> real tensor
        self.mods = {}           # program module id -> real nn.Module
        self.opts = {}           # program optimizer id -> (real optimizer, arena indices of its parameters at construction)
        self.error = None
        self.raised_at = None
        self.unexpected = None   # a step of the program raised where nothing may raise: {"step": ..., "error": ...}


def vec2(arr):
    """flat <=2-element float array -> (int,int), exact"""
    f = [to_frac(x) for x in np.asarray(arr).reshape(-1)]
    assert len(f) <= 2
    f = f + [Fraction(0)] * (2 - len(f))
    return (int(f[0]), int(f[1]))


def snapshot(R):
    out = []
    for nd in R.nodes:
        g = nd["t"]._grad
        out.append(None if g is None else vec2(g))
    return out


def execute(steps):
    """Run a program on the real engine.  Never raises for engine errors: they end the trace ('raised')."""
    install_hooks()
    impl.reset_modes()
    E = Execution()
    R = Recorder()
    E.R = R
    Recorder.current = R
    ops = _real_ops()
    built = 0

    def flush_builds():
        nonlocal built
        while built < len(R.nodes):
            E.events.append(("Build", built))
            E.obs.append(None)
            built += 1

    try:
        for st in steps:
          try:
              k = st["k"]
              if k == "leaf":
                  R.active = True
                  data = np.array(st["data"], dtype=np.float64).reshape(tuple(st["shape"]))
                  ctx = sg.no_grad() if st.get("nograd") else None
                  if ctx:
                      ctx.__enter__()
                  try:
                      if st.get("param"):
                          t = impl.nn.Parameter(data, requires_grad=st["req"])
                      else:
                          t = sg.Tensor(data, requires_grad=st["req"])
                  finally:
                      if ctx:
                          ctx.__exit__(None, None, None)
                      R.active = False
                  E.pool[st["id"]] = t
                  flush_builds()
              elif k == "op":
                  args = [E.pool[i] for i in st["args"]]
                  before = len(R.nodes)
                  R.active = True
                  ctx = sg.no_grad() if st.get("nograd") else None
                  if ctx:
                      ctx.__enter__()
                  try:
                      outs = ops[st["op"]](args, st.get("p", {}))
                  finally:
                      if ctx:
                          ctx.__exit__(None, None, None)
                      R.active = False
                  annotate(R, st["op"], st.get("p", {}), outs, before)
                  for i, o in zip(st["out"], outs):
                      E.pool[i] = o
                  flush_builds()
              elif k == "backward":
                  root = E.pool[st["root"]]
                  R.refresh_owners()
                  R.calls = []
                  seed = np.array(st["seed"], dtype=np.float64).reshape(root.data.shape)
                  if st.get("retain_ctx"):
                      E.events.append(("SetRetainMode", True)); E.obs.append(None)
                  E.events.append(("Backward", R.idx(root), vec2(seed)))
                  try:
                      if st.get("retain_ctx"):
                          with sg.retain_grads():
                              root.backward(sg.Tensor(seed))
                      elif st.get("default_seed"):
                          root.backward()
                      else:
                          root.backward(sg.Tensor(seed))
                  except Exception as ex:       # the model says when backward raises (root does not require grad)
                      E.obs.append("raised"); E.raised_at = len(E.events) - 1; E.error = repr(ex)
                      break
                  E.obs.append({"bufs": snapshot(R), "log": list(R.calls)})
                  if st.get("retain_ctx"):
                      E.events.append(("SetRetainMode", False)); E.obs.append(None)
              elif k == "backward_fail":
                  # a call that must fail and is caught by the caller: gradient of the wrong shape (rejected after the graph walk),
                  # or - when the root does not require grad - refused at once
                  root = E.pool[st["root"]]
                  R.refresh_owners()
                  R.calls = []
                  bad = np.ones(tuple(root.data.shape) + (2,), dtype=np.float64)
                  raised = False
                  try:
                      root.backward(sg.Tensor(bad))
                  except (RuntimeError, ValueError, AssertionError):
                      raised = True
                  if not raised:
                      raise RuntimeError("backward accepted a gradient of shape %s for a tensor of shape %s" % (bad.shape, root.data.shape))
                  E.events.append(("BackwardFails", R.idx(root))); E.obs.append({"bufs": snapshot(R), "log": list(R.calls)})
              elif k == "zero_t":
                  t = E.pool[st["t"]]
                  t.zero_()
                  E.events.append(("ZeroTensor", R.idx(t))); E.obs.append({"bufs": snapshot(R), "log": []})
              elif k == "zero_mod":
                  m = impl.nn.Module()
                  for j, i in enumerate(st["ps"]):
                      m.register_parameter("p%d" % j, E.pool[i])
                  m.zero_grad()
                  E.events.append(("ZeroModule", [R.idx(E.pool[i]) for i in st["ps"]])); E.obs.append({"bufs": snapshot(R), "log": []})
              elif k == "zero_opt":
                  o = impl.optim.SGD([E.pool[i] for i in st["ps"]], lr=0.5)
                  o.zero_grad()
                  E.events.append(("ZeroOptim", [R.idx(E.pool[i]) for i in st["ps"]])); E.obs.append({"bufs": snapshot(R), "log": []})
              elif k == "mod_new":
                  E.mods[st["m"]] = impl.nn.Module()
              elif k == "mod_set":          # parent.<name> = child module   (Module.__setattr__ registers it)
                  setattr(E.mods[st["m"]], st["name"], E.mods[st["child"]])
              elif k == "mod_setp":         # module.<name> = Parameter
                  setattr(E.mods[st["m"]], st["name"], E.pool[st["t"]])
              elif k == "mod_unset":        # module.<name> = None drops the registration
                  setattr(E.mods[st["m"]], st["name"], None)
              elif k == "mod_inspect":      # the tree is looked at (summary, len(parameters()), ...)
                  m = E.mods[st["m"]]
                  if st.get("how") == "num_params":
                      m.num_params()
                  else:
                      m.parameters()
              elif k == "zero_tree":        # module.zero_grad() on a real module tree
                  m = E.mods[st["m"]]
                  want = [R.idx(p) for p in reachable_parameters(m)]     # at the time of the call, not through parameters()
                  m.zero_grad()
                  E.events.append(("ZeroModule", want)); E.obs.append({"bufs": snapshot(R), "log": []})
              elif k == "opt_new":          # optimizer built from module.parameters() now
                  m = E.mods[st["m"]]
                  want = [R.idx(p) for p in reachable_parameters(m)]
                  E.opts[st["o"]] = (impl.optim.SGD(m.parameters(), lr=0.5), want)
              elif k == "zero_optim":
                  o, want = E.opts[st["o"]]
                  o.zero_grad()
                  E.events.append(("ZeroOptim", want)); E.obs.append({"bufs": snapshot(R), "log": []})
              elif k == "retain":
                  t = E.pool[st["t"]]
                  E.events.append(("RetainGrad", R.idx(t)))
                  try:
                      t.retain_grad()
                  except RuntimeError as ex:
                      E.obs.append("raised"); E.raised_at = len(E.events) - 1; E.error = repr(ex)
                      break
                  E.obs.append({"bufs": snapshot(R), "log": []})
              else:
                  raise ValueError(k)
          except _StopProgram:
            break
          except Exception as ex:      # nothing else in a program may raise: an engine / module / optimizer call failed
            E.unexpected = {"step": {k2: v for k2, v in st.items() if k2 != "data"}, "error": "%s: %s" % (type(ex).__name__, str(ex)[:200])}
            R.active = False
            break
    finally:
        Recorder.current = None
        impl.reset_modes()
    return E


def reachable_parameters(m):
    """Specification of "the parameters of module m": everything registered in m or in a module reachable from m through
    registered submodules, read directly from the registries at the time of the call (never through Module.parameters())."""
    out, seen_p, seen_m, todo = [], set(), set(), [m]
    while todo:
        x = todo.pop(0)
        if id(x) in seen_m:
            continue
        seen_m.add(id(x))
        for p in x._parameters.values():
            if id(p) not in seen_p:
                seen_p.add(id(p)); out.append(p)
        todo.extend(x._submodules.values())
    return out


# ----------------------------------------------------------------------------------------------
# the recorded arena
def arena_of(R):
    """[(children, req, has_fn, retain)] by introspection of the real tensors (current flags)."""
    out = []
    for nd in R.nodes:
        t = nd["t"]
        out.append(([R.index.get(id(c), 4999) for c in t._children], bool(t.requires_grad), t.grad_fn is not None, bool(t._retain_grad)))
    return out


def creation_specs(R):
    """What was passed to Tensor.__init__: (gm, requested, children_arg indices)."""
    return [(nd["gm"], nd["requested"], [R.index.get(id(c), 4999) for c in nd["children_arg"]]) for nd in R.nodes]


def weights_of(R, problems=None):
    """Per node, per child slot, the 2x2 integer matrix of the local derivative (from the op semantics).
    A node whose recorded operands do not reproduce its value under the op semantics (or that records a tensor the harness never
    saw) violates the wrapper contract `children = inputs`: that is reported in `problems`, not raised."""
    out = []
    for i, nd in enumerate(R.nodes):
        t = nd["t"]
        if not t._children:
            out.append([])
            continue
        try:
            out.append(jacobians(t._operation, [c.data for c in t._children], R.params.get(i), t.data))
        except Exception as ex:
            if problems is None:
                raise
            problems.append({"node": i, "operation": t._operation, "recorded_operands": len(t._children),
                             "operands_passed_to_the_op": None, "problem": "%s: %s" % (type(ex).__name__, str(ex)[:160])})
            out.append([[[0, 0], [0, 0]] for _ in t._children])
    return out


def abs_flow_bound(arena, W, root, seed, bufs):
    """Upper bound on the magnitude of anything a buffer can hold during root.backward(seed)."""
    n = len(arena)
    flow = [0] * n
    for v in range(n):
        if bufs[v] is not None:
            flow[v] = max(abs(bufs[v][0]), abs(bufs[v][1]))
    flow[root] += max(abs(seed[0]), abs(seed[1]))
    for v in range(n - 1, -1, -1):
        for k, c in enumerate(arena[v][0]):
            M = W[v][k]
            flow[c] += 2 * max(abs(x) for row in M for x in row) * flow[v]
    return max(flow) if flow else 0


# ----------------------------------------------------------------------------------------------
# Coq printers (instance Z2Alg)
def cz(n):
    n = int(n)
    return "(%d)" % n if n < 0 else "%d" % n


def cv2(v):
    return "(%s,%s)" % (cz(v[0]), cz(v[1]))


def cm2(M):
    return "((%s,%s),(%s,%s))" % (cz(M[0][0]), cz(M[0][1]), cz(M[1][0]), cz(M[1][1]))


def cnat(n):
    return "%d%%nat" % n


def cnatlist(xs):
    return "[" + "; ".join(cnat(x) for x in xs) + "]"


def cnode(nd):
    ch, req, fn, ret = nd
    return "N %s %s %s %s" % (cnatlist(ch), cb(req), cb(fn), cb(ret))


def copt_v2(x):
    return "None" if x is None else "Some %s" % cv2(x)


COQ_HEADER = """From Coq Require Import List Bool Arith ZArith.
Import ListNotations.
From SG Require Import Base.Cmp Engine.Graph Engine.Dfs Engine.Sweep Engine.History.
Open Scope Z_scope.
Definition N := mkNode.
Definition V2 := (Z * Z)%type.
Definition M2 := ((Z * Z) * (Z * Z))%type.
Definition v2eqb (a b : V2) : bool := Z.eqb (fst a) (fst b) && Z.eqb (snd a) (snd b).
Definition m0 : M2 := ((0,0),(0,0)).
Definition wl (l : list M2) : nat -> M2 := fun k => nth k l m0.
Definition wt (t : list (list M2)) : nat -> nat -> M2 := fun n k => nth k (nth n t []) m0.
Definition bt (l : list (option V2)) : nat -> option V2 := fun n => nth n l None.
Definition Ev := event Z2Alg.
Definition Bd (nd : node) (l : list M2) : Ev := @Build Z2Alg nd (wl l).
Definition Bw (r : nat) (s : V2) : Ev := @Backward Z2Alg r s.
Definition Bf (r : nat) : Ev := @BackwardFails Z2Alg r.
Definition Zt (v : nat) : Ev := @ZeroTensor Z2Alg v.
Definition Zm (l : list nat) : Ev := @ZeroModule Z2Alg l.
Definition Zo (l : list nat) : Ev := @ZeroOptim Z2Alg l.
Definition Rg (v : nat) : Ev := @RetainGrad Z2Alg v.
Definition Sm (m : bool) : Ev := @SetRetainMode Z2Alg m.
Definition obs_t := option (list (option V2) * list nat).
Definition obs_eqb : obs_t -> obs_t -> bool :=
  option_eqb (pair_eqb (list_eqb (option_eqb v2eqb)) (list_eqb Nat.eqb)).
(* expected traces: None = this event is not observed *)
Fixpoint agrees (t : list obs_t) (e : list (option obs_t)) : bool :=
  match t, e with
  | [], [] => true
  | x :: t', None :: e' => agrees t' e'
  | x :: t', Some y :: e' => obs_eqb x y && agrees t' e'
  | _, _ => false
  end.
Definition run_hist (h : list Ev) : list obs_t := trace Z2Alg (empty Z2Alg m0) h.
(* wrapper contract: what Tensor.__init__ was given (gradient mode, requested flag, operands) vs the node found *)
Definition same_node (a b : node) : bool :=
  list_eqb Nat.eqb (children a) (children b) && Bool.eqb (req a) (req b) && Bool.eqb (has_fn a) (has_fn b).
Fixpoint contract_from (i : nat) (pre rest : arena) (specs : list (bool * bool * list nat)) : list nat :=
  match rest, specs with
  | nd :: rest', (gm, rq, cs) :: specs' =>
      let want := match cs with [] => leaf_node gm rq | _ => op_node pre gm cs end in
      (if same_node nd want && forallb (fun c => c <? i)%nat (children nd) then [] else [i])
      ++ contract_from (S i) (pre ++ [nd]) rest' specs'
  | [], [] => []
  | _, _ => [i]
  end.
Definition contract (g : arena) (specs : list (bool * bool * list nat)) : list nat := contract_from 0%nat [] g specs.
"""


def cevent(ev, arena_at_build, W):
    k = ev[0]
    if k == "Build":
        i = ev[1]
        return "Bd (%s) %s" % (cnode(arena_at_build[i]), clist([cm2(M) for M in W[i]]))
    if k == "Backward":
        return "Bw %s %s" % (cnat(ev[1]), cv2(ev[2]))
    if k == "BackwardFails":
        return "Bf %s" % cnat(ev[1])
    if k == "ZeroTensor":
        return "Zt %s" % cnat(ev[1])
    if k == "ZeroModule":
        return "Zm %s" % cnatlist(ev[1])
    if k == "ZeroOptim":
        return "Zo %s" % cnatlist(ev[1])
    if k == "RetainGrad":
        return "Rg %s" % cnat(ev[1])
    if k == "SetRetainMode":
        return "Sm %s" % cb(ev[1])
    raise ValueError(k)


def cobs(o):
    if o is None:
        return "None"
    if o == "raised":
        return "Some None"
    return "Some (Some (%s, %s))" % (clist([copt_v2(x) for x in o["bufs"]]), cnatlist(o["log"]))


def history_case(E):
    """(coq events, coq expected trace, coq arena, coq specs) for one execution."""
    R = E.R
    arena = arena_of(R)
    # the node as it was when built: retain flags are set later by RetainGrad events
    at_build = [(ch, rq, fn, False) for (ch, rq, fn, rt) in arena]
    E.problems = []
    W = weights_of(R, E.problems)
    evs = clist([cevent(e, at_build, W) for e in E.events])
    exp = clist([cobs(o) for o in E.obs])
    specs = clist(["(%s,%s,%s)" % (cb(gm), cb(rq), cnatlist(cs)) for gm, rq, cs in creation_specs(R)])
    return evs, exp, clist([cnode(n) for n in at_build]), specs


# ----------------------------------------------------------------------------------------------
# oracle: forward-mode AD over Fractions on the recorded program (no Coq model, no look at _children /
# requires_grad / grad_fn of results: only what the program asked for)
def oracle_values(R):
    """Per arena node: object array of Duals.  Tangent directions: (leaf index, element) for variable leaves and
    ("n", node index, element) for every tracked op result (so that d root / d intermediate is available too)."""
    vals = []
    deps = []       # variable leaves the node depends on through tracked ops
    ndeps = []      # tracked op results the node depends on (including itself)
    for i, nd in enumerate(R.nodes):
        t = nd["t"]
        cs = [R.index[id(c)] for c in nd["children_arg"]]
        if not cs:
            variable = nd["requested"] and nd["gm"]
            flat = [to_frac(x) for x in t.data.reshape(-1)]
            if variable:
                a = obj_array([Dual(x, {(i, j): Fraction(1)}) for j, x in enumerate(flat)], t.data.shape)
                deps.append({i})
            else:
                a = obj_array([Dual(x) for x in flat], t.data.shape)
                deps.append(set())
            ndeps.append(set())
        else:
            try:
                a = spec_apply(t._operation, [vals[c] for c in cs], R.params.get(i))
                if a.size != t.data.size:
                    raise ValueError("size")
            except Exception:
                # the operands handed to Tensor.__init__ are not the op's inputs (contract violation, reported by the arena tie):
                # the oracle cannot mirror this node; treat its value as recorded, gradient unknown -> constant
                a = obj_array([Dual(to_frac(x)) for x in t.data.reshape(-1)], t.data.shape)
            d = set()
            for c in cs:
                d |= deps[c]
            if not nd["gm"] or not d:      # computed while gradients are not tracked / from constants only: a constant
                a = obj_array([Dual(Dual.lift(x).v) for x in a.reshape(-1)], a.shape)
                deps.append(set())
                ndeps.append(set())
            else:
                flat = []
                for j, x in enumerate(a.reshape(-1)):
                    x = Dual.lift(x)
                    tt = dict(x.t)
                    tt[("n", i, j)] = Fraction(1)
                    flat.append(Dual(x.v, tt))
                a = obj_array(flat, a.shape)
                deps.append(d)
                nn = {i}
                for c in cs:
                    nn |= ndeps[c]
                ndeps.append(nn)
        vals.append(a)
    return vals, deps, ndeps


def _grad_wrt(rv, seed, key, n):
    g = [sum(Fraction(seed[j]) * Dual.lift(rv[j]).t.get(key + (e,), Fraction(0)) for j in range(len(rv))) for e in range(n)]
    return g + [Fraction(0)] * (2 - n)


def oracle_history(E):
    """Expected `_grad` after every observed event, by forward-mode AD:
       * of every variable leaf: sum over the backward calls since its last reset (None while untouched);
       * of every intermediate that is retained (retain_grad() earlier, or the call ran inside `with retain_grads()`) and
         reached by this call, right after the call: d(seed . root)/d(intermediate) of this call alone.
    Returns a list aligned with E.events: None or {"leaves": {...}, "retained": {...}}."""
    R = E.R
    vals, deps, ndeps = oracle_values(R)
    leaves = [i for i, nd in enumerate(R.nodes) if not nd["children_arg"] and nd["requested"] and nd["gm"]]
    acc = {i: None for i in leaves}
    out = []
    nbuilt = 0
    retained = set()
    mode = False
    for ev, ob in zip(E.events, E.obs):
        k = ev[0]
        extra = {}
        if k == "Build":
            nbuilt = ev[1] + 1
        elif k == "SetRetainMode":
            mode = ev[1]
        elif k == "RetainGrad" and ob != "raised":
            retained.add(ev[1])
        elif k == "Backward" and ob != "raised":
            root, seed = ev[1], ev[2]
            rv = vals[root].reshape(-1)
            for l in leaves:
                if l >= nbuilt or l not in deps[root]:
                    continue
                g = _grad_wrt(rv, seed, (l,), R.nodes[l]["t"].data.size)
                old = acc[l] or (Fraction(0), Fraction(0))
                acc[l] = (old[0] + g[0], old[1] + g[1])
            for u in ndeps[root]:
                if u != root and (mode or u in retained):
                    g = _grad_wrt(rv, seed, ("n", u), R.nodes[u]["t"].data.size)
                    extra[u] = (g[0], g[1])
        elif k == "BackwardFails":
            # as if the call had never happened; the only trace: leaves strictly below a tracked root get their (zero) buffer
            root = ev[1]
            for l in leaves:
                if l < nbuilt and l != root and l in deps[root] and acc[l] is None:
                    acc[l] = (Fraction(0), Fraction(0))
        elif k == "ZeroTensor":
            if ev[1] in acc:
                acc[ev[1]] = (Fraction(0), Fraction(0))
        elif k == "ZeroModule" or k == "ZeroOptim":
            for v in ev[1]:
                if v in acc:
                    acc[v] = (Fraction(0), Fraction(0))
        if ob is None or ob == "raised":
            out.append(None)
        else:
            out.append({"leaves": {l: acc[l] for l in leaves if l < nbuilt}, "retained": extra})
    return out


def oracle_judge(E):
    """Compare the oracle with the observed gradients. Returns None or a description of the first difference."""
    if getattr(E, "unexpected", None):
        return {"problem": "a call that must not raise did", **E.unexpected}
    exp = oracle_history(E)
    if E.raised_at is not None and E.events[E.raised_at][0] == "Backward":
        # backward may only refuse a root that was not asked to be tracked
        _, deps, ndeps = oracle_values(E.R)
        r = E.events[E.raised_at][1]
        if deps[r] or ndeps[r]:
            return {"event_index": E.raised_at, "event": list(E.events[E.raised_at]), "problem": "backward raised on a tracked root", "error": E.error}
    for n, (ob, ex) in enumerate(zip(E.obs, exp)):
        if ex is None:
            continue
        for kind in ("leaves", "retained"):
            for l, want in ex[kind].items():
                got = ob["bufs"][l]
                w = None if want is None else (int(want[0]), int(want[1]))
                if got != w:
                    return {"event_index": n, "event": list(E.events[n]),
                            ("leaf_tensor" if kind == "leaves" else "retained_intermediate"): l, "expected_grad": w, "observed_grad": got}
    return None


def oracle_call_counts(E):
    """Each recorded operation contributes exactly once: closure log has no duplicates and no unknown closure."""
    for n, ob in enumerate(E.obs):
        if isinstance(ob, dict) and ob["log"]:
            lg = ob["log"]
            if len(set(lg)) != len(lg) or any(x < 0 for x in lg):
                return {"event_index": n, "closure_log": lg, "problem": "a closure was invoked more than once or is unknown"}
    return None


# ----------------------------------------------------------------------------------------------
# generator
class Gen:
    """Random programs.  Values are tracked exactly so that everything stays small."""

    VMAX = 1 << 12

    def __init__(self, rng, max_nodes=40, max_depth=12, max_fanout=4):
        self.rng = rng
        self.steps = []
        self.vals = {}       # id -> list of Fractions (flat)
        self.shape = {}      # id -> tuple
        self.depth = {}
        self.fan = {}
        self.req = {}        # intended "is tracked" flag (for steering only)
        self.leafs = []
        self.params = []
        self.nid = 0
        self.nodes_budget = max_nodes
        self.max_depth = max_depth
        self.max_fanout = max_fanout
        self.est_nodes = 0

    def new_id(self):
        self.nid += 1
        return self.nid - 1

    def leaf(self, req=None, shape=None, param=False, nograd=False):
        r = self.rng
        if shape is None:
            shape = r.choice([(), (), (1,), (2,), (2,)])
        n = 1
        for s in shape:
            n *= s
        data = [r.randint(-3, 3) for _ in range(n)]
        if req is None:
            req = r.random() < 0.7
        i = self.new_id()
        self.steps.append({"k": "leaf", "id": i, "data": data, "shape": list(shape), "req": req, "param": param, "nograd": nograd})
        self.vals[i] = [Fraction(x) for x in data]
        self.shape[i] = tuple(shape)
        self.depth[i] = 0
        self.fan[i] = 0
        self.req[i] = req and not nograd
        self.leafs.append(i)
        if param:
            self.params.append(i)
        self.est_nodes += 1
        return i

    def size(self, i):
        return len(self.vals[i])

    def pick(self, pred=lambda i: True, prefer_recent=True):
        c = [i for i in self.vals if self.fan[i] < self.max_fanout and self.depth[i] < self.max_depth and pred(i)]
        if not c:
            return None
        if prefer_recent and self.rng.random() < 0.6:
            c = c[-6:]
        return self.rng.choice(c)

    def small(self, i, lim=64):
        return all(abs(x) <= lim for x in self.vals[i])

    def emit(self, op, args, outs_vals, outs_shapes, p=None, nograd=False, cost=1):
        outs = []
        for v, s in zip(outs_vals, outs_shapes):
            i = self.new_id()
            self.vals[i] = v
            self.shape[i] = tuple(s)
            self.depth[i] = 1 + max(self.depth[a] for a in args)
            self.fan[i] = 0
            self.req[i] = (not nograd) and any(self.req[a] for a in args)
            outs.append(i)
        for a in args:
            self.fan[a] += 1
        st = {"k": "op", "op": op, "args": list(args), "out": outs, "nograd": nograd}
        if p:
            st["p"] = p
        self.steps.append(st)
        self.est_nodes += cost
        return outs

    def random_op(self, nograd=False):
        """Append one random op step; returns the new ids or None."""
        r = self.rng
        for _ in range(20):
            kind = r.choice(["add", "add", "mul", "mul", "sub", "neg", "negf", "pow", "sum", "clone", "stack", "unbind",
                             "index", "mm", "mm11", "addc", "mulc", "rsubc", "flat", "sq", "square"])
            a = self.pick()
            if a is None:
                return None
            va, sa = self.vals[a], self.shape[a]
            if kind in ("add", "sub", "mul"):
                b = self.pick(lambda i: self.size(i) == len(va) or self.size(i) == 1 or len(va) == 1)
                if b is None:
                    continue
                if a == b and self.fan[a] + 2 > self.max_fanout:
                    continue
                vb, sb = self.vals[b], self.shape[b]
                try:
                    so = np.broadcast_shapes(sa, sb)
                except ValueError:
                    continue
                n = 1
                for s in so:
                    n *= s
                if n > 2:
                    continue
                ea = va if len(va) == n else va * n
                eb = vb if len(vb) == n else vb * n
                if kind == "mul":
                    if not (self.small(a) and self.small(b)):
                        continue
                    out = [x * y for x, y in zip(ea, eb)]
                elif kind == "add":
                    out = [x + y for x, y in zip(ea, eb)]
                else:
                    out = [x - y for x, y in zip(ea, eb)]
                return self.emit(kind, [a, b], [out], [so], nograd=nograd, cost=3 if kind == "sub" else 1)
            if kind == "square":
                if not self.small(a, 32) or self.fan[a] + 2 > self.max_fanout:
                    continue
                return self.emit("mul", [a, a], [[x * x for x in va]], [sa], nograd=nograd)
            if kind in ("neg", "negf"):
                return self.emit(kind, [a], [[-x for x in va]], [sa], nograd=nograd, cost=2 if kind == "neg" else 1)
            if kind == "pow":
                n = r.choice([2, 3])
                if not self.small(a, 12):
                    continue
                return self.emit("pow", [a], [[x ** n for x in va]], [sa], p={"n": n}, nograd=nograd)
            if kind == "sum":
                return self.emit("sum", [a], [[sum(va)]], [()], nograd=nograd)
            if kind == "clone":
                return self.emit("clone", [a], [list(va)], [sa], nograd=nograd)
            if kind == "stack":
                if len(va) != 1 or sa != ():
                    continue
                b = self.pick(lambda i: self.shape[i] == ())
                if b is None or (a == b and self.fan[a] + 2 > self.max_fanout):
                    continue
                return self.emit("stack", [a, b], [[va[0], self.vals[b][0]]], [(2,)], nograd=nograd)
            if kind == "unbind":
                if sa != (2,):
                    continue
                return self.emit("unbind", [a], [[va[0]], [va[1]]], [(), ()], nograd=nograd, cost=2)
            if kind == "index":
                if sa != (2,):
                    continue
                i = r.randint(0, 1)
                return self.emit("index", [a], [[va[i]]], [()], p={"i": i}, nograd=nograd)
            if kind == "mm":
                if sa != (2,):
                    continue
                b = self.pick(lambda i: self.shape[i] == (2,))
                if b is None or not (self.small(a) and self.small(b)) or (a == b and self.fan[a] + 2 > self.max_fanout):
                    continue
                vb = self.vals[b]
                return self.emit("mm", [a, b], [[va[0] * vb[0] + va[1] * vb[1]]], [(1, 1)], nograd=nograd, cost=3)
            if kind == "mm11":
                if len(va) != 1:
                    continue
                b = self.pick(lambda i: self.size(i) == 1)
                if b is None or not (self.small(a) and self.small(b)) or (a == b and self.fan[a] + 2 > self.max_fanout):
                    continue
                return self.emit("mm11", [a, b], [[va[0] * self.vals[b][0]]], [(1, 1)], nograd=nograd, cost=3)
            if kind in ("addc", "mulc", "rsubc"):
                c = r.randint(-3, 3)
                if kind == "mulc" and not self.small(a):
                    continue
                out = [x + c for x in va] if kind == "addc" else [x * c for x in va] if kind == "mulc" else [c - x for x in va]
                return self.emit(kind, [a], [out], [sa], p={"c": c}, nograd=nograd, cost={"addc": 2, "mulc": 2, "rsubc": 4}[kind])
            if kind == "flat":
                if len(sa) != 1:
                    continue
                return self.emit("flat", [a], [list(va)], [(len(va),)], nograd=nograd, cost=3)
            if kind == "sq":
                if sa == ():
                    continue
                return self.emit("sq", [a], [list(va)], [tuple(s for s in sa if s != 1)], nograd=nograd)
        return None

    def seed_for(self, i):
        r = self.rng
        return [r.choice([1, 1, 2, -1, 3]) for _ in range(self.size(i))]


def gen_program(rng, max_nodes=40, nleaves=None, p_nograd=0.08, pre_events=True):
    """One DAG program followed by one backward (C03)."""
    G = Gen(rng, max_nodes=max_nodes)
    nl = nleaves or rng.randint(1, 4)
    for _ in range(nl):
        G.leaf()
    target = rng.randint(2, max_nodes)
    while G.est_nodes < target:
        if rng.random() < 0.06:
            G.leaf()
            continue
        if G.random_op(nograd=rng.random() < p_nograd) is None:
            break
    # optional history before the call (stale buffers, existing leaf gradients)
    tracked = [i for i in G.vals if G.req[i]]
    if pre_events and tracked:
        for _ in range(rng.choice([0, 0, 1, 2])):
            c = rng.random()
            t = rng.choice(tracked)
            if c < 0.35:
                G.steps.append({"k": "zero_t", "t": rng.choice(list(G.vals))})
            elif c < 0.55:
                G.steps.append({"k": "retain", "t": t})
            elif c < 0.75:
                G.steps.append({"k": "backward_fail", "root": rng.choice([t, t, rng.choice(list(G.vals))])})
            else:
                G.steps.append({"k": "backward", "root": t, "seed": G.seed_for(t), "retain_ctx": rng.random() < 0.2})
    cands = [i for i in tracked if G.depth[i] > 0] or tracked or list(G.vals)
    # prefer late (large) roots
    root = max(rng.sample(cands, min(3, len(cands))), key=lambda i: G.depth[i])
    if rng.random() < 0.08:
        root = rng.choice(list(G.vals))            # possibly a tensor that does not require grad: must raise
    G.steps.append({"k": "backward", "root": root, "seed": G.seed_for(root), "retain_ctx": rng.random() < 0.15})
    return G.steps


def gen_history(rng, max_events=12, max_graphs=3, max_leaves=3):
    """Histories: <= max_graphs graphs over <= max_leaves shared leaves, backward from any node, repeated
    backward, retain_grad, retain_grads context, the three reset paths."""
    G = Gen(rng, max_nodes=40)
    nl = rng.randint(1, max_leaves)
    for _ in range(nl):
        G.leaf(req=rng.random() < 0.85, param=True)
    if rng.random() < 0.3:
        G.leaf(req=False)
    nev = 0
    graphs = 0
    nmax = rng.randint(3, max_events)
    while nev < nmax:
        c = rng.random()
        tracked = [i for i in G.vals if G.req[i]]
        inner = [i for i in tracked if G.depth[i] > 0]
        if (c < 0.3 and graphs < max_graphs and G.est_nodes < 34) or not inner:
            if graphs >= max_graphs and not inner:
                break
            for _ in range(rng.randint(1, 5)):
                if G.est_nodes >= 38:
                    break
                G.random_op(nograd=rng.random() < 0.05)
            graphs += 1
            nev += 1
        elif c < 0.65:
            t = rng.choice(inner if rng.random() < 0.8 else tracked)
            if rng.random() < 0.22:      # a failed call (caught), usually followed later by correct ones on the same graph
                G.steps.append({"k": "backward_fail", "root": rng.choice([t, t, t, rng.choice(list(G.vals))])})
                if rng.random() < 0.6:
                    G.steps.append({"k": "backward", "root": t, "seed": G.seed_for(t)})
            else:
                G.steps.append({"k": "backward", "root": t, "seed": G.seed_for(t), "retain_ctx": rng.random() < 0.2})
            nev += 1
        elif c < 0.73:
            G.steps.append({"k": "retain", "t": rng.choice(inner)})
            nev += 1
        elif c < 0.82:
            G.steps.append({"k": "zero_t", "t": rng.choice(list(G.vals))})
            nev += 1
        elif c < 0.91:
            ps = [p for p in G.params if rng.random() < 0.7]
            if ps:
                G.steps.append({"k": "zero_mod", "ps": ps})
                nev += 1
        else:
            ps = [p for p in G.params if rng.random() < 0.7]
            if ps:
                G.steps.append({"k": "zero_opt", "ps": ps})
                nev += 1
    return G.steps


def describe(steps):
    """Human readable program text for evidence / witnesses."""
    out = []
    for st in steps:
        k = st["k"]
        if k == "leaf":
            out.append("t%d = %s(%s, shape=%s, requires_grad=%s)%s" % (st["id"], "Parameter" if st.get("param") else "Tensor", st["data"], tuple(st["shape"]), st["req"], "  # inside no_grad" if st.get("nograd") else ""))
        elif k == "op":
            out.append("%s = %s(%s%s)%s" % (", ".join("t%d" % i for i in st["out"]), st["op"], ", ".join("t%d" % i for i in st["args"]),
                                              (", %s" % json.dumps(st["p"])) if st.get("p") else "", "  # inside no_grad" if st.get("nograd") else ""))
        elif k == "backward":
            out.append("%st%d.backward(%s)" % ("with retain_grads(): " if st.get("retain_ctx") else "", st["root"], st["seed"]))
        elif k == "backward_fail":
            out.append("try: t%d.backward(<gradient of the wrong shape>)  except RuntimeError: pass" % st["root"])
        elif k == "zero_t":
            out.append("t%d.zero_()" % st["t"])
        elif k == "zero_mod":
            out.append("Module(%s).zero_grad()" % ", ".join("t%d" % i for i in st["ps"]))
        elif k == "zero_opt":
            out.append("SGD([%s]).zero_grad()" % ", ".join("t%d" % i for i in st["ps"]))
        elif k == "retain":
            out.append("t%d.retain_grad()" % st["t"])
        elif k == "mod_new":
            out.append("m%d = nn.Module()" % st["m"])
        elif k == "mod_set":
            out.append("m%d.%s = m%d" % (st["m"], st["name"], st["child"]))
        elif k == "mod_setp":
            out.append("m%d.%s = t%d" % (st["m"], st["name"], st["t"]))
        elif k == "mod_unset":
            out.append("m%d.%s = None" % (st["m"], st["name"]))
        elif k == "mod_inspect":
            out.append("m%d.%s()" % (st["m"], st.get("how", "parameters")))
        elif k == "zero_tree":
            out.append("m%d.zero_grad()" % st["m"])
        elif k == "opt_new":
            out.append("o%d = SGD(m%d.parameters())" % (st["o"], st["m"]))
        elif k == "zero_optim":
            out.append("o%d.zero_grad()" % st["o"])
    return out


# ----------------------------------------------------------------------------------------------
# correspondence driver shared by the checks
import re


def parse_natlists(out):
    flat = " ".join(out.split())
    res = []
    for m in re.finditer(r"= \[(.*?)\]\s*:\s*list nat", flat):
        body = m.group(1).replace("%nat", "").strip()
        res.append([int(x) for x in body.split(";") if x.strip()])
    return res


def corr_files(execs, prefix, chunk=250):
    """Coq files comparing, for every execution, (1) the model's trace with the recorded one and (2) the recorded
    arena with the wrapper contract."""
    files = []
    for k in range(0, len(execs), chunk):
        rows, crow = [], []
        for E in execs[k:k + chunk]:
            evs, exp, arena, specs = history_case(E)
            rows.append("(%s,\n   %s)" % (evs, exp))
            crow.append("(%s, %s, tt)" % (arena, specs))
        txt = COQ_HEADER + """
Definition cases : list (list Ev * list (option obs_t)) :=
 [%s].
Eval vm_compute in (mismatches run_hist agrees cases).
Definition ccases : list (arena * list (bool * bool * list nat) * unit) :=
 [%s].
Eval vm_compute in (mismatches (fun c : arena * list (bool * bool * list nat) => if wfb (fst c) then contract (fst c) (snd c) else [0%%nat])
                               (fun (r : list nat) (_ : unit) => match r with [] => true | _ => false end) ccases).
""" % (";\n  ".join(rows), ";\n  ".join(crow))
        files.append(("%s_%d" % (prefix, k // chunk), txt))
    return files


def run_corr(ctx, execs, prefix, chunk=250):
    """Returns (trace_mismatch_indices, contract_mismatch_indices, errors)."""
    files = corr_files(execs, prefix, chunk)
    res = ctx.coq_eval_many(files)
    tm, cm, errs = [], [], []
    for n, (name, _) in enumerate(files):
        ok, out = res[name]
        lists = parse_natlists(out)
        if not ok or len(lists) != 2:
            errs.append({"file": name, "error": out[-600:]})
            continue
        tm += [n * chunk + i for i in lists[0]]
        cm += [n * chunk + i for i in lists[1]]
    # recorded operands that do not reproduce the forward value: a disagreement with the wrapper contract, found harness-side
    for i, E in enumerate(execs):
        if getattr(E, "problems", None) and i not in cm:
            cm.append(i)
    return tm, cm, errs


def usable(E, limit=1 << 48):
    """Exactness guard: every number a buffer can hold during any of the calls stays far below 2^53."""
    R = E.R
    arena = arena_of(R)
    W = weights_of(R, [])
    bufs = [None] * len(arena)
    for ev, ob in zip(E.events, E.obs):
        if ev[0] == "Backward":
            b = bufs + [None] * (len(arena) - len(bufs))
            if abs_flow_bound(arena, W, ev[1], ev[2], b) > limit:
                return False
        if isinstance(ob, dict):
            bufs = list(ob["bufs"])
    return True


def gen_tree_history(rng, max_events=12):
    """Histories whose resets go through real module TREES whose registrations change during the history:
    nested modules, Parameters registered (and dropped) on nested children at any time, the tree inspected at random points,
    resets via any module of the tree or via optimizers built early or late from module.parameters()."""
    G = Gen(rng, max_nodes=36)
    S = G.steps
    nmods = rng.randint(2, 4)
    parent = {}
    for m in range(nmods):
        S.append({"k": "mod_new", "m": m})
    regs = {m: {} for m in range(nmods)}       # module -> name -> ("p", leaf id) | ("m", module id)
    linked = set()

    def link(m):
        par = rng.randint(0, m - 1)
        S.append({"k": "mod_set", "m": par, "name": "sub%d" % m, "child": m})
        regs[par]["sub%d" % m] = ("m", m)
        linked.add(m)

    def reach(m, seen=None):
        seen = seen if seen is not None else set()
        if m in seen:
            return []
        seen.add(m)
        out = [v[1] for v in regs[m].values() if v[0] == "p"]
        for v in regs[m].values():
            if v[0] == "m":
                out += reach(v[1], seen)
        return out

    def new_param(m=None):
        p = G.leaf(req=rng.random() < 0.85, param=True)
        m = rng.randint(0, nmods - 1) if m is None else m
        name = "w%d" % p
        S.append({"k": "mod_setp", "m": m, "name": name, "t": p})
        regs[m][name] = ("p", p)
        return p

    late = [m for m in range(1, nmods) if rng.random() < 0.35]      # submodules attached only later
    for m in range(1, nmods):
        if m not in late:
            link(m)
    for _ in range(rng.randint(1, 2)):
        new_param()
    opts = 0
    nev = 0
    nmax = rng.randint(5, max_events)
    while nev < nmax:
        c = rng.random()
        tracked = [i for i in G.vals if G.req[i]]
        inner = [i for i in tracked if G.depth[i] > 0]
        if c < 0.16:
            S.append({"k": "mod_inspect", "m": rng.choice([0, 0, rng.randint(0, nmods - 1)]), "how": rng.choice(["parameters", "num_params"])})
        elif c < 0.30 and len(G.params) < 4:
            new_param(rng.choice([nmods - 1, rng.randint(0, nmods - 1)]))          # often on the deepest child
            nev += 1
        elif c < 0.36 and late:
            link(late.pop())
        elif c < 0.40:
            cands = [(m, n) for m in regs for n, v in regs[m].items() if v[0] == "p"]
            if len(cands) > 1:
                m, n = rng.choice(cands)
                S.append({"k": "mod_unset", "m": m, "name": n})
                del regs[m][n]
        elif c < 0.58 or not inner:
            if G.est_nodes < 32:
                for _ in range(rng.randint(1, 4)):
                    G.random_op(nograd=rng.random() < 0.04)
            nev += 1
        elif c < 0.80:
            t = rng.choice(inner if rng.random() < 0.85 else tracked)
            if rng.random() < 0.15:
                S.append({"k": "backward_fail", "root": t})
            S.append({"k": "backward", "root": t, "seed": G.seed_for(t), "retain_ctx": rng.random() < 0.1})
            nev += 1
        elif c < 0.90:
            S.append({"k": "zero_tree", "m": rng.choice([0, 0, 0, rng.randint(0, nmods - 1)])})
            nev += 1
        elif c < 0.95 and opts < 2:
            m = rng.choice([0, rng.randint(0, nmods - 1)])
            if reach(m):
                S.append({"k": "opt_new", "o": opts, "m": m})
                opts += 1
        elif opts:
            S.append({"k": "zero_optim", "o": rng.randint(0, opts - 1)})
            nev += 1
    return S
