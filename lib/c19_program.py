"""C19 supporting runs: the seeded program.  Standalone script (executed with /venv/bin/python in fresh subprocesses with
different PYTHONHASHSEED values, and importable in-process).

    python lib/c19_program.py --seed S [--perturb K] [--reps N] [--catalog N] [--trace]

prints one JSON object {"items": {name: sha256(dtype, shape, bytes)}, "random_items": [...], "meta": {...}}.
It honours VERIF_REPO (default /repo), stubs `pkbar` exactly like lib/impl.py and pins OMP_NUM_THREADS=1.

What the program does after `synapgrad.manual_seed(S)` (property C19: "draws random tensors, initialises layers, applies
dropout, shuffles a split and trains for several steps"):
  rand / randn / normal / randint; constructors Linear, Conv1d, Conv2d, BatchNorm1d, BatchNorm2d; every nn.init.*_ ;
  Dropout in training mode; split_dataset(shuffle=True) (with and without validation split); a few training steps with SGD
  (momentum), Adam and AdamW on an MLP with BatchNorm1d + Dropout; a diamond graph (a node consumed by several ops);
  Module.parameters() with a shared parameter; forward/backward of a conv net; `ctor_part`: construction of EVERY layer class
  of nn/layers.py under every boolean / None option combination with junk of the buffers' sizes in the heap (see ctor_part).
The body is executed twice in the process (second time after re-seeding) -> prefixes "run1/", "run2/".
`--reps N`: a fixed-data (no randomness) forward/backward repeated N times -> "fixed/<i>/..." must all be equal.
`--perturb K`: allocate K dummy objects of assorted sizes (freeing every other one) before every section, so that object
addresses (hence identity hashes and set layouts) differ between processes even when PYTHONHASHSEED does not matter.
`--catalog N`: additionally run the first N..all ops of lib/opcatalog.py forward+backward on seeded random operands.
"""
import argparse, hashlib, json, os, sys, types

os.environ.setdefault("OMP_NUM_THREADS", "1")
REPO = os.environ.get("VERIF_REPO", "/repo")
if REPO not in sys.path:
    sys.path.insert(0, REPO)
ROOT = os.path.dirname(os.path.dirname(os.path.abspath(__file__)))

if "pkbar" not in sys.modules:          # same stub as lib/impl.py (pkbar cannot be imported offline)
    _pk = types.ModuleType("pkbar")

    class Kbar:
        def __init__(self, *a, **k):
            pass

        def update(self, i, values=None):
            pass

        def add(self, n, values=None):
            pass
    _pk.Kbar = Kbar
    sys.modules["pkbar"] = _pk

import numpy as np  # noqa: E402
import synapgrad as sg  # noqa: E402
from synapgrad import nn, optim  # noqa: E402
from synapgrad.nn import init  # noqa: E402
from synapgrad.nn.utils.data import split_dataset  # noqa: E402

assert os.path.abspath(sg.__file__).startswith(os.path.abspath(REPO)), sg.__file__

_KEEP = []


def perturb(k, salt):
    """allocation-layout perturbation: k dummy objects of assorted sizes, every other one freed again"""
    if k <= 0:
        return
    tmp = []
    for i in range(k):
        n = 1 + ((i * 2654435761 + salt * 40503) % 97)
        tmp.append([object() for _ in range(n % 7)] + [bytearray(n * 8)])
    _KEEP.append(tmp[::2])


def digest(a):
    a = np.asarray(a)
    h = hashlib.sha256()
    h.update(str(a.dtype).encode()); h.update(repr(tuple(a.shape)).encode()); h.update(np.ascontiguousarray(a).tobytes())
    return h.hexdigest()


class Rec:
    def __init__(self):
        self.items = {}
        self.random_items = []
        self.values = {}

    def put(self, name, arr, random=False):
        assert name not in self.items, name
        self.items[name] = digest(arr.data if hasattr(arr, "data") and not isinstance(arr, np.ndarray) else arr)
        if random:
            self.random_items.append(name)
        if name.startswith("chk/"):
            a = np.asarray(arr.data if hasattr(arr, "data") and not isinstance(arr, np.ndarray) else arr)
            self.values[name] = [float(v) for v in a.reshape(-1)[:8]]


def mlp():
    return nn.Sequential(nn.Linear(4, 8), nn.BatchNorm1d(8), nn.ReLU(), nn.Dropout(0.3), nn.Linear(8, 3))


class Shared(nn.Module):
    """a parameter (and a submodule) reachable through two parents"""

    def __init__(self):
        super().__init__()
        self.l1 = nn.Linear(3, 3)
        self.l2 = self.l1
        self.w = nn.Parameter(sg.randn(3, 3).data, requires_grad=True)
        self.w_again = self.w

    def forward(self, x):
        return self.l2(self.l1(x)) @ self.w + x @ self.w_again


def body(rec, pre, seed, k):
    sg.manual_seed(seed)
    P = lambda n: pre + n  # noqa: E731
    perturb(k, 1)
    # ---- random tensors -------------------------------------------------------------------------------
    rec.put(P("rand"), sg.rand(3, 4), True)
    rec.put(P("rand_tuple"), sg.rand((2, 5)), True)
    rec.put(P("randn"), sg.randn(3, 4), True)
    rec.put(P("normal"), sg.normal(0.5, 2.0, 3, 4), True)
    rec.put(P("randint"), sg.randint(0, 1000, (3, 4)), True)
    # ---- layer constructors ----------------------------------------------------------------------------
    perturb(k, 2)
    layers = {"linear": nn.Linear(4, 3), "linear_nobias": nn.Linear(4, 3, bias=False), "conv1d": nn.Conv1d(2, 3, 2),
              "conv2d": nn.Conv2d(2, 3, (2, 3)), "bn1d": nn.BatchNorm1d(3), "bn2d": nn.BatchNorm2d(3)}
    for name, layer in layers.items():
        for i, p in enumerate(layer.parameters()):
            rec.put(P("ctor/%s/%d" % (name, i)), p, name.startswith(("linear", "conv")) and i == 0)
    # ---- every initialiser of nn.init -------------------------------------------------------------------
    inits = sorted(n for n in dir(init) if n.endswith("_") and not n.startswith("_") and callable(getattr(init, n)))
    for n in inits:
        t = sg.zeros((4, 3, 2))
        f = getattr(init, n)
        if n == "constant_":
            f(t, 0.25)
        else:
            f(t)
        rec.put(P("init/" + n), t, n not in ("constant_", "ones_", "zeros_"))
    # ---- dropout in training mode -------------------------------------------------------------------------
    perturb(k, 3)
    d = nn.Dropout(0.4); d.train()
    rec.put(P("dropout/train"), d(sg.ones((6, 7))), True)
    d.eval()
    rec.put(P("dropout/eval"), d(sg.ones((6, 7))))
    # ---- split_dataset(shuffle=True) -----------------------------------------------------------------------
    X = np.arange(40 * 2, dtype=np.float32).reshape(40, 2); y = np.arange(40, dtype=np.float32)
    tr, te, va = split_dataset(X, y, test_split=0.25, shuffle=True)
    rec.put(P("split/train_y"), tr[1], True); rec.put(P("split/test_y"), te[1], True); rec.put(P("split/train_X"), tr[0], True)
    tr, te, va = split_dataset(X, y, test_split=0.2, val_split=0.25, shuffle=True)
    rec.put(P("split3/train_y"), tr[1], True); rec.put(P("split3/test_y"), te[1], True); rec.put(P("split3/val_y"), va[1], True)
    # ---- training with each optimizer -------------------------------------------------------------------------
    for oname in ("sgd", "adam", "adamw"):
        perturb(k, 4)
        model = mlp(); model.train()
        params = model.parameters()
        opt = {"sgd": lambda: optim.SGD(params, lr=0.05, momentum=0.9, weight_decay=0.01),
               "adam": lambda: optim.Adam(params, lr=0.01),
               "adamw": lambda: optim.AdamW(params, lr=0.01, weight_decay=0.05)}[oname]()
        loss_fn = nn.CrossEntropyLoss()
        for i, p in enumerate(params):
            rec.put(P("train/%s/init/%d" % (oname, i)), p, i == 0)
        for step in range(3):
            xb = sg.randn(6, 4)
            yb = sg.randint(0, 3, (6,))
            out = model(xb)
            loss = loss_fn(out, yb)
            opt.zero_grad()
            loss.backward()
            rec.put(P("train/%s/loss/%d" % (oname, step)), loss, True)
            for i, p in enumerate(params):
                rec.put(P("train/%s/grad/%d/%d" % (oname, step, i)), p._grad if p._grad is not None else np.zeros(0), i == 0)
            opt.step()
        for i, p in enumerate(params):
            rec.put(P("train/%s/final/%d" % (oname, i)), p, i == 0)
        model.eval()
        rec.put(P("train/%s/eval_out" % oname), model(sg.ones((2, 4))), True)
    # ---- diamond: one node consumed by several ops -------------------------------------------------------------
    perturb(k, 5)
    a = sg.randn(3, 3, requires_grad=True)
    w = sg.randn(3, 3, requires_grad=True)
    b = a * 2.0
    c = b.exp()
    dd = b * b
    e = (c + dd + b) @ w + b
    f = e.sum() + (b * w).sum()
    f.backward()
    rec.put(P("diamond/out"), f, True); rec.put(P("diamond/grad_a"), a._grad, True); rec.put(P("diamond/grad_w"), w._grad, True)
    # ---- shared parameter / submodule ------------------------------------------------------------------------------
    sh = Shared()
    ps = sh.parameters()
    rec.put(P("shared/n_params"), np.array([len(ps)], dtype=np.int64))
    for i, p in enumerate(ps):
        rec.put(P("shared/param/%d" % i), p, True)
    o = sh(sg.randn(2, 3)).sum()
    o.backward()
    for i, p in enumerate(ps):
        rec.put(P("shared/grad/%d" % i), p._grad if p._grad is not None else np.zeros(0), True)
    # ---- a small conv net ----------------------------------------------------------------------------------------------
    perturb(k, 6)
    net = nn.Sequential(nn.Conv2d(1, 2, 3, padding=1), nn.BatchNorm2d(2), nn.ReLU(), nn.MaxPool2d(2), nn.Flatten(), nn.Linear(8, 2))
    net.train()
    out = net(sg.randn(3, 1, 4, 4))
    l = nn.MSELoss()(out, sg.randn(3, 2))
    l.backward()
    rec.put(P("conv/loss"), l, True)
    for i, p in enumerate(net.parameters()):
        rec.put(P("conv/grad/%d" % i), p._grad if p._grad is not None else np.zeros(0), True)


def fixed(rec, pre, k):
    """no randomness at all: fixed dyadic data, forward + backward (diamond, matmul, batch-norm, conv, losses)"""
    perturb(k, 7)
    x = sg.Tensor((np.arange(24, dtype=np.float32).reshape(4, 6) - 11.0) / 8.0, requires_grad=True)
    w = sg.Tensor((np.arange(18, dtype=np.float32).reshape(6, 3) - 7.0) / 16.0, requires_grad=True)
    g = sg.Tensor(np.linspace(0.5, 1.5, 3, dtype=np.float32), requires_grad=True)
    bb = sg.Tensor(np.linspace(-0.25, 0.25, 3, dtype=np.float32), requires_grad=True)
    h = x @ w
    h2 = sg.batch_norm(h, g, bb, None, None, True, 0.1, 1e-5)
    t = sg.tanh(h2)
    d1 = t * t + t.exp() + t           # t consumed three times
    y = sg.Tensor(np.array([0, 2, 1, 2], dtype=np.int32))
    loss = sg.cross_entropy(d1, y).mean() + sg.mse_loss(d1, sg.zeros((4, 3))).mean() + (h.sum(dim=0) * g).sum()
    loss.backward()
    rec.put(pre + "loss", loss)
    rec.put(pre + "grad_x", x._grad); rec.put(pre + "grad_w", w._grad); rec.put(pre + "grad_g", g._grad); rec.put(pre + "grad_b", bb._grad)
    xi = sg.Tensor((np.arange(2 * 1 * 5 * 5, dtype=np.float32).reshape(2, 1, 5, 5) % 7 - 3.0) / 4.0, requires_grad=True)
    k2 = sg.Tensor((np.arange(2 * 1 * 2 * 2, dtype=np.float32).reshape(2, 1, 2, 2) - 3.0) / 8.0, requires_grad=True)
    o = sg.max_pool2d(sg.relu(sg.conv2d(xi, k2, None, 1, 1, 1)), 2, 2, 0, 1)
    s = (o * o).sum()
    s.backward()
    rec.put(pre + "conv_out", s); rec.put(pre + "conv_grad_x", xi._grad); rec.put(pre + "conv_grad_k", k2._grad)


def prebuild():
    """objects constructed BEFORE any manual_seed: a seed set later must still govern everything they draw"""
    np.random.rand(5)                     # the global generators have been used (state unknown) before the objects are built
    return {"dropout": nn.Dropout(0.4), "mlp": mlp(), "conv": nn.Sequential(nn.Conv1d(2, 3, 2), nn.ReLU(), nn.Dropout(0.25), nn.Flatten(), nn.Linear(9, 2))}


def prebuilt_part(rec, pre, seed, objs):
    """'build the model once, then manual_seed(s) and run the experiment' - run twice per process with the SAME objects"""
    sg.manual_seed(seed)
    x = sg.Tensor((np.arange(24, dtype=np.float32).reshape(4, 6) - 11.0) / 8.0)
    d = objs["dropout"]; d.train()
    rec.put(pre + "prebuilt/dropout/train", d(x), True)
    rec.put(pre + "prebuilt/dropout/train_again", d(x), True)
    for name, xin, yin in (("mlp", sg.randn(6, 4), sg.randint(0, 3, (6,))), ("conv", sg.randn(5, 2, 4), sg.randint(0, 2, (5,)))):
        model = objs[name]
        model.train()
        # re-initialise the parameters / statistics under the seed, so that the two runs start from the same model
        def reinit(m):
            if hasattr(m, "reset_parameters"):
                m.reset_parameters()
            if getattr(m, "running_mean", None) is not None:
                m.running_mean.data = np.zeros_like(m.running_mean.data); m.running_var.data = np.ones_like(m.running_var.data)
        model.apply(reinit)
        opt = optim.SGD(model.parameters(), lr=0.05, momentum=0.9)
        for step in range(2):
            out = model(xin)
            loss = nn.CrossEntropyLoss()(out, yin)
            opt.zero_grad(); loss.backward(); opt.step()
            rec.put(pre + "prebuilt/%s/loss/%d" % (name, step), loss, True)
        for i, pp in enumerate(model.parameters()):
            rec.put(pre + "prebuilt/%s/final/%d" % (name, i), pp, True)


def labels_part(rec):
    """one_hot_encode / split_dataset on STRING labels and mixed negative ints (no randomness): must not depend on the hash seed;
    direct statement: column j of the encoding is the j-th label in sorted order (np.unique), as documented by the implementation"""
    from synapgrad.nn.utils.data import one_hot_encode
    sets = {"strings": ["cat", "dog", "bird", "cat", "emu", "dog", "ant", "bird", "zebra", "yak", "cat", "emu"],
            "neg_ints": [-3, 7, 0, -3, 12, -1, 7, 0, -100, 5, 5, -1],
            "long_strings": ["class_%d" % ((i * 7) % 5) for i in range(12)]}
    for name, y in sets.items():
        enc = one_hot_encode(y)
        rec.put("labels/%s/one_hot" % name, enc)
        ya = np.array(y)
        want = (ya[:, None] == np.unique(ya)[None, :]).astype(np.asarray(enc).dtype)
        rec.put("chk/got/one_hot_encode/%s" % name, enc); rec.put("chk/want/one_hot_encode/%s" % name, want)
        X = np.arange(len(y) * 2, dtype=np.float32).reshape(len(y), 2)
        tr, te, va = split_dataset(X, np.asarray(enc, dtype=np.float32), test_split=0.25, val_split=0.25, shuffle=False)
        rec.put("labels/%s/split/train_y" % name, tr[1]); rec.put("labels/%s/split/test_y" % name, te[1]); rec.put("labels/%s/split/val_y" % name, va[1])


def seedcheck(rec, seed):
    """direct statement: after manual_seed(s) the two global generators are in the state np.random.seed(s) / random.seed(s) give"""
    import random as pyrandom
    np.random.seed((seed + 12345) % 2 ** 32); pyrandom.seed(seed + 12345)        # some other state first
    np.random.rand(3); pyrandom.random()
    sg.manual_seed(seed)
    got_np = np.array([np.random.rand(), np.random.randn()] + list(np.random.randint(0, 1000, 3)))
    got_py = np.array([pyrandom.random(), pyrandom.gauss(0, 1), pyrandom.randrange(10 ** 6)])
    np.random.seed(seed); pyrandom.seed(seed)
    want_np = np.array([np.random.rand(), np.random.randn()] + list(np.random.randint(0, 1000, 3)))
    want_py = np.array([pyrandom.random(), pyrandom.gauss(0, 1), pyrandom.randrange(10 ** 6)])
    rec.put("chk/got/manual_seed/numpy_first_draws", got_np, True); rec.put("chk/want/manual_seed/numpy_first_draws", want_np, True)
    rec.put("chk/got/manual_seed/python_first_draws", got_py, True); rec.put("chk/want/manual_seed/python_first_draws", want_py, True)


def junk(shapes, fill):
    """allocate and free arrays of exactly the sizes of the buffers the next op will allocate, filled with `fill`
    (so that an uninitialised buffer of that size is likely to contain it)"""
    for _ in range(3):
        tmp = []
        for sh in shapes:
            for dt in (np.float32, np.float64):
                tmp.append(np.full(sh, fill, dtype=dt))
        del tmp


def gaps(rec, pre, i):
    """windows that leave GAPS (stride > dilated kernel extent): positions no window covers must be exact zeros whatever the
    heap held before; fixed data, junk of the buffers' sizes allocated and freed before every call"""
    from synapgrad.nn import functional as NF
    fill = [float("nan"), 1e30, -3.25, 7.0][i % 4]
    cases = [
        ("maxpool1d_k2_s3", lambda x: NF.max_pool1d(x, 2, 3, 0, 1), (2, 2, 9), [2, 5, 8]),
        ("avgpool1d_k2_s4", lambda x: NF.avg_pool1d(x, 2, 4, 0, 1), (2, 2, 10), [2, 3, 6, 7]),
        ("maxpool1d_k2_s3_d2", lambda x: NF.max_pool1d(x, 2, 3, 0, 2), (2, 2, 9), [1, 4, 7]),
        ("maxpool1d_k2_s3_pad1", lambda x: NF.max_pool1d(x, 2, 3, 1, 1), (2, 2, 9), None),
        ("maxpool2d_k2_s3", lambda x: NF.max_pool2d(x, (2, 2), (3, 3), (0, 0), (1, 1)), (1, 2, 8, 8), None),
        ("avgpool2d_k2_s3", lambda x: NF.avg_pool2d(x, (2, 2), (3, 3), (0, 0), (1, 1)), (1, 2, 8, 8), None),
    ]
    for name, f, shape, gap_idx in cases:
        n = int(np.prod(shape))
        x = sg.Tensor(((np.arange(n, dtype=np.float32) * 7) % 11 - 5.0).reshape(shape) / 4.0, requires_grad=True)
        junk([shape, shape[:-1] + (shape[-1] + 2,)], fill)
        y = f(x)
        junk([shape, shape[:-1] + (shape[-1] + 2,)], fill)
        (y * y).sum().backward()
        rec.put(pre + "gaps/%s/out" % name, y); rec.put(pre + "gaps/%s/grad_x" % name, x._grad)
        rec.put(pre + "gaps/%s/grad_finite" % name, np.array([bool(np.isfinite(x._grad).all())]))
        if i == 0 and gap_idx is not None:
            rec.put("chk/got/gaps/%s/grad_at_uncovered_positions" % name, x._grad[..., gap_idx])
            rec.put("chk/want/gaps/%s/grad_at_uncovered_positions" % name, np.zeros(shape[:-1] + (len(gap_idx),), dtype=np.float32))
    # conv2d with stride > kernel: input gradient goes through place_windows
    xs = (1, 1, 8, 8)
    x = sg.Tensor(((np.arange(64, dtype=np.float32) * 5) % 13 - 6.0).reshape(xs) / 8.0, requires_grad=True)
    w = sg.Tensor((np.arange(8, dtype=np.float32).reshape(2, 1, 2, 2) - 3.0) / 4.0, requires_grad=True)
    junk([xs], fill)
    y = NF.conv2d(x, w, None, (3, 3), (0, 0), (1, 1))
    junk([xs], fill)
    (y * y).sum().backward()
    rec.put(pre + "gaps/conv2d_k2_s3/out", y); rec.put(pre + "gaps/conv2d_k2_s3/grad_x", x._grad); rec.put(pre + "gaps/conv2d_k2_s3/grad_w", w._grad)
    rec.put(pre + "gaps/conv2d_k2_s3/grad_finite", np.array([bool(np.isfinite(x._grad).all())]))
    # fold with gaps: forward goes through place_windows
    cols = sg.Tensor(((np.arange(1 * 4 * 9, dtype=np.float32) * 3) % 7 - 3.0).reshape(1, 4, 9) / 2.0, requires_grad=True)
    junk([(1, 1, 8, 8)], fill)
    z = NF.fold(cols, (8, 8), (2, 2), 1, 3, 0)
    junk([(1, 4, 9)], fill)
    (z * z).sum().backward()
    rec.put(pre + "gaps/fold_k2_s3/out", z); rec.put(pre + "gaps/fold_k2_s3/grad", cols._grad)
    rec.put(pre + "gaps/fold_k2_s3/out_finite", np.array([bool(np.isfinite(z.data).all())]))
    if i == 0:
        rec.put("chk/got/gaps/fold_k2_s3/uncovered_rows", z.data[:, :, [2, 5], :])
        rec.put("chk/want/gaps/fold_k2_s3/uncovered_rows", np.zeros((1, 1, 2, 8), dtype=np.float32))


FILLS = [float("nan"), 1e30, -3.25, 7.0]
JUNK_SHAPES = [(3,), (4,), (1,), (3, 4), (1, 4), (3, 2, 3), (3, 2, 3, 3), (2,), (8,)]


def _x(shape, mul=7, mod=11):
    n = int(np.prod(shape))
    return sg.Tensor((((np.arange(n, dtype=np.float32) * mul) % mod) - mod // 2).reshape(shape) / 4.0)


def ctor_configs():
    """(name, factory, fixed input) for EVERY layer class of synapgrad.nn.layers under every boolean / None option combination"""
    from synapgrad.nn import layers as L
    cfg = []
    for b in (True, False):
        cfg.append(("Linear(bias=%s)" % b, lambda b=b: L.Linear(4, 3, bias=b), (5, 4)))
        cfg.append(("Neuron(bias=%s)" % b, lambda b=b: L.Neuron(4, bias=b), (5, 4)))
        for pad in (0, "same"):
            cfg.append(("Conv1d(bias=%s,padding=%r)" % (b, pad), lambda b=b, pad=pad: L.Conv1d(2, 3, 3, padding=pad, bias=b), (2, 2, 8)))
            cfg.append(("Conv2d(bias=%s,padding=%r)" % (b, pad), lambda b=b, pad=pad: L.Conv2d(2, 3, 3, padding=pad, bias=b), (1, 2, 6, 6)))
    for cls, shp in (("BatchNorm1d", (5, 3)), ("BatchNorm2d", (2, 3, 4, 4))):
        for aff in (True, False):
            for trk in (True, False):
                for mom in (0.1, None):
                    cfg.append(("%s(affine=%s,track=%s,momentum=%s)" % (cls, aff, trk, mom),
                                lambda cls=cls, aff=aff, trk=trk, mom=mom: getattr(L, cls)(3, momentum=mom, affine=aff, track_running_stats=trk), shp))
    cfg.append(("BatchNorm1d(float64)", lambda: L.BatchNorm1d(3, dtype=np.float64), (5, 3)))
    for pp in (0.0, 0.5, 1.0):
        cfg.append(("Dropout(p=%s)" % pp, lambda pp=pp: L.Dropout(pp), (4, 5)))
    cfg.append(("Flatten()", lambda: L.Flatten(), (2, 3, 4)))
    cfg.append(("Flatten(0,-1)", lambda: L.Flatten(0, -1), (2, 3, 4)))
    for st in (1, 2):
        for pad in (0, 1):
            cfg.append(("Unfold(k=2,s=%d,p=%d)" % (st, pad), lambda st=st, pad=pad: L.Unfold(2, stride=st, padding=pad), (1, 2, 4, 4)))
    cfg.append(("Fold((4,4),k=2,s=2)", lambda: L.Fold((4, 4), 2, stride=2), (1, 8, 4)))
    cfg.append(("Fold((4,4),k=2,s=3)", lambda: L.Fold((4, 4), 2, stride=3, padding=1), (1, 8, 4)))
    for cls, shp in (("MaxPool1d", (2, 2, 8)), ("AvgPool1d", (2, 2, 8)), ("MaxPool2d", (1, 2, 6, 6)), ("AvgPool2d", (1, 2, 6, 6))):
        for st in (None, 1, 3):
            for pad in (0, 1):
                cfg.append(("%s(k=2,s=%s,p=%d)" % (cls, st, pad), lambda cls=cls, st=st, pad=pad: getattr(L, cls)(2, stride=st, padding=pad), shp))
    covered = {c[0].split("(")[0] for c in cfg} | {"BatchNorm"}
    missing = sorted(n for n, o in vars(L).items() if isinstance(o, type) and issubclass(o, nn.Module) and o.__module__ == L.__name__ and n not in covered)
    return cfg, missing


def tensor_attrs(layer):
    """every Tensor-valued attribute (parameters and buffers), discovered generically"""
    out = {}
    for k, v in list(vars(layer).items()) + list(getattr(layer, "_parameters", {}).items()):
        if isinstance(v, sg.Tensor):
            out[k] = v
    return dict(sorted(out.items()))


def ctor_part(rec, pre, seed, round_):
    """construction of every layer class under every option combination, with junk (NaN / 1e30 / -3.25 / 7, a different fill per
    run, repetition and configuration) of the buffers' sizes allocated and freed right before each construction; every
    Tensor-valued attribute is hashed right after construction and again after two training forwards + one eval forward on fixed
    data.  synapgrad.empty's own (documented uninitialised) result is never hashed.  Direct statements: everything is finite;
    a tracked BatchNorm starts with running_mean == 0 and running_var == 1; an affine one with weight == 1 and bias == 0."""
    sg.manual_seed(seed)
    cfgs, missing = ctor_configs()
    rec.put(pre + "ctorp/unconfigured_layer_classes", np.array([len(missing)], dtype=np.int64))
    rec.put("chk/got/ctor/%sall_layer_classes_configured" % pre, np.array([len(missing)], dtype=np.int64))
    rec.put("chk/want/ctor/%sall_layer_classes_configured" % pre, np.array([0], dtype=np.int64))
    for ci, (name, make, shape) in enumerate(cfgs):
        fill = FILLS[(ci + round_) % 4]
        junk(JUNK_SHAPES, fill)
        layer = make()
        attrs = tensor_attrs(layer)
        fin = True
        for a, t in attrs.items():
            rec.put(pre + "ctorp/%s/new/%s" % (name, a), t, name.startswith(("Linear", "Neuron", "Conv")) and a == "weight")
            fin = fin and bool(np.isfinite(t.data).all())
            want = {"running_mean": 0.0, "running_var": 1.0}.get(a)
            if want is None and name.startswith("BatchNorm"):
                want = {"weight": 1.0, "bias": 0.0}.get(a)
            if want is not None and name.startswith("BatchNorm"):
                rec.put("chk/got/ctor/%s%s/%s_right_after_construction" % (pre, name, a), t)
                rec.put("chk/want/ctor/%s%s/%s_right_after_construction" % (pre, name, a), np.full(t.data.shape, want, dtype=t.data.dtype))
        layer.train()
        x = _x(shape)
        junk(JUNK_SHAPES, fill)
        o1 = layer(x)
        o2 = layer(_x(shape, 5, 13))
        layer.eval()
        o3 = layer(x)
        rnd = name.startswith(("Linear", "Neuron", "Conv")) or name == "Dropout(p=0.5)"
        rec.put(pre + "ctorp/%s/out/train1" % name, o1, rnd); rec.put(pre + "ctorp/%s/out/train2" % name, o2, rnd)
        rec.put(pre + "ctorp/%s/out/eval" % name, o3, name.startswith(("Linear", "Neuron", "Conv")))
        for o in (o1, o2, o3):
            fin = fin and bool(np.isfinite(o.data).all())
        for a, t in tensor_attrs(layer).items():
            rec.put(pre + "ctorp/%s/after/%s" % (name, a), t, name.startswith(("Linear", "Neuron", "Conv")) and a == "weight")
            fin = fin and bool(np.isfinite(t.data).all())
        rec.put("chk/got/ctor/%s%s/all_finite" % (pre, name), np.array([fin]))
        rec.put("chk/want/ctor/%s%s/all_finite" % (pre, name), np.array([True]))


def catalog_part(rec, pre, seed, k, limit):
    """ops of lib/opcatalog.py on operands drawn from the seeded global generators, forward + backward"""
    if ROOT not in sys.path:
        sys.path.insert(0, ROOT)
    from lib import opcatalog
    import synapgrad.functional as TF
    from synapgrad.nn import functional as NF
    impl = types.SimpleNamespace(synapgrad=sg, np=np, TF=TF, NF=NF, nn=nn, optim=optim)
    ops = opcatalog.catalog(impl)
    if limit:
        ops = ops[:limit]
    sg.manual_seed((seed + 1) % 2 ** 32)     # np.random.seed accepts 0 .. 2**32-1
    for op in ops:
        perturb(k, 8)
        ts = []
        for shape, dom, diff in op.operands:
            if dom.startswith("labels:"):
                ts.append(sg.Tensor(np.random.randint(0, int(dom.split(":")[1]), shape).astype(np.int64)))
                continue
            d = np.random.uniform(-2.0, 2.0, shape).astype(np.float32)
            if dom == "pos":
                d = np.abs(d) + 0.5
            elif dom == "prob":
                d = (np.abs(d) / 2.5 + 0.1).astype(np.float32)
            elif dom == "nonzero":
                d = np.where(np.abs(d) < 0.2, 0.5, d).astype(np.float32)
            ts.append(sg.Tensor(d, requires_grad=bool(diff)))
        out = op.call(ts)
        outs = list(out) if op.multi else [out]
        for j, o in enumerate(outs):
            rec.put(pre + "%s/out/%d" % (op.name, j), o, True)
        tot = None
        for o in outs:
            z = (o * o).sum() if o.data.ndim else o * o
            tot = z if tot is None else tot + z
        if tot.requires_grad:
            tot.backward()
        for j, t in enumerate(ts):
            if t._grad is not None:
                rec.put(pre + "%s/grad/%d" % (op.name, j), t._grad)


def run(seed, k=0, reps=0, catalog=-1):
    rec = Rec()
    objs = prebuild()
    body(rec, "run1/", seed, k)
    prebuilt_part(rec, "run1/", seed, objs)
    ctor_part(rec, "run1/", seed, 0)
    body(rec, "run2/", seed, k)
    prebuilt_part(rec, "run2/", seed, objs)
    ctor_part(rec, "run2/", seed, 1)
    labels_part(rec)
    seedcheck(rec, seed)
    for i in range(reps):
        fixed(rec, "fixed/%d/" % i, k)
        gaps(rec, "fixed/%d/" % i, i)
    if catalog >= 0:
        catalog_part(rec, "cat1/", seed, k, catalog)
        catalog_part(rec, "cat2/", seed, k, catalog)
    return {"items": rec.items, "random_items": rec.random_items, "chk_values": rec.values,
            "meta": {"seed": seed, "perturb": k, "reps": reps, "hashseed": os.environ.get("PYTHONHASHSEED"),
                     "numpy": np.__version__, "python": sys.version.split()[0], "repo": REPO,
                     "flags_hash_randomization": sys.flags.hash_randomization,
                     "sample_str_hash": hash("visited_nodes"), "sample_id": id(rec) % 100003}}


if __name__ == "__main__":
    ap = argparse.ArgumentParser()
    ap.add_argument("--seed", type=int, default=0)
    ap.add_argument("--perturb", type=int, default=0)
    ap.add_argument("--reps", type=int, default=0)
    ap.add_argument("--catalog", type=int, default=-1)
    a = ap.parse_args()
    json.dump(run(a.seed, a.perturb, a.reps, a.catalog), sys.stdout)
