from mkprops import emit
H = '''(* C01, family 3 (elementwise non-linear tensor ops and the operator overloads) -- statements only.
   Proofs: Proofs/KernelProofs.v.  All statements are about the definitions GENERATED from
   synapgrad/cpu_ops.py (Gen/GenKernels.v), from the wrappers of synapgrad/functional.py
   (Gen/GenKernelUse.v: wrap_<op>_out = forward as called, wrap_<op>_grad_<x> g = what the closure adds
   to x.grad, including whether the kernel receives the input or the saved output) and from the
   operator overloads of synapgrad/tensor.py (Gen/GenOverloads.v).
   Over the reals: "up to floating-point rounding" is outside the model. *)
From Coq Require Import Reals ZArith Lia Lra String List.
From Coquelicot Require Import Coquelicot.
From SG Require Import Analysis.RealOps Analysis.Derive Gen.GenKernels Gen.GenKernelUse Gen.GenOverloads Proofs.KernelProofs.
Import ListNotations.
Open Scope R_scope.
'''
OV = "(%s wrap_add_out wrap_mul_out wrap_pow_out wrap_rpow_out)"
items = [
 ("add_vjp", "add: derivative in each operand and linearity in the upstream gradient",
  "forall x1 x2 g, is_derive (fun t => wrap_add_out t x2) x1 (wrap_add_grad_x1 1 x1 x2) /\\ is_derive (fun t => wrap_add_out x1 t) x2 (wrap_add_grad_x2 1 x1 x2) /\\\n    wrap_add_grad_x1 g x1 x2 = g * wrap_add_grad_x1 1 x1 x2 /\\ wrap_add_grad_x2 g x1 x2 = g * wrap_add_grad_x2 1 x1 x2",
  "(fun x1 x2 g => conj (add_derive_x1 x1 x2) (conj (add_derive_x2 x1 x2) (add_linear g x1 x2)))"),
 ("mul_vjp", "mul",
  "forall x1 x2 g, is_derive (fun t => wrap_mul_out t x2) x1 (wrap_mul_grad_x1 1 x1 x2) /\\ is_derive (fun t => wrap_mul_out x1 t) x2 (wrap_mul_grad_x2 1 x1 x2) /\\\n    wrap_mul_grad_x1 g x1 x2 = g * wrap_mul_grad_x1 1 x1 x2 /\\ wrap_mul_grad_x2 g x1 x2 = g * wrap_mul_grad_x2 1 x1 x2",
  "(fun x1 x2 g => conj (mul_derive_x1 x1 x2) (conj (mul_derive_x2 x1 x2) (mul_linear g x1 x2)))"),
 ("neg_vjp", "neg", "forall x g, is_derive wrap_neg_out x (wrap_neg_grad_x 1 x) /\\ wrap_neg_grad_x g x = g * wrap_neg_grad_x 1 x",
  "(fun x g => conj (neg_derive x) (neg_linear g x))"),
 ("clone_vjp", "clone", "forall x g, is_derive wrap_clone_out x (wrap_clone_grad_x 1 x) /\\ wrap_clone_grad_x g x = g * wrap_clone_grad_x 1 x",
  "(fun x g => conj (clone_derive x) (clone_linear g x))"),
 '''(* x ** n with a run-time exponent is RealOps.gpow: powerRZ for integer-valued n, Rpower otherwise.
   pow_domain x n := (exists z, n = IZR z /\\ (1 <= z \\/ x <> 0)) \\/ ((forall z, n <> IZR z) /\\ 0 < x) *)''',
 ("pow_vjp", "pow: integer n >= 1, all x; integer n <= 0, x <> 0; non-integer n, x > 0",
  "forall x n g, pow_domain x n -> is_derive (fun t => wrap_pow_out t n) x (wrap_pow_grad_x 1 x n) /\\ wrap_pow_grad_x g x n = g * wrap_pow_grad_x 1 x n",
  "(fun x n g D => conj (pow_derive x n D) (pow_linear g x n))"),
 ("pow_vjp_int_pos", "readable instances of pow_domain", "forall (z:Z) x, (1 <= z)%Z -> is_derive (fun t => wrap_pow_out t (IZR z)) x (wrap_pow_grad_x 1 x (IZR z))",
  "(fun z x H => pow_derive x (IZR z) (or_introl (ex_intro _ z (conj eq_refl (or_introl H)))))"),
 ("pow_vjp_int_nonzero", "any integer exponent (in particular z <= 0) away from 0", "forall (z:Z) x, x <> 0 -> is_derive (fun t => wrap_pow_out t (IZR z)) x (wrap_pow_grad_x 1 x (IZR z))",
  "(fun z x H => pow_derive x (IZR z) (or_introl (ex_intro _ z (conj eq_refl (or_intror H)))))"),
 ("pow_vjp_real", "non-integer exponent on the positive axis", "forall n x, (forall z:Z, n <> IZR z) -> 0 < x -> is_derive (fun t => wrap_pow_out t n) x (wrap_pow_grad_x 1 x n)",
  "(fun n x Hn Hx => pow_derive x n (or_intror (conj Hn Hx)))"),
 ("rpow_vjp", "rpow n ** x, n > 0 (the closure hands the saved output to the kernel)",
  "forall x n g, 0 < n -> is_derive (fun t => wrap_rpow_out t n) x (wrap_rpow_grad_x 1 x n) /\\ wrap_rpow_grad_x g x n = g * wrap_rpow_grad_x 1 x n",
  "(fun x n g H => conj (rpow_derive x n H) (rpow_linear g x n))"),
 ("exp_vjp", "exp (saved output)", "forall x g, is_derive wrap_exp_out x (wrap_exp_grad_x 1 x) /\\ wrap_exp_grad_x g x = g * wrap_exp_grad_x 1 x",
  "(fun x g => conj (exp_derive x) (exp_linear g x))"),
 ("log_vjp", "log as computed, ln (x + epsilon): exact derivative of the computed function wherever it is defined",
  "forall x g, 0 < x + epsilon -> is_derive wrap_log_out x (wrap_log_grad_x 1 x) /\\ wrap_log_grad_x g x = g * wrap_log_grad_x 1 x",
  "(fun x g H => conj (log_derive x H) (log_linear g x))"),
 ("sqrt_vjp", "sqrt, x > 0 (saved output)", "forall x g, 0 < x -> is_derive wrap_sqrt_out x (wrap_sqrt_grad_x 1 x) /\\ wrap_sqrt_grad_x g x = g * wrap_sqrt_grad_x 1 x",
  "(fun x g H => conj (sqrt_derive x H) (sqrt_linear g x))"),
 '''(* which array each backward kernel receives, as extracted from the wrappers *)
Example saved_value_table :
  map (fun k => (ku_wrapper k, ku_backward_args k)) (filter (fun k => existsb (String.eqb (ku_wrapper k)) ["rpow"; "exp"; "log"; "sqrt"; "pow"]%string) kernel_uses)
  = [("pow", [UGrad; UIn "x"; UParam "n"]); ("rpow", [UGrad; UOut; UParam "n"]); ("exp", [UGrad; UOut]);
     ("log", [UGrad; UIn "x"]); ("sqrt", [UGrad; UOut])]%string.
Proof. reflexivity. Qed.
''',
 "(* ---- operator overloads: Tensor.__neg__/__sub__/__rsub__/__truediv__/__rtruediv__/__radd__/__rmul__ *)",
 ("overload_expansions", "each expansion over the real add/mul/pow computes the mathematical operation (b <> 0 resp. a <> 0 is NumPy's domain; the equation itself holds for the total real division)",
  "forall a b, %s a = - a /\\ %s a b = a - b /\\ %s a b = b - a /\\\n    %s a b = a / b /\\ %s a b = b / a /\\ %s a b = b + a /\\ %s a b = b * a" % tuple(OV % n for n in ("ov_neg","ov_sub","ov_rsub","ov_truediv","ov_rtruediv","ov_radd","ov_rmul")),
  "(fun a b => conj (ov_neg_eq a) (conj (ov_sub_eq a b) (conj (ov_rsub_eq a b) (conj (ov_truediv_eq a b) (conj (ov_rtruediv_eq a b) (conj (ov_radd_eq a b) (ov_rmul_eq a b)))))))"),
 ("vjp_composition", "the chain rule in the form the engine applies it: backward of (h o f) is bf o bh",
  "forall (f h bf bh : R -> R) x, (forall g, bf g = g * bf 1) -> is_derive f x (bf 1) -> is_derive h (f x) (bh 1) -> is_derive (fun t => h (f t)) x (bf (bh 1))",
  "vjp_comp"),
 ("overload_vjps", "gradients of the expansions (chains of the generated backward kernels) are the derivatives",
  "forall a b,\n    is_derive (fun t => %s t) a (neg_grad_self 1 a) /\\\n    is_derive (fun t => %s t b) a (sub_grad_self 1 a b) /\\\n    is_derive (fun t => %s a t) b (sub_grad_other 1 a b) /\\\n    is_derive (fun t => %s t b) a (rsub_grad_self 1 a b) /\\\n    is_derive (fun t => %s t b) a (div_grad_self 1 a b) /\\\n    (b <> 0 -> is_derive (fun t => %s a t) b (div_grad_other 1 a b)) /\\\n    (a <> 0 -> is_derive (fun t => %s t b) a (rdiv_grad_self 1 a b))" % tuple(OV % n for n in ("ov_neg","ov_sub","ov_sub","ov_rsub","ov_truediv","ov_truediv","ov_rtruediv")),
  "(fun a b => conj (ov_neg_derive a) (conj (ov_sub_derive_self a b) (conj (ov_sub_derive_other a b) (conj (ov_rsub_derive_self a b) (conj (ov_truediv_derive_self a b) (conj (ov_truediv_derive_other a b) (ov_rtruediv_derive_self a b)))))))"),
 ("overload_grads", "closed forms of what each operand finally receives for the upstream gradient g",
  "forall g a b, neg_grad_self g a = - g /\\ sub_grad_self g a b = g /\\ sub_grad_other g a b = - g /\\ rsub_grad_self g a b = - g /\\\n    div_grad_self g a b = g / b /\\ (b <> 0 -> div_grad_other g a b = - g * a / (b * b)) /\\ (a <> 0 -> rdiv_grad_self g a b = - g * b / (a * a))",
  "overload_grads_closed_form"),
 "(* ---- lifting to tensors of any size: vectors are lists, dot g y = sum_i g_i y_i, axpy t v x = x + t v *)",
 ("elementwise_tensor_vjp", "an elementwise map has a diagonal Jacobian: <g, d/dt f(x + t v)> = <bwd(g, x), v>",
  "forall (f : R -> R) (b : R -> R -> R) (dom : R -> Prop),\n    (forall x, dom x -> is_derive f x (b 1 x)) -> (forall g x, b g x = g * b 1 x) ->\n    forall x g v, length g = length x -> length v = length x -> List.Forall dom x ->\n      is_derive (fun t => dot g (map f (axpy t v x))) 0 (dot (map2 b g x) v)",
  "lift_kernel"),
 ("exp_tensor_vjp", "instances of the lifting (one per unary kernel; binary ops are lifted operand-wise in the same way)",
  "forall x g v, length g = length x -> length v = length x ->\n    is_derive (fun t => dot g (map wrap_exp_out (axpy t v x))) 0 (dot (map2 wrap_exp_grad_x g x) v)",
  "(fun x g v Lg Lv => lift_kernel wrap_exp_out wrap_exp_grad_x (fun _ => True) (fun x _ => exp_derive x) exp_linear x g v Lg Lv (proj2 (List.Forall_forall _ x) (fun _ _ => I)))"),
 ("log_tensor_vjp", "log on tensors whose entries satisfy x_i + epsilon > 0",
  "forall x g v, length g = length x -> length v = length x -> List.Forall (fun xi => 0 < xi + epsilon) x ->\n    is_derive (fun t => dot g (map wrap_log_out (axpy t v x))) 0 (dot (map2 wrap_log_grad_x g x) v)",
  "(lift_kernel wrap_log_out wrap_log_grad_x (fun xi => 0 < xi + epsilon) log_derive log_linear)"),
 ("sqrt_tensor_vjp", "sqrt on positive tensors",
  "forall x g v, length g = length x -> length v = length x -> List.Forall (fun xi => 0 < xi) x ->\n    is_derive (fun t => dot g (map wrap_sqrt_out (axpy t v x))) 0 (dot (map2 wrap_sqrt_grad_x g x) v)",
  "(lift_kernel wrap_sqrt_out wrap_sqrt_grad_x (fun xi => 0 < xi) sqrt_derive sqrt_linear)"),
 ("pow_tensor_vjp", "pow with a fixed exponent n on tensors inside the domain",
  "forall n x g v, length g = length x -> length v = length x -> List.Forall (fun xi => pow_domain xi n) x ->\n    is_derive (fun t => dot g (map (fun a => wrap_pow_out a n) (axpy t v x))) 0 (dot (map2 (fun g a => wrap_pow_grad_x g a n) g x) v)",
  "(fun n => lift_kernel (fun a => wrap_pow_out a n) (fun g a => wrap_pow_grad_x g a n) (fun xi => pow_domain xi n) (fun x D => pow_derive x n D) (fun g x => pow_linear g x n))"),
 ("rpow_tensor_vjp", "rpow with a fixed base n > 0",
  "forall n, 0 < n -> forall x g v, length g = length x -> length v = length x ->\n    is_derive (fun t => dot g (map (fun a => wrap_rpow_out a n) (axpy t v x))) 0 (dot (map2 (fun g a => wrap_rpow_grad_x g a n) g x) v)",
  "(fun n Hn x g v Lg Lv => lift_kernel (fun a => wrap_rpow_out a n) (fun g a => wrap_rpow_grad_x g a n) (fun _ => True) (fun x _ => rpow_derive x n Hn) (fun g x => rpow_linear g x n) x g v Lg Lv (proj2 (List.Forall_forall _ x) (fun _ _ => I)))"),
 '''(* non-vacuity: the domains are inhabited and the definitions compute what one expects *)
Example pow_domain_examples : pow_domain (-3) 2 /\\ pow_domain 0 1 /\\ pow_domain (-2) (-1) /\\ pow_domain 2 (1/2).
Proof.
  split; [left; exists 2%Z; split; [reflexivity|left; lia]|].
  split; [left; exists 1%Z; split; [reflexivity|left; lia]|].
  split; [left; exists (-1)%Z; split; [reflexivity|right; lra]|].
  right. split; [|lra]. intros z E.
  assert (H: IZR 1 = IZR (2 * z)) by (rewrite mult_IZR; lra). apply eq_IZR in H. lia.
Qed.
Example pow_grad_example : wrap_pow_grad_x 1 (-3) 2 = -6.
Proof. unfold wrap_pow_grad_x, pow_backward. replace (2 - 1) with (IZR 1) by lra. rewrite gpow_int. simpl. lra. Qed.
''',
]
emit('/var/tmp/wp/F1/coq/Props/C01_scalar.v', H, items)
