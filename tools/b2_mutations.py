#!/venv/bin/python
"""Mutation experiments of work package B2 (C13, C20).  Usage: tools/b2_mutations.py [C13|C20] [name ...]
Works on the scratch worktree /var/tmp/wp/B2-repo of /repo (created beforehand); never touches /repo."""
import json, os, subprocess, sys

ROOT = os.path.dirname(os.path.dirname(os.path.abspath(__file__)))
SCRATCH = "/var/tmp/wp/B2-repo"
L = "synapgrad/nn/layers.py"
C = "synapgrad/cpu_ops.py"
T = "synapgrad/nn/utils/train.py"

MUT = {
 "C13": [
  ("revert-c689c99 (Dropout mask float32)", "revert", "c689c99"),
  ("seeded C13-m2: Module._set_mode returns early without visiting submodules", "patch", "/verif/seeded/C13-m2/patch.diff"),
  ("BN: eval uses batch statistics and updates the running ones (bn_training always True)", L,
   "            bn_training = (self.running_mean is None) and (self.running_var is None)",
   "            bn_training = True"),
  ("BN: biased variance in the running update", C,
   "        unbiased_var = var * (n / (n - 1))", "        unbiased_var = var * (n / n)"),
  ("BN: num_batches_tracked incremented in eval too", L,
   "        if self.training and self.track_running_stats:\n            if self.num_batches_tracked is not None:",
   "        if self.track_running_stats:\n            if self.num_batches_tracked is not None:"),
  ("BN: momentum and 1-momentum swapped in running_mean", C,
   "        running_mean = mean * momentum + running_mean * (1 - momentum)",
   "        running_mean = mean * (1 - momentum) + running_mean * momentum"),
  ("BN: cumulative factor 1/(k+1)", L,
   "                    exponential_average_factor = 1.0 / float(self.num_batches_tracked)",
   "                    exponential_average_factor = 1.0 / float(self.num_batches_tracked + 1)"),
  ("BN: running statistics passed (and updated) only in eval", L,
   "        running_var = self.running_var if not self.training or self.track_running_stats else None",
   "        running_var = self.running_var if not self.training else None"),
  ("Dropout: survivors scaled by 1/p", L,
   "            random_data = random_data / (1-self.p) # scale data",
   "            random_data = random_data / (self.p if self.p > 0 else 1) # scale data"),
  ("Dropout: p=1 not special-cased (divides by zero)", L,
   "        if self.p < 1:\n            random_data = random_data / (1-self.p) # scale data",
   "        if True:\n            random_data = random_data / (1-self.p) # scale data"),
  ("harmless: rename local unbiased_var", C,
   "        unbiased_var = var * (n / (n - 1))\n        running_var = unbiased_var * momentum",
   "        uvar = var * (n / (n - 1))\n        running_var = uvar * momentum"),
  ("harmless: reorder the two independent running_* selections in BatchNorm.forward", L,
   "        running_mean = self.running_mean if not self.training or self.track_running_stats else None\n        running_var = self.running_var if not self.training or self.track_running_stats else None",
   "        running_var = self.running_var if not self.training or self.track_running_stats else None\n        running_mean = self.running_mean if not self.training or self.track_running_stats else None"),
 ],
 "C20": [
  ("seeded C20-m1: Module.train()/eval() short-circuit when the own flag already matches", "patch", "/verif/seeded/C20-m1/patch.diff"),
  ("seeded C20-m2: single shared no_grad context with one saved attribute", "patch", "/verif/seeded/C20-m2/patch.diff"),
  ("zero_grad after backward", T,
   "            self.optimizer.zero_grad()\n            train_loss.backward()\n",
   "            train_loss.backward()\n            self.optimizer.zero_grad()\n"),
  ("model.eval() missing in __validate", T,
   '        """ Validate model with validation data """\n        self.model.eval()\n',
   '        """ Validate model with validation data """\n'),
  ("no_grad missing in __validate", T,
   "        total_val_loss = 0\n        with self.engine.no_grad():", "        total_val_loss = 0\n        if True:"),
  ("train loss averaged over i instead of i+1", T,
   "        train_loss = epoch_train_loss / (i + 1)", "        train_loss = epoch_train_loss / max(i, 1)"),
  ("validation metrics recorded without prefix", T,
   "            val_metrics = self.evaluator.compute(prefix='val') if self.evaluator != None else []",
   "            val_metrics = self.evaluator.compute() if self.evaluator != None else []"),
  ("optimizer.step() once per epoch (dedented out of the batch loop)", T,
   "            self.optimizer.step()\n            # ================= Update Train Metrics Info",
   "        self.optimizer.step()\n        if True:\n            # ================= Update Train Metrics Info"),
  ("history entries overwritten instead of appended", T,
   "                if dictionary.get(k, False): dictionary[k].append(v)", "                if False: dictionary[k].append(v)"),
  ("Evaluator BINARY threshold >= 0.5", T,
   "            y_pred = np.where(outputs_numpy > 0.5, 1, 0)\n            y_true = labels_numpy\n        elif self.mode == self.MULTI_CLASS:",
   "            y_pred = np.where(outputs_numpy >= 0.5, 1, 0)\n            y_true = labels_numpy\n        elif self.mode == self.MULTI_CLASS:"),
  ("Evaluator not reset by compute()", T,
   "        y_pred = np.array(self.y_pred)\n        self.reset()\n", "        y_pred = np.array(self.y_pred)\n"),
  ("test() without model.eval()", T,
   "        # set the model in evaluation mode\n        self.model.eval()\n        if self.model.training: raise Exception(\"Model is in training mode\")\n",
   "        # set the model in evaluation mode\n"),
  ("harmless: rename local epoch_train_loss", T, "epoch_train_loss", "running_loss"),
  ("harmless: reorder self.epochs / self.history initialisation", T,
   "        self.epochs = epochs\n        self.history = {}\n", "        self.history = {}\n        self.epochs = epochs\n"),
  ("behaviour-preserving but trace-changing: drop the redundant model.train() in fit", T,
   "            ############ TRAIN ############\n            self.model.train()\n", "            ############ TRAIN ############\n"),
 ],
}

TESTS = {"C13": "tests/test_layers.py -k 'batchnorm or dropout'", "C20": "tests/test_training.py tests/test_layers.py -k 'train or batchnorm or dropout'"}


def sh(cmd, **k):
    p = subprocess.run(cmd, shell=True, stdout=subprocess.PIPE, stderr=subprocess.STDOUT, text=True, **k)
    return p.returncode, "\n".join(l for l in p.stdout.splitlines() if "conda.cli" not in l)


def reset():
    sh("git -C %s reset -q --hard HEAD && git -C %s clean -fdq" % (SCRATCH, SCRATCH))


def main():
    pid = sys.argv[1]
    only = sys.argv[2:]
    results = []
    for m in MUT[pid]:
        name = m[0]
        if only and not any(o in name for o in only):
            continue
        reset()
        if m[1] == "revert":
            rc, out = sh("git -C %s revert --no-commit %s" % (SCRATCH, m[2]))
            assert rc == 0, out
        elif m[1] == "patch":
            rc, out = sh("git -C %s apply %s" % (SCRATCH, m[2]))
            assert rc == 0, out
        else:
            path = os.path.join(SCRATCH, m[1])
            src = open(path).read()
            assert src.count(m[2]) >= 1, (name, "pattern not found")
            open(path, "w").write(src.replace(m[2], m[3]))
        rc, out = sh("./check %s" % pid, cwd=ROOT, env=dict(os.environ, VERIF_REPO=SCRATCH))
        lines = [l for l in out.splitlines() if l.startswith(("VIOLATION", "KNOWN", "CHECK-ERROR"))]
        ev = json.load(open(os.path.join(ROOT, "evidence", "%s.json" % pid))) if rc in (0, 1) else {}
        broken = [b["what"] for b in ev.get("coverage", {}).get("broken", [])]
        verdict = None
        if lines and "replay=" in lines[0] and "no-failing" not in lines[0]:
            rp = lines[0].split("replay=")[1].split()[0]
            w = json.load(open(os.path.join(ROOT, rp)))
            verdict = str(w["observed"].get("verdict") or w["observed"].get("problems"))[:260]
            rrc, rout = sh("./check %s --replay %s" % (pid, rp), cwd=ROOT, env=dict(os.environ, VERIF_REPO=SCRATCH))
            rrc0, _ = sh("./check %s --replay %s" % (pid, rp), cwd=ROOT)
            verdict += "  [replay on mutant: exit %d, on /repo: exit %d]" % (rrc, rrc0)
        trc, tout = sh("cd %s && /venv/bin/python -m pytest -q -p no:cacheprovider -x %s 2>&1 | tail -1" % (SCRATCH, TESTS[pid]))
        results.append({"mutation": name, "check_exit": rc, "lines": lines, "broken": broken, "witness": verdict, "repo_tests": tout.strip()})
        print(json.dumps(results[-1], indent=1), flush=True)
    reset()
    json.dump(results, open(os.path.join(ROOT, "work", "mutations_%s.json" % pid), "w"), indent=1)


if __name__ == "__main__":
    main()
