#!/venv/bin/python
"""Re-confirm seeded changes already under /verif/seeded against the current /repo HEAD (after /repo moved on):
patch applies, demo passes before / fails after, test-suite result unchanged."""
import json, os, subprocess, sys, shutil, re
sys.path.insert(0, os.path.dirname(os.path.abspath(__file__)))
from import_seed import sh, tests
ROOT = os.path.dirname(os.path.dirname(os.path.abspath(__file__)))
names = sys.argv[1:]
wt = "/var/tmp/vt/reconf"
sh("git -C /repo worktree remove --force %s" % wt)
rc, out = sh("git -C /repo worktree add --detach %s HEAD" % wt); assert rc == 0, out
head = sh("git -C /repo rev-parse --short HEAD")[1].strip()
try:
    for n in names:
        d = os.path.join(ROOT, "seeded", n)
        env = dict(os.environ, SG_PATH=wt, PYTHONPATH=wt)
        demo = os.path.join(d, "demo.py")
        rc0 = sh("timeout 600 /venv/bin/python %s" % demo, env=env)[0] if os.path.exists(demo) else None
        rc, o = sh("git -C %s apply %s" % (wt, os.path.join(d, "patch.diff")))
        if rc != 0:
            print(n, "PATCH DOES NOT APPLY", o[-200:]); continue
        rc1 = sh("timeout 600 /venv/bin/python %s" % demo, env=env)[0] if os.path.exists(demo) else None
        nf, npass, failed = tests(wt)
        sh("git -C %s checkout -- . && git -C %s clean -fdq" % (wt, wt))
        ok = (rc0 in (0, None)) and (rc1 not in (0,)) and (nf, npass) in ((0, 93), (1, 92))
        print(n, "RECONFIRMED" if ok else "REJECTED", "demo clean rc=%s patched rc=%s tests=%s/%s" % (rc0, rc1, nf, npass))
        if ok:
            m = json.load(open(os.path.join(d, "meta.json")))
            m.setdefault("what_i_ran", []).append("rebased onto /repo %s and re-confirmed: demo exit %s -> %s, test-suite %s failed / %s passed" % (head, rc0, rc1, nf, npass))
            json.dump(m, open(os.path.join(d, "meta.json"), "w"), indent=1)
finally:
    sh("git -C /repo worktree remove --force %s" % wt)
    shutil.rmtree(wt, ignore_errors=True)
