#!/venv/bin/python
"""Mutation experiments for C08 / C15 (AGENT_GUIDE 'Required experiments').

usage: tools/mutations_wpC.py C08|C15 [name ...]
For every mutation: reset the scratch worktree of /repo, apply the textual edit, run `VERIF_REPO=<scratch> ./check <ID>`,
print exit code, VIOLATION lines, the broken obligations/ties and the first witness.  /repo itself is never touched.
"""
import json, os, subprocess, sys
ROOT = os.path.dirname(os.path.dirname(os.path.abspath(__file__)))
SCRATCH = os.environ.get("SCRATCH_REPO", "/var/tmp/wp/C-repo")
OPT = "synapgrad/optim/optimizers.py"
INIT = "synapgrad/nn/init.py"
LAYERS = "synapgrad/nn/layers.py"

GUARD = "                if not p.requires_grad or p._grad is None: continue\n"

M = {
 "C08": {
  # ---- reverted fix commits (hand-reverted: later fixes touch the same lines)
  "revert-46473b8-buffer-alias": [(OPT, "self.momentum_buffer[i] = grad.copy() # own storage: p._grad keeps being accumulated into", "self.momentum_buffer[i] = grad")],
  "revert-22f620f-no-skip-guard": [(OPT, GUARD, "", 3)],
  "revert-22f620f-guard-frozen-only-missing": [(OPT, "if not p.requires_grad or p._grad is None: continue", "if p._grad is None: continue", 3)],
  "revert-0e54348-global-step-count": [(OPT, "self.beta1**self.steps[i]", "self.beta1**self.t", 2), (OPT, "self.beta2**self.steps[i]", "self.beta2**self.t", 2)],
  # ---- the real `git revert` of the fix commits (newest first; single reverts of the older ones conflict with the later fixes)
  "git-revert-0e54348": [("git-revert", "0e54348")],
  "git-revert-0e54348+22f620f": [("git-revert", "0e54348", "22f620f")],
  "git-revert-0e54348+22f620f+46473b8": [("git-revert", "0e54348", "22f620f", "46473b8")],
  # ---- further mutations
  "drop-dampening-factor": [(OPT, "(1.0 - self.dampening)*grad", "grad")],
  "nesterov-uses-old-buffer": [(OPT, "                    if self.momentum_buffer[i] is not None:", "                    old = self.momentum_buffer[i]\n                    if self.momentum_buffer[i] is not None:"),
                               (OPT, "grad = grad + self.momentum*self.momentum_buffer[i]", "grad = grad + self.momentum*(old if old is not None else self.momentum_buffer[i])")],
  "beta2-correction-uses-beta1": [(OPT, "m2_corrected = self.m2[i] / (1.0 - self.beta2**self.steps[i])", "m2_corrected = self.m2[i] / (1.0 - self.beta1**self.steps[i])", "first")],
  "adamw-decay-after-update": [(OPT, "                p.data -= self.lr*self.weight_decay*p.data", "                pass"),
                               (OPT, "                p.data -= (self.lr * m1_corrected) / (np.sqrt(m2_corrected) + self.epsilon)",
                                "                p.data -= (self.lr * m1_corrected) / (np.sqrt(m2_corrected) + self.epsilon)\n                p.data -= self.lr*self.weight_decay*p.data", "last")],
  "epsilon-inside-sqrt": [(OPT, "(np.sqrt(m2_corrected) + self.epsilon)", "np.sqrt(m2_corrected + self.epsilon)", "first")],
  "weight-decay-on-frozen": [(OPT, "                if not p.requires_grad or p._grad is None: continue",
                              "                if p._grad is None: continue\n                if not p.requires_grad:\n                    if self.weight_decay != 0:\n                        p.data -= self.lr*self.weight_decay*p.data\n                    continue", "first")],
  "maximize-sign-dropped": [(OPT, "                    p.data += self.lr*grad", "                    p.data -= self.lr*grad")],
  "data-rebound-not-inplace": [(OPT, "                    p.data -= self.lr*grad", "                    p.data = p.data - self.lr*grad")],
  "adam-maximize-ignored": [(OPT, "grad = -p._grad if self.maximize else p._grad", "grad = p._grad", "first")],
  "adam-steps-incremented-by-2": [(OPT, "self.steps[i] += 1", "self.steps[i] += 2", "first")],
  # ---- harmless rewrites
  "harmless-rename-local": [(OPT, "m1_corrected", "mhat", "all"), (OPT, "m2_corrected", "vhat", "all")],
  "harmless-reorder-and-commute": [(OPT, "p.data -= self.lr*grad", "p.data -= grad*self.lr"),
                                   (OPT, "                m1_corrected = self.m1[i] / (1.0 - self.beta1**self.steps[i])", "                __M1__", "all"),
                                   (OPT, "                m2_corrected = self.m2[i] / (1.0 - self.beta2**self.steps[i])", "                m1_corrected = self.m1[i] / (1.0 - self.beta1**self.steps[i])", "all"),
                                   (OPT, "                __M1__", "                m2_corrected = self.m2[i] / (1.0 - self.beta2**self.steps[i])", "all")],
 },
 "C15": {
  "git-revert-983cba2": [("git-revert", "983cba2")],
  "revert-983cba2-std-squared": [(INIT, "return normal_(tensor, 0, std)", "return normal_(tensor, 0, std**2)", "all")],
  "xavier-fan-in-only": [(INIT, "a = gain * math.sqrt(6.0 / float(fan_in + fan_out))", "a = gain * math.sqrt(6.0 / float(fan_in + fan_in))")],
  "kaiming-gain-ignores-a": [(INIT, "    gain = calculate_gain(nonlinearity, a)\n    std = gain * math.sqrt(3.0 / float(fan[mode]))", "    gain = calculate_gain(nonlinearity)\n    std = gain * math.sqrt(3.0 / float(fan[mode]))")],
  "kaiming-uniform-sqrt6": [(INIT, "math.sqrt(3.0 / float(fan[mode]))", "math.sqrt(6.0 / float(fan[mode]))")],
  "fan-out-uses-shape1": [(INIT, "num_output_fmaps = tensor.shape[0]", "num_output_fmaps = tensor.shape[1]")],
  "leaky-relu-slope-not-squared": [(INIT, "return math.sqrt(2.0 / (1 + negative_slope ** 2))", "return math.sqrt(2.0 / (1 + negative_slope))")],
  "tanh-gain-3-5": [(INIT, "return 5.0 / 3", "return 3.0 / 5")],
  "kaiming-mode-swapped": [(INIT, "    fans_str = ['fan_in', 'fan_out']\n    if mode in fans_str:\n        mode = fans_str.index(mode)\n    else:\n        raise ValueError(f\"invalid {mode=} for kaiming normal\")", "    fans_str = ['fan_out', 'fan_in']\n    if mode in fans_str:\n        mode = fans_str.index(mode)\n    else:\n        raise ValueError(f\"invalid {mode=} for kaiming normal\")")],
  "uniform-lower-bound-zero": [(INIT, "return uniform_(tensor, -a, a)", "return uniform_(tensor, 0, a)")],
  "linear-reset-uses-fan-out": [(LAYERS, "        fan_in, _ = init._calculate_fan_in_and_fan_out(self.weight)\n        std = 1. / math.sqrt(float(fan_in)) if fan_in > 0 else 0", "        _, fan_in = init._calculate_fan_in_and_fan_out(self.weight)\n        std = 1. / math.sqrt(float(fan_in)) if fan_in > 0 else 0")],
  "conv-bias-bound-doubled": [(LAYERS, "            nn.init.uniform_(self.bias, -bound, bound)", "            nn.init.uniform_(self.bias, -2*bound, 2*bound)", "first")],
  "filler-loses-dtype": [(INIT, "tensor.data = np.random.normal(mean, std, tensor.shape).astype(tensor.dtype)", "tensor.data = np.random.normal(mean, std, tensor.shape)")],
  "filler-returns-new-tensor": [(INIT, "    tensor.data = np.ones(tensor.shape).astype(tensor.dtype)\n    return tensor", "    return Tensor(np.ones(tensor.shape).astype(tensor.dtype))")],
  # ---- harmless rewrites
  "harmless-rename-local": [(INIT, "    std = gain * math.sqrt(3.0 / float(fan[mode]))\n    return uniform_(tensor, -std, std)", "    bound = gain * math.sqrt(3.0 / float(fan[mode]))\n    return uniform_(tensor, -bound, bound)")],
  "harmless-reorder": [(INIT, "    num_input_fmaps = tensor.shape[1]\n    num_output_fmaps = tensor.shape[0]", "    num_output_fmaps = tensor.shape[0]\n    num_input_fmaps = tensor.shape[1]")],
 },
}


def sh(cmd, **kw):
    p = subprocess.run(cmd, shell=True, stdout=subprocess.PIPE, stderr=subprocess.STDOUT, text=True, **kw)
    return p.returncode, "\n".join(l for l in p.stdout.splitlines() if "conda.cli" not in l)


def apply(edits):
    for ed in edits:
        if ed[0] == "git-revert":
            rc, out = sh("git -C %s revert --no-commit %s" % (SCRATCH, " ".join(ed[1:])))
            if rc != 0:
                sh("git -C %s revert --abort" % SCRATCH)
                raise SystemExit("git revert does not apply: " + out[-300:])
            continue
        path, old, new = ed[0], ed[1], ed[2]
        which = ed[3] if len(ed) > 3 else 1
        f = os.path.join(SCRATCH, path)
        s = open(f).read()
        n = s.count(old)
        if n == 0 or (isinstance(which, int) and which > 0 and n != which):
            raise SystemExit("edit does not apply (%d occurrences, expected %s): %r" % (n, which, old[:60]))
        if which == "first":
            s = s.replace(old, new, 1)
        elif which == "last":
            k = s.rindex(old)
            s = s[:k] + new + s[k + len(old):]
        else:
            s = s.replace(old, new)
        open(f, "w").write(s)


def main():
    pid = sys.argv[1]
    names = sys.argv[2:] or list(M[pid])
    run_tests = os.environ.get("RUN_TESTS") == "1"
    for name in names:
        sh("git -C %s revert --abort; git -C %s reset -q --hard HEAD && git -C %s clean -fdq" % (SCRATCH, SCRATCH, SCRATCH))
        apply(M[pid][name])
        tests = ""
        if run_tests:
            tf = "tests/test_optimizers.py" if pid == "C08" else "tests/test_initializers.py tests/test_nn_layers.py tests/test_nn_conv.py"
            rc, out = sh("cd %s && /venv/bin/python -m pytest -q -p no:cacheprovider -x %s 2>&1 | tail -1" % (SCRATCH, tf))
            tests = " | repo tests: " + out.strip()[-60:]
        rc, out = sh("VERIF_REPO=%s ./check %s" % (SCRATCH, pid), cwd=ROOT)
        viol = [l for l in out.splitlines() if l.startswith("VIOLATION") or l.startswith("CHECK-ERROR")]
        print("=== %s: exit %d%s" % (name, rc, tests))
        for v in viol:
            print("   ", v)
        try:
            ev = json.load(open(os.path.join(ROOT, "evidence", pid + ".json")))
            for b in ev["coverage"]["broken"]:
                print("    broken:", b["kind"], b["what"], "|", b["detail"][:260].replace("\n", " "))
            for v in viol[:1]:
                if "replay=" in v:
                    rp = v.split("replay=")[1].split()[0]
                    w = json.load(open(os.path.join(ROOT, rp)))
                    if w.get("kind") == "failing-input":
                        print("    witness:", json.dumps(w["input"])[:420])
                        print("    expected:", json.dumps(w["expected"])[:160], "observed:", json.dumps(w["observed"])[:300])
        except Exception as ex:
            print("    (no evidence: %r)" % ex)
        sys.stdout.flush()
    sh("git -C %s revert --abort; git -C %s reset -q --hard HEAD && git -C %s clean -fdq" % (SCRATCH, SCRATCH, SCRATCH))


if __name__ == "__main__":
    main()
