#!/venv/bin/python
"""Development runner for the parts of checks/kernels_scalar.py that belong to checks assembled elsewhere
(C01, C02):   tools/f1_run_part.py C01|C02|C09 [--tier thorough] [--replay path]
Evidence goes to evidence/F1<part>.json, replays to replays/F1<part>/."""
import argparse, json, os, sys
ROOT = os.path.dirname(os.path.dirname(os.path.abspath(__file__)))
os.chdir(ROOT); sys.path.insert(0, ROOT)
os.environ.setdefault("PYTHONHASHSEED", "0"); os.environ.setdefault("OMP_NUM_THREADS", "1")
from lib import common
from checks import kernels_scalar

ap = argparse.ArgumentParser()
ap.add_argument("part"); ap.add_argument("--tier", default="quick"); ap.add_argument("--replay", default=None)
a = ap.parse_args()
part = a.part.upper()
ctx = common.Ctx("F1" + part, a.tier, int(os.environ.get("VERIF_SEED", "20260930")), replay=a.replay)
if a.replay:
    sys.exit(kernels_scalar.replay_witness(ctx, json.load(open(a.replay))))
kernels_scalar.run_part(ctx, "Props/%s_scalar.v" % part, part=part)
sys.exit(ctx.finish())
