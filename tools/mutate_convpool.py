#!/venv/bin/python
"""Mutation experiments for work package H (conv / pool / unfold / fold; properties C06, C02 part, C14 part).

  tools/mutate_convpool.py tests  [ids...]   phase 1: apply each mutation in its own scratch worktree of /repo and run every conv / pool / fold / unfold / leaky_relu
                                             test of /repo's suite (test_layers, test_ops, test_engine, test_activations; -k filter) -> work/mutations/<id>.tests.json
  tools/mutate_convpool.py checks [ids...]   phase 2: run ./check C06, the C02 part and the C14 part against each mutated tree (serially)
                                             -> work/mutations/<id>.checks.json
  tools/mutate_convpool.py table             print the experiment table (markdown)
Never touches /repo itself: worktrees live under /var/tmp/wp/H-mut/<id> and are removed afterwards.
"""
import json, os, subprocess, sys, concurrent.futures as cf

ROOT = os.path.dirname(os.path.dirname(os.path.abspath(__file__)))
OUT = os.path.join(ROOT, "work", "mutations")
BASE = os.environ.get("MUT_BASE", "/var/tmp/wp/H-mut")
TESTS = ["tests/test_layers.py tests/test_ops.py tests/test_engine.py tests/test_activations.py -k 'conv or pool or fold or leaky'"]

CPU, CT, FN, LY = "synapgrad/cpu_ops.py", "synapgrad/conv_tools.py", "synapgrad/nn/functional.py", "synapgrad/nn/layers.py"

# id -> (description, kind, [(file, old, new, count)] | ('revert', sha))
M = {
 "R932bf4a": ("revert fix 932bf4a: padding='same' = dilation*(kernel-1)/2 per axis", "revert", ("revert", "932bf4a")),
 "Rddc01da": ("revert fix ddc01da: int kernel_size in im2col_fast / F.unfold", "revert", ("revert", "ddc01da")),
 "Rfix1": ("without the pending fix1 (fold / col2im validate the shape of their argument): plain /repo HEAD", "revert", ("nopatch",)),
 "R7a21149": ("revert fix 7a21149: leaky_relu forward for any slope", "revert", ("revert", "7a21149")),
 "m03": ("conv1d_backward: moveaxis(a_grad_windows, 0, 1) -> destination 2", "mutation",
         [(CPU, "    a_grad_windows = np.moveaxis(a_grad_windows, source=0, destination=1)", "    a_grad_windows = np.moveaxis(a_grad_windows, source=0, destination=2)", 1)]),
 "m02": ("conv1d_backward: bias gradient sums axes (0,1) instead of (0,2)", "mutation",
         [(CPU, "        bias_grad = grad.sum(axis=(0,2))\n", "        bias_grad = grad.sum(axis=(0,1))\n", 1)]),
 "m01": ("conv2d_backward: weight gradient with kH/kW swapped (swapaxes then reshape to weight.shape)", "mutation",
         [(CPU, "    weight_grad = np.tensordot(grad, windows, axes=[(2,3,0), (0,1,2)])", "    weight_grad = np.tensordot(grad, windows, axes=[(2,3,0), (0,1,2)]).swapaxes(-1,-2).reshape(weight.shape)", 1)]),
 "m04": ("max_pool1d/2d_forward: pad value 0 instead of -inf", "mutation",
         [(CPU, "pad_value=-np.inf)", "pad_value=0)", 2)]),
 "m05": ("avg_pool2d_forward: divide by the number of valid (unpadded) positions", "mutation",
         [(CPU, "    averaged_windows = windows.reshape(*windows.shape[:-2], -1).mean(axis=-1).transpose(2, 3, 0, 1)",
           "    ones = extract_windows(np.ones_like(a), kernel_size, stride, padding, dilation, pad_value=0)\n"
           "    averaged_windows = (windows.reshape(*windows.shape[:-2], -1).sum(axis=-1) / np.maximum(ones.reshape(*ones.shape[:-2], -1).sum(axis=-1), 1)).transpose(2, 3, 0, 1)", 1)]),
 "m06": ("default pooling stride 1 instead of kernel_size (functional and layers)", "mutation",
         [(FN, "    if stride is None: stride = kernel_size\n", "    if stride is None: stride = 1\n", 4),
          (LY, "        if stride is None: stride = kernel_size\n", "        if stride is None: stride = 1\n", 4)]),
 "m07": ("place_windows ignores dilation", "mutation",
         [(CT, "            slice(i * s, i * s + w * d, d)", "            slice(i * s, i * s + w, 1)", 1)]),
 "m08": ("extract_windows pads one side only (2p, 0)", "mutation",
         [(CT, "        a, ((0, 0), (0, 0)) + tuple((padding[d], padding[d]) for d in range(dims)),", "        a, ((0, 0), (0, 0)) + tuple((2 * padding[d], 0) for d in range(dims)),", 1)]),
 "m09": ("nn.Conv2d: padding broadcast swapped (W, H)", "mutation",
         [(LY, "        padding = np.broadcast_to(padding, 2)\n        \n        self.in_channels = in_channels", "        padding = np.broadcast_to(padding, 2)[::-1]\n        \n        self.in_channels = in_channels", 1)]),
 "m10": ("get_conv2d_output_size: W axis uses dilation[0]", "mutation",
         [(CT, "    lW = int(np.floor((W_with_pad - dilation[1] * (kernel_size[1] - 1) - 1) / stride[1] + 1))", "    lW = int(np.floor((W_with_pad - dilation[0] * (kernel_size[1] - 1) - 1) / stride[1] + 1))", 2)]),
 "m11": ("extract_windows: dilation applied to the strides in reversed axis order", "mutation",
         [(CT, "    win_stride[-len(step) :] *= dilation\n", "    win_stride[-len(step) :] *= dilation[::-1]\n", 1)]),
 "m12": ("output size: round instead of floor", "mutation",
         [(CT, "int(np.floor(", "int(np.round(", 7)]),
 "m14": ("avg_pool2d_backward divides by kH*kH", "mutation",
         [(CPU, "    windows_grad = mean_backward(grad, windows.reshape(*windows.shape[:-2], -1).shape, -1, False)",
           "    windows_grad = mean_backward(grad, windows.shape[:-2] + (windows.shape[-2] ** 2,), -1, False)[..., :windows.shape[-2] * windows.shape[-1]] if windows.shape[-2] >= windows.shape[-1] else mean_backward(grad, windows.reshape(*windows.shape[:-2], -1).shape, -1, False) * (windows.shape[-1] / windows.shape[-2])", 1)]),
 "m17": ("conv2d_forward ignores dilation (backward untouched)", "mutation",
         [(CPU, "    kernel_size = (kH, kW)\n    \n    windows = extract_windows(a, kernel_size, stride, padding, dilation)\n\n    conv_out",
           "    kernel_size = (kH, kW)\n    \n    windows = extract_windows(a, kernel_size, stride, padding, 1)\n\n    conv_out", 1)]),
 "m19": ("nn.MaxPool2d: padding broadcast swapped (W, H)", "mutation",
         [(LY, "        else: stride = np.broadcast_to(stride, 2)\n        padding = np.broadcast_to(padding, 2)\n", "        else: stride = np.broadcast_to(stride, 2)\n        padding = np.broadcast_to(padding, 2)[::-1]\n", 2)]),
 "m20": ("nn.AvgPool2d / MaxPool2d: default stride = kernel size reversed", "mutation",
         [(LY, "        if stride is None: stride = kernel_size\n        else: stride = np.broadcast_to(stride, 2)", "        if stride is None: stride = kernel_size[::-1]\n        else: stride = np.broadcast_to(stride, 2)", 2)]),
 "m21": ("conv2d_forward: bias added along the wrong axis (reshape(1,-1,1,1))", "mutation",
         [(CPU, "    if bias is not None: conv_out += bias.reshape(-1, 1, 1, 1)", "    if bias is not None: conv_out += bias.reshape(1, -1, 1, 1) if bias.size == conv_out.shape[1] else bias.reshape(-1, 1, 1, 1)", 1)]),
 "m22": ("col2im_fast (fold / unfold backward): moveaxis(a, 2, 0) -> a.transpose(2, 1, 0)", "mutation",
         [(CT, "        windows = np.moveaxis(a, 2, 0).reshape(lH, lW, N, C, kernel_size[0], kernel_size[1])", "        windows = a.transpose(2, 1, 0).reshape(lH, lW, N, C, kernel_size[0], kernel_size[1]) if a.shape[0] == a.shape[1] else np.moveaxis(a, 2, 0).reshape(lH, lW, N, C, kernel_size[0], kernel_size[1])", 1)]),
 "n3": ("place_windows: dilation taken in reversed axis order", "mutation",
        [(CT, "            for i, w, s, d in zip(ind, kernel_size, step, dilation)", "            for i, w, s, d in zip(ind, kernel_size, step, dilation[::-1])", 1)]),
 "n4": ("extract_windows: stride broadcast in reversed axis order", "mutation",
        [(CT, "    step = np.broadcast_to(step, dims)\n    padding = np.broadcast_to(padding, dims)\n    \n    if dims == 1: sizes", "    step = np.broadcast_to(step, dims)[::-1]\n    padding = np.broadcast_to(padding, dims)\n    \n    if dims == 1: sizes", 1)]),
 "n5": ("get_conv2d_output_size: W axis padded with padding[0]", "mutation",
        [(CT, "    W_with_pad = W + 2 * padding[1]\n    \n    lH", "    W_with_pad = W + 2 * padding[0]\n    \n    lH", 1)]),
 "n8": ("conv1d_forward ignores dilation", "mutation",
        [(CPU, "    kernel_size = kW\n    \n    windows = extract_windows(a, kernel_size, stride, padding, dilation)\n    \n    conv_out", "    kernel_size = kW\n    \n    windows = extract_windows(a, kernel_size, stride, padding, 1)\n    \n    conv_out", 1)]),
 "n12": ("F.unfold drops its pad_value argument", "mutation",
         [(FN, "            conv_tools.im2col_fast(x.data, kernel_size, dilation, stride, padding, pad_value, as_unfold=True)", "            conv_tools.im2col_fast(x.data, kernel_size, dilation, stride, padding, as_unfold=True)", 1)]),
 "n17": ("nn.Unfold.forward passes stride and dilation swapped", "mutation",
         [(LY, "        return F.unfold(x, kernel_size=self.kernel_size, stride=self.stride, padding=self.padding,\n                       dilation=self.dilation, pad_value=self.pad_value)",
           "        return F.unfold(x, kernel_size=self.kernel_size, stride=self.dilation, padding=self.padding,\n                       dilation=self.stride, pad_value=self.pad_value)", 1)]),
 "h13": ("HARMLESS by the property: max pooling backward routes a tie to the LAST maximum (still a subgradient)", "harmless",
         [(CPU, "    windows_grad = max_backward(grad, windows.reshape(*windows.shape[:-2], -1), -1, False)",
           "    _wf = windows.reshape(*windows.shape[:-2], -1)\n    windows_grad = max_backward(grad, _wf, -1, False, max_indices=(_wf.shape[-1] - 1) - np.argmax(_wf[..., ::-1], axis=-1, keepdims=True))", 1)]),
 "h1": ("HARMLESS: rename local conv_out -> acc in conv2d_forward", "harmless",
        [(CPU, "    conv_out = np.tensordot(weight, windows, axes=[(1,2,3), (3,4,5)])\n    if bias is not None: conv_out += bias.reshape(-1, 1, 1, 1)\n    out = np.moveaxis(conv_out, source=-1, destination=0)",
          "    acc = np.tensordot(weight, windows, axes=[(1,2,3), (3,4,5)])\n    if bias is not None: acc += bias.reshape(-1, 1, 1, 1)\n    out = np.moveaxis(acc, source=-1, destination=0)", 1)]),
 "h2": ("HARMLESS: same contraction with the axes listed in another order (weight gradient), bias gradient summed in two steps", "harmless",
        [(CPU, "    weight_grad = np.tensordot(grad, windows, axes=[(2,3,0), (0,1,2)])", "    weight_grad = np.tensordot(grad, windows, axes=[(0,3,2), (2,1,0)])", 1),
         (CPU, "        bias_grad = grad.sum(axis=(0,2,3))", "        bias_grad = grad.sum(axis=(2,3)).sum(axis=0)", 1)]),
}


def sh(cmd, cwd=None, env=None, timeout=3600):
    e = dict(os.environ)
    if env:
        e.update(env)
    p = subprocess.run(cmd, shell=True, cwd=cwd, env=e, stdout=subprocess.PIPE, stderr=subprocess.STDOUT, text=True, timeout=timeout)
    return p.returncode, "\n".join(l for l in p.stdout.splitlines() if "conda.cli" not in l)


def tree(mid):
    return os.path.join(BASE, mid)


def make_tree(mid):
    t = tree(mid)
    sh("git -C /repo worktree remove --force %s" % t)
    os.makedirs(BASE, exist_ok=True)
    rc, out = sh("git -C /repo worktree add --detach %s HEAD" % t)
    assert rc == 0, out
    desc, kind, spec = M[mid]
    pre = os.environ.get("MUT_PREPATCH")       # a pending fix (diff against /repo HEAD) every experiment tree starts from
    if isinstance(spec, tuple) and spec[0] == "nopatch":
        return t
    if isinstance(spec, tuple) and spec[0] == "revert":
        rc, out = sh("git revert --no-commit %s" % spec[1], cwd=t)
        assert rc == 0, out
    if pre:
        rc, out = sh("git apply %s" % pre, cwd=t)
        assert rc == 0, out
    if not isinstance(spec, tuple):
        for (f, old, new, count) in spec:
            p = os.path.join(t, f)
            s = open(p).read()
            assert s.count(old) == count, (mid, f, s.count(old), count)
            open(p, "w").write(s.replace(old, new))
    return t


def drop_tree(mid):
    sh("git -C /repo worktree remove --force %s" % tree(mid))


def run_tests(mid):
    t = make_tree(mid)
    res = {}
    with cf.ThreadPoolExecutor(1) as ex:
        futs = {f: ex.submit(sh, "/venv/bin/python -m pytest -q -p no:cacheprovider --timeout=900 %s 2>&1 | tail -4" % f, t) for f in TESTS}
        for f, fu in futs.items():
            rc, out = fu.result()
            last = out.strip().splitlines()[-1] if out.strip() else ""
            res[f] = last
    green = all((" failed" not in v and "error" not in v.lower()) for v in res.values())
    os.makedirs(OUT, exist_ok=True)
    json.dump({"id": mid, "description": M[mid][0], "kind": M[mid][1], "tests": res, "green": green}, open(os.path.join(OUT, mid + ".tests.json"), "w"), indent=1)
    print(mid, "GREEN" if green else "RED", res, flush=True)
    return green


def run_checks(mid):
    t = make_tree(mid)
    res = {}
    for name, cmd in (("C06", "./check C06"), ("C02", "/venv/bin/python tools/check_part.py C02 ops_convpool"), ("C14", "/venv/bin/python tools/check_part.py C14 ops_convpool")):
        rc, out = sh(cmd, cwd=ROOT, env={"VERIF_REPO": t})
        lines = [l for l in out.splitlines() if l.startswith("VIOLATION") or l.startswith("KNOWN-FINDING") or l.startswith("CHECK-ERROR")]
        wit = None
        ev = None
        try:
            ev = json.load(open(os.path.join(ROOT, "evidence", name + ".json")))
            broken = [b["what"] for b in ev["coverage"]["broken"]]
        except Exception:
            broken = []
        for l in lines:
            if l.startswith("VIOLATION") and "replay=" in l:
                path = l.split("replay=")[1].split()[0]
                try:
                    w = json.load(open(os.path.join(ROOT, path)))
                    wit = {"site": w.get("site"), "class": w.get("class"), "note": w.get("note"), "input": json.dumps(w.get("input"))[:300], "kind": w.get("kind")}
                except Exception:
                    pass
                break
        res[name] = {"rc": rc, "lines": lines, "broken": broken, "first_witness": wit}
        print(mid, name, "rc=%d" % rc, lines[:2], flush=True)
    json.dump({"id": mid, "description": M[mid][0], "kind": M[mid][1], "checks": res}, open(os.path.join(OUT, mid + ".checks.json"), "w"), indent=1)
    drop_tree(mid)


def table():
    print("| id | change | /repo conv/pool/fold/leaky tests | C06 | C02 part | C14 part |")
    print("|---|---|---|---|---|---|")
    for mid in M:
        tp, cp = os.path.join(OUT, mid + ".tests.json"), os.path.join(OUT, mid + ".checks.json")
        t = json.load(open(tp)) if os.path.exists(tp) else None
        c = json.load(open(cp)) if os.path.exists(cp) else None
        def cell(r):
            if r is None:
                return "-"
            if r["rc"] == 0:
                return "holds"
            w = r.get("first_witness")
            if r["rc"] == 1:
                return "VIOLATION" + (" (%s)" % (w["note"] or w["kind"]) if w else "") + ("; broken: " + "; ".join(r["broken"])[:80] if r["broken"] else "")
            return "rc=%d" % r["rc"]
        print("| %s | %s | %s | %s | %s | %s |" % (mid, M[mid][0], "-" if t is None else ("green" if t["green"] else "RED"),
                                                 cell(c["checks"].get("C06")) if c else "-", cell(c["checks"].get("C02")) if c else "-", cell(c["checks"].get("C14")) if c else "-"))


if __name__ == "__main__":
    mode = sys.argv[1]
    ids = sys.argv[2:] or list(M)
    if mode == "tests":
        with cf.ThreadPoolExecutor(6) as ex:
            list(ex.map(run_tests, ids))
        for mid in ids:
            drop_tree(mid)
    elif mode == "checks":
        for mid in ids:
            run_checks(mid)
    elif mode == "table":
        table()
