#!/venv/bin/python
"""Mutation rehearsal: run a property check against a changed copy of /repo and report whether it fires.

  tools/rehearse.py revert <commit> <PID> [<PID>...]      re-introduce a repaired defect (git revert --no-commit)
  tools/rehearse.py patch <file.diff> <PID> [<PID>...]    apply a seeded change
  tools/rehearse.py seeded                                 run every seeded/<id>/patch.diff against its property

The changed tree is a scratch git worktree of /repo under /var/tmp/vt (removed afterwards); the check runs with
VERIF_REPO pointing at it, in this /verif (so run rehearsals one at a time), and a final clean run restores Gen/.
"""
import json, os, subprocess, sys, time, shutil

ROOT = os.path.dirname(os.path.dirname(os.path.abspath(__file__)))
SCR = "/var/tmp/vt"


def sh(cmd, **kw):
    p = subprocess.run(cmd, shell=True, stdout=subprocess.PIPE, stderr=subprocess.STDOUT, text=True, **kw)
    return p.returncode, "\n".join(l for l in p.stdout.splitlines() if "conda.cli" not in l)


def with_tree(prepare, pids, label):
    os.makedirs(SCR, exist_ok=True)
    wt = os.path.join(SCR, "reh-%d" % os.getpid())
    sh("git -C /repo worktree remove --force %s" % wt)
    rc, out = sh("git -C /repo worktree add --detach %s HEAD" % wt)
    assert rc == 0, out
    res = []
    try:
        rc, out = prepare(wt)
        if rc != 0:
            print("PREPARE FAILED", label, out[-500:])
            return [(label, p, "prepare-failed", "") for p in pids]
        for pid in pids:
            t = time.time()
            rc, out = sh("./check %s --tier quick" % pid, cwd=ROOT, env=dict(os.environ, VERIF_REPO=wt))
            viol = [l for l in out.splitlines() if l.startswith("VIOLATION")]
            kind = "MISSED" if rc == 0 else ("caught" if viol and not all("no-failing-input-found" in v for v in viol) else ("caught-no-input" if viol else "check-error rc=%d" % rc))
            print("%-40s %s %-16s %5.0fs %s" % (label[:40], pid, kind, time.time() - t, viol[0] if viol else ""), flush=True)
            res.append((label, pid, kind, viol[0] if viol else out[-300:]))
    finally:
        sh("git -C /repo worktree remove --force %s" % wt)
        shutil.rmtree(wt, ignore_errors=True)
    return res


def main():
    a = sys.argv[1:]
    results = []
    if a[0] == "revert":
        commit, pids = a[1], a[2:]
        results += with_tree(lambda wt: sh("git -C %s revert --no-commit %s" % (wt, commit)), pids, "revert " + commit)
    elif a[0] == "patch":
        f, pids = os.path.abspath(a[1]), a[2:]
        results += with_tree(lambda wt: sh("git -C %s apply %s" % (wt, f)), pids, os.path.basename(os.path.dirname(f)) + "/" + os.path.basename(f))
    elif a[0] == "seeded":
        only = a[1:]
        d = os.path.join(ROOT, "seeded")
        for name in sorted(os.listdir(d)):
            meta = os.path.join(d, name, "meta.json")
            if not os.path.exists(meta):
                continue
            m = json.load(open(meta))
            if only and m["property"] not in only and name not in only:
                continue
            f = os.path.join(d, name, "patch.diff")
            results += with_tree(lambda wt, f=f: sh("git -C %s apply %s" % (wt, f)), [m["property"]], "seeded/" + name)
    elif a[0] == "fixes":
        only = a[1:]
        kf = json.load(open(os.path.join(ROOT, "known_findings.json")))["findings"]
        for k in kf:
            if k["status"] == "fixed" and (not only or k["property"] in only):
                results += with_tree(lambda wt, c=k["commit"]: sh("git -C %s revert --no-commit %s" % (wt, c)), [k["property"]], "revert %s (%s)" % (k["commit"], k["id"]))
    # restore Gen/ for the unchanged tree
    pids = sorted(set(r[1] for r in results))
    out = os.path.join(ROOT, "work", "rehearsal_%d.json" % int(time.time()))
    os.makedirs(os.path.dirname(out), exist_ok=True)
    json.dump(results, open(out, "w"), indent=1)
    sh("/venv/bin/python -m lib.py2coq.main all", cwd=ROOT)
    sh("git checkout -- evidence/", cwd=ROOT)      # evidence written by runs on changed trees is not evidence
    print("results ->", out)


if __name__ == "__main__":
    main()
