#!/venv/bin/python
"""Regenerate MANIFEST.json from the table below (kept in one place so that it is always valid)."""
import json, os
ROOT = os.path.dirname(os.path.dirname(os.path.abspath(__file__)))

NOTE_COMMON = ("Trusted: Coq 8.16.1 kernel (vm_compute used; no native_compute); the hand-written Coq model is tied to the code by the "
               "correspondence run of this check, the generated definitions by the fail-closed translator lib/py2coq and its self-check; "
               "CPython/NumPy semantics of the modelled fragment. Axioms per theorem are listed in the evidence file (Print Assumptions).")

def load_checks():
    res = {}
    d = os.path.join(ROOT, "checks")
    for f in sorted(os.listdir(d)):
        if f.endswith(".meta.json"):
            m = json.load(open(os.path.join(d, f)))
            res[m["property_id"]] = m
    return res


CHECKS = load_checks()

NOT_YET = "machinery for this property is not built yet at this commit (work in progress, see DESIGN.md section 11); not claimed"


def main():
    props = [json.loads(l) for l in open(os.path.join(ROOT, "properties.jsonl"))]
    checks = []
    na = []
    for p in props:
        pid = p["id"]
        if pid in CHECKS:
            c = CHECKS[pid]
            checks.append({
                "property_id": pid,
                "quick_cmd": "./check %s --tier quick" % pid,
                "thorough_cmd": "./check %s --tier thorough" % pid,
                "evidence_file": "evidence/%s.json" % pid,
                "replay_cmd_template": "./check %s --replay {path}" % pid,
                "engine": "coq",
                "level_claimed": {"category": "proof", "text": c["text"], "design_ref": c["design"]},
                "level_note": c.get("note", NOTE_COMMON),
                "technique": c["technique"],
            })
        else:
            na.append({"property_id": pid, "reason": NOT_YET})
    m = {
        "version": 1,
        "setup_cmd": "./setup.sh",
        "hooks": {"guard": "SYNAPGRAD_VERIF", "enable": "none needed: all observations are made from outside the package by the harness (lib/impl.py)",
                  "baseline_off_cmd": "cd /repo && /venv/bin/python -m pytest -ra -q -p no:cacheprovider --timeout=900 --continue-on-collection-errors",
                  "source_commits": [], "add_only": True},
        "engines": [{"name": "coq", "path": "coq/", "serves_properties": sorted(CHECKS),
                     "kind_free_text": "Coq 8.16.1 development (models, proofs, property files) + Python translator/correspondence harness"}],
        "checks": checks,
        "notes": "fix: commits in /repo are listed in known_findings.json (status fixed). See DESIGN.md.",
        "not_applicable": na,
    }
    json.dump(m, open(os.path.join(ROOT, "MANIFEST.json"), "w"), indent=1)
    print("MANIFEST.json: %d checks, %d not claimed" % (len(checks), len(na)))


if __name__ == "__main__":
    main()
