#!/bin/bash
# thorough tier of every check, spread over N scratch worktrees of /verif (commit first); one line per check
cd "$(dirname "$0")/.."
ROOT=$(pwd)
N=${1:-5}; SEED=${2:-20260930}
PIDS=(C01 C02 C14 C05 C06 C16 C09 C08 C12 C17 C03 C04 C07 C10 C11 C13 C15 C18 C19 C20)
for k in $(seq 0 $((N-1))); do
  wt=/var/tmp/vt/vth-$k
  git worktree remove --force $wt 2>/dev/null; rm -rf $wt
  git worktree add --detach $wt HEAD >/dev/null 2>&1
  rsync -a --exclude Corr --exclude .lock coq/ $wt/coq/
  mkdir -p $wt/work
  (
    cd $wt
    i=0
    for p in "${PIDS[@]}"; do
      if [ $((i % N)) -eq $k ]; then
        s=$(date +%s)
        VERIF_SEED=$SEED ./check $p --tier thorough > $ROOT/work/allthorough_${SEED}_$p.log 2>&1
        rc=$?
        echo "thorough seed=$SEED $p rc=$rc $(( $(date +%s) - s ))s $(grep -c '^VIOLATION' $ROOT/work/allthorough_${SEED}_$p.log) violations"
        cp evidence/$p.json $ROOT/work/evidence_thorough_$p.json
      fi
      i=$((i+1))
    done
  ) &
done
wait
for k in $(seq 0 $((N-1))); do git worktree remove --force /var/tmp/vt/vth-$k; rm -rf /var/tmp/vt/vth-$k; done
git worktree prune
