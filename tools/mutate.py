#!/venv/bin/python
"""Mutation experiment driver for work package G:  tools/mutate.py <PROPERTY> <scratch-repo> [names...] [--tests]

Applies each named textual mutation to the scratch worktree of /repo, runs `./check <PROPERTY>` with VERIF_REPO pointing
at it, prints exit code / VIOLATION lines / first witness, optionally the status of /repo's own tests, and resets the tree."""
import json, os, subprocess, sys

ROOT = os.path.dirname(os.path.dirname(os.path.abspath(__file__)))

SEED_OLD = """        if self._grad is None or not self.is_leaf:
            self.zero_()
        self._grad += grad.data # own buffer: never alias (or take the dtype of) the caller's gradient
"""
M = {
  "C11": {
    "fix-d4325f2-seed-alias": ("synapgrad/tensor.py", SEED_OLD, "        self.grad = grad\n", "tests/test_engine.py"),
    "fix-d4325f2-full-revert": ("synapgrad/tensor.py", SEED_OLD, "        self.grad = grad\n", "tests/test_engine.py",
                                [("synapgrad/tensor.py", "if child.requires_grad and (child._grad is None or not child.is_leaf):", "if child.requires_grad and child._grad is None:")]),
    "relu_backward-inplace-on-upstream": ("synapgrad/cpu_ops.py", "    return grad * (a > 0)\n", "    grad *= (a > 0)\n    return grad\n", "tests/test_activations.py"),
    "cross_entropy-shift-logits-inplace": ("synapgrad/cpu_ops.py", "    dlogits = softmax_forward(y_pred, 1)\n",
                                          "    dlogits = y_pred\n    dlogits -= dlogits.max(axis=1, keepdims=True)\n    dlogits = softmax_forward(dlogits, 1)\n", "tests/test_losses.py"),
    "sigmoid_forward-out=a": ("synapgrad/cpu_ops.py", "    return 1/(1 + np.exp(-a))\n", "    e = np.negative(a, out=a)\n    e = np.exp(e, out=e)\n    return 1/(1 + e)\n", "tests/test_activations.py"),
    "clone_forward-no-copy": ("synapgrad/cpu_ops.py", "    return a.copy()\n", "    return a\n", "tests/test_ops.py"),
    "detach-no-copy": ("synapgrad/tensor.py", "return Tensor(self.data.copy(), requires_grad=False", "return Tensor(self.data, requires_grad=False", "tests/test_engine.py"),
    "neg_backward-out=grad": ("synapgrad/cpu_ops.py", "    return -grad\n", "    return np.negative(grad, out=grad)\n", "tests/test_ops.py"),
    "conv-bias-inplace-on-bias-view": ("synapgrad/cpu_ops.py", "    if bias is not None: conv_out += bias.reshape(-1, 1, 1, 1)\n",
                                      "    if bias is not None:\n        b = bias.reshape(-1, 1, 1, 1)\n        b += conv_out.mean() * 0 + 1\n        conv_out += b\n        b -= 1\n", "tests/test_layers.py"),
    "max_backward-mask=a": ("synapgrad/cpu_ops.py", "def max_backward(grad, a, axis, keepdims, max_indices=None):\n    # Create mask of ones and zeros, where the maximum value is 1 \n    mask = np.zeros_like(a)\n",
                            "def max_backward(grad, a, axis, keepdims, max_indices=None):\n    # Create mask of ones and zeros, where the maximum value is 1 \n    if max_indices is None:\n        max_indices = np.argmax(a, axis=axis, keepdims=True)\n    mask = a\n    mask *= 0\n", "tests/test_ops.py"),
    "first_extremum_mask-mask-is-view-of-a": ("synapgrad/cpu_ops.py", "    flat_mask = np.zeros_like(flat)\n", "    flat_mask = flat\n    flat_mask *= 0\n", "tests/test_ops.py"),
    "first_extremum_mask-lambda-arg_fn": ("synapgrad/cpu_ops.py", "        mask = first_extremum_mask(a, axis, np.argmax)\n",
                                          "        mask = first_extremum_mask(a, axis, lambda f, axis, keepdims: np.argmax(f, axis=axis, keepdims=keepdims))\n", "tests/test_ops.py"),
    "matmul_backward-scale-grad-inplace": ("synapgrad/cpu_ops.py", "    if b.ndim == 1: grad = grad[..., np.newaxis]\n", "    if b.ndim == 1: grad = grad[..., np.newaxis]\n    grad *= 1.0\n    grad += 0.5 * 0\n    np.negative(grad, out=grad); np.negative(grad, out=grad)\n", "tests/test_ops.py"),
    "squeeze_forward-dims-sorted-inplace-on-a": ("synapgrad/cpu_ops.py", "    if axis is None:\n        return np.squeeze(a)\n", "    if axis is None:\n        a += 0\n        return np.squeeze(a)\n", "tests/test_ops.py"),
    "batch_norm-x_norm=x-inplace": ("synapgrad/cpu_ops.py", "    x_norm = (x - mean.reshape(keepdims_shape)) / std.reshape(keepdims_shape)\n",
                                   "    x_norm = x\n    x_norm -= mean.reshape(keepdims_shape)\n    x_norm /= std.reshape(keepdims_shape)\n", "tests/test_layers.py"),
    "sgd-weight-decay-into-grad-buffer": ("synapgrad/optim/optimizers.py", "                    grad = grad + self.weight_decay*p.data\n                \n                # Momentum",
                                         "                    grad += self.weight_decay*p.data\n                \n                # Momentum", "tests/test_optimizers.py"),
    "place_windows-accumulate-into-input": ("synapgrad/conv_tools.py", "        output[(..., *slices)] += windows[(slice(None), *ind, ...)]\n",
                                           "        w = windows[(slice(None), *ind, ...)]\n        w += output[(..., *slices)]\n        output[(..., *slices)] = w\n", "tests/test_layers.py"),
    "harmless-rename-local": ("synapgrad/cpu_ops.py", "    conv_out = np.tensordot(weight, windows, axes=[(1,2), (2,3)])\n    if bias is not None: conv_out += bias.reshape(-1, 1, 1)\n    out = np.moveaxis(conv_out, source=-1, destination=0)\n",
                              "    acc = np.tensordot(weight, windows, axes=[(1,2), (2,3)])\n    if bias is not None: acc += bias.reshape(-1, 1, 1)\n    out = np.moveaxis(acc, source=-1, destination=0)\n", "tests/test_layers.py"),
    "harmless-reorder-statements": ("synapgrad/cpu_ops.py", "    grad_a = grad * b\n    grad_b = grad * a\n", "    grad_b = grad * a\n    grad_a = grad * b\n", "tests/test_ops.py"),
  },
}


def sh(cmd, env=None, timeout=1800):
    e = dict(os.environ); e.update(env or {})
    p = subprocess.run(cmd, shell=True, env=e, stdout=subprocess.PIPE, stderr=subprocess.STDOUT, text=True, timeout=timeout)
    return p.returncode, "\n".join(l for l in p.stdout.splitlines() if "conda.cli" not in l)


def main():
    argv = [a for a in sys.argv[1:] if not a.startswith("--")]
    tests = "--tests" in sys.argv
    pid, repo = argv[0], argv[1]
    names = argv[2:] or list(M[pid])
    for name in names:
        rel, old, new, tfile = M[pid][name][:4]
        more = M[pid][name][4] if len(M[pid][name]) > 4 else []
        sh("git -C %s checkout -- . && git -C %s reset -q --hard HEAD" % (repo, repo))
        path = os.path.join(repo, rel)
        src = open(path).read()
        if src.count(old) != 1:
            print("== %s: pattern occurs %d times, SKIPPED" % (name, src.count(old))); continue
        open(path, "w").write(src.replace(old, new))
        for rel2, old2, new2 in more:
            p2 = os.path.join(repo, rel2); s2 = open(p2).read()
            assert s2.count(old2) == 1, (name, rel2)
            open(p2, "w").write(s2.replace(old2, new2))
        rc, out = sh("cd %s && ./check %s" % (ROOT, pid), env={"VERIF_REPO": repo})
        viol = [l for l in out.splitlines() if l.startswith(("VIOLATION", "KNOWN-FINDING", "CHECK-ERROR"))]
        summ = [l for l in out.splitlines() if "done:" in l or "BUILD FAILED" in l or "TIE BROKEN" in l or "failing the effect" in l or "UNDOCUMENTED" in l or "TRANSLATOR" in l]
        print("== %s: exit %d" % (name, rc))
        for l in viol + summ:
            print("   ", l[:260])
        wp = os.path.join(ROOT, "replays", pid, "witness_0.json")
        if rc == 1 and any("witness_0" in v for v in viol) and os.path.exists(wp):
            w = json.load(open(wp))
            print("    witness:", json.dumps({k: w[k] for k in ("site", "class", "input", "observed")}, default=str)[:420])
            rc2, out2 = sh("cd %s && ./check %s --replay replays/%s/witness_0.json" % (ROOT, pid, pid), env={"VERIF_REPO": repo})
            print("    replay: exit %d %s" % (rc2, out2.strip().splitlines()[-1][:200] if out2.strip() else ""))
        if tests:
            rc3, out3 = sh("cd %s && /venv/bin/python -m pytest -q -p no:cacheprovider -x %s 2>&1 | tail -3" % (repo, tfile), timeout=1200)
            print("    repo tests (%s):" % tfile, out3.strip().splitlines()[-1][:160] if out3.strip() else "?")
    sh("git -C %s checkout -- . && git -C %s reset -q --hard HEAD" % (repo, repo))


if __name__ == "__main__":
    main()
