#!/venv/bin/python
"""Run mutation rehearsals in parallel: N scratch worktrees of /verif (each with its own Coq build directory), the seeded
changes (and/or fix reverts) partitioned over them.  Results are copied into work/rehearsal_par_<ts>_<k>.json here.

  tools/rehearse_par.py <N> seeded [<name-or-PID> ...]
  tools/rehearse_par.py <N> fixes  [<PID> ...]
  tools/rehearse_par.py <N> patchdir <dir> [<PID> ...]     every <dir>/<name>/patch.diff against the given (default: all) checks

The worktrees live under /var/tmp/vt/vpar-<k> and are removed afterwards.  Uncommitted changes of /verif are NOT seen:
commit first.
"""
import json, os, shutil, subprocess, sys, time

ROOT = os.path.dirname(os.path.dirname(os.path.abspath(__file__)))
SCR = "/var/tmp/vt"


def sh(cmd, **kw):
    return subprocess.run(cmd, shell=True, stdout=subprocess.PIPE, stderr=subprocess.STDOUT, text=True, **kw)


def main():
    n = int(sys.argv[1]); mode = sys.argv[2]; only = sys.argv[3:]
    if mode == "patchdir":
        return patchdir(n, os.path.abspath(only[0]), only[1:] or ["C%02d" % i for i in range(1, 21)])
    if mode == "seeded":
        items = []
        for name in sorted(os.listdir(os.path.join(ROOT, "seeded"))):
            mf = os.path.join(ROOT, "seeded", name, "meta.json")
            if not os.path.exists(mf):
                continue
            m = json.load(open(mf))
            if only and m["property"] not in only and name not in only:
                continue
            items.append((m["property"], name))
    else:
        kf = json.load(open(os.path.join(ROOT, "known_findings.json")))["findings"]
        items = sorted(set((k["property"], k["property"]) for k in kf if k["status"] == "fixed" and (not only or k["property"] in only)))
    # group by property so that one worktree keeps one property's build warm; balance by count
    groups = {}
    for pid, name in items:
        groups.setdefault(pid, []).append(name)
    bins = [[] for _ in range(n)]
    for pid, names in sorted(groups.items(), key=lambda kv: -len(kv[1])):
        min(bins, key=len).extend(names)
    os.makedirs(SCR, exist_ok=True)
    procs = []
    ts = int(time.time())
    for k, names in enumerate(bins):
        if not names:
            continue
        wt = os.path.join(SCR, "vpar-%d" % k)
        sh("git -C %s worktree remove --force %s" % (ROOT, wt)); shutil.rmtree(wt, ignore_errors=True)
        r = sh("git -C %s worktree add --detach %s HEAD" % (ROOT, wt))
        assert r.returncode == 0, r.stdout
        # reuse the compiled Coq files of the main tree (same sources => make has nothing to do)
        sh("rsync -a --exclude Corr --exclude .lock %s/coq/ %s/coq/" % (ROOT, wt))
        log = open(os.path.join(ROOT, "work", "rehearse_par_%d_%d.log" % (ts, k)), "w")
        args = " ".join(sorted(set(names)))
        p = subprocess.Popen("%s/tools/rehearse.py %s %s" % (wt, mode, args), shell=True, stdout=log, stderr=subprocess.STDOUT, cwd=wt)
        procs.append((k, wt, p, log))
    for k, wt, p, log in procs:
        p.wait(); log.close()
        for f in os.listdir(os.path.join(wt, "work")):
            if f.startswith("rehearsal_") and f.endswith(".json"):
                shutil.copy(os.path.join(wt, "work", f), os.path.join(ROOT, "work", "rehearsal_par_%d_%d_%s" % (ts, k, f[10:])))
        sh("git -C %s worktree remove --force %s" % (ROOT, wt)); shutil.rmtree(wt, ignore_errors=True)
    sh("git -C %s worktree prune" % ROOT)
    for k, wt, p, log in procs:
        for l in open(log.name):
            if " caught" in l or "MISSED" in l or "check-error" in l or "PREPARE" in l:
                print(l.rstrip())


def patchdir(n, d, pids):
    names = sorted(x for x in os.listdir(d) if os.path.exists(os.path.join(d, x, "patch.diff")))
    bins = [names[k::n] for k in range(n)]
    os.makedirs(SCR, exist_ok=True)
    ts = int(time.time())
    procs = []
    for k, ns in enumerate(bins):
        if not ns:
            continue
        wt = os.path.join(SCR, "vpar-%d" % k)
        sh("git -C %s worktree remove --force %s" % (ROOT, wt)); shutil.rmtree(wt, ignore_errors=True)
        r = sh("git -C %s worktree add --detach %s HEAD" % (ROOT, wt))
        assert r.returncode == 0, r.stdout
        sh("rsync -a --exclude Corr --exclude .lock %s/coq/ %s/coq/" % (ROOT, wt))
        logname = os.path.join(ROOT, "work", "rehearse_par_%d_%d.log" % (ts, k))
        cmd = " ; ".join("%s/tools/rehearse.py patch %s %s" % (wt, os.path.join(d, x, "patch.diff"), " ".join(pids)) for x in ns)
        p = subprocess.Popen(cmd, shell=True, stdout=open(logname, "w"), stderr=subprocess.STDOUT, cwd=wt)
        procs.append((k, wt, p, logname))
    for k, wt, p, logname in procs:
        p.wait()
        for f in os.listdir(os.path.join(wt, "work")):
            if f.startswith("rehearsal_") and f.endswith(".json"):
                shutil.copy(os.path.join(wt, "work", f), os.path.join(ROOT, "work", "harmless_%d_%d_%s" % (ts, k, f[10:])))
        sh("git -C %s worktree remove --force %s" % (ROOT, wt)); shutil.rmtree(wt, ignore_errors=True)
    sh("git -C %s worktree prune" % ROOT)
    for k, wt, p, logname in procs:
        for l in open(logname):
            if " caught" in l or "MISSED" in l or "check-error" in l or "PREPARE" in l:
                print(l.rstrip())


if __name__ == "__main__":
    main()
