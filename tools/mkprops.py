"""one-off helper: expand (name, comment, statement, lemma) into a Props file"""
import sys
def emit(path, header, items, footer=""):
    out=[header]
    for it in items:
        if isinstance(it,str):
            out.append(it); continue
        name, comment, stmt, lemma = it
        out.append("(* %s *)\nTheorem %s :\n  %s.\nProof. exact %s. Qed.\nGoal True. idtac \"ASSUMPTIONS %s\". Abort.\nPrint Assumptions %s.\n" % (comment, name, stmt.strip(), lemma, name, name))
    out.append(footer)
    open(path,'w').write("\n".join(out))
