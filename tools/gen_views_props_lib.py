import subprocess, re, sys
HEADER_IMPORTS = """From Coq Require Import List Bool Arith ZArith.
Import ListNotations.
From SG Require Import Base.Sums Base.Cmp NumPy.Gather NumPy.Index NumPy.Tensor NumPy.ViewsAux NumPy.Views NumPy.Indexing NumPy.Spec.
From SG Require Import Proofs.ViewsAuxProofs Proofs.ViewsReshapeProofs Proofs.ViewsPermProofs Proofs.ViewsUnfoldProofs
                       Proofs.ViewsIndexProofs Proofs.ViewsSpecProofs Proofs.ViewsIndexSpecProofs.
"""
def types_of(names):
    src = HEADER_IMPORTS + "Set Printing Width 100.\n" + "".join('Goal True. idtac "@@@ %s". Abort.\nCheck %s.\n' % (n, n) for n in names)
    open('/tmp/e1/chk_types.v','w').write(src)
    out = subprocess.run("cd /var/tmp/wp/E1/coq && timeout 200 coqc -q -Q . SG /tmp/e1/chk_types.v", shell=True, capture_output=True, text=True).stdout
    res = {}
    parts = out.split("@@@ ")
    for p in parts[1:]:
        name, rest = p.split("\n", 1)
        name = name.strip()
        m = re.match(r"\s*%s\s*\n?\s*:\s*(.*)" % re.escape(name), rest, re.S)
        assert m, (name, rest[:200])
        res[name] = m.group(1).strip()
    return res
def emit(path, intro, items, tail=""):
    names = [n for n, _ in items if n]
    ty = types_of(names)
    out = [intro, HEADER_IMPORTS]
    for n, comment in items:
        if n is None:
            out.append("\n(* %s *)" % comment); continue
        if comment: out.append("(* %s *)" % comment)
        t = "\n  ".join(ty[n].splitlines())
        out.append("Theorem %s :\n  %s.\nProof. exact %s. Qed." % (n, t, n))
        out.append('Goal True. idtac "ASSUMPTIONS %s". Abort.\nPrint Assumptions %s.\n' % (n, n))
    out.append(tail)
    open(path,'w').write("\n".join(out))
if __name__ == "__main__":
    pass
