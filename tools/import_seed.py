#!/venv/bin/python
"""Confirm and import seeded changes produced by independent sub-agents.

  tools/import_seed.py <PID> [<outdir>]      (default outdir /tmp/seed/<PID>_out)

For every m<i>.patch.diff there: in a scratch worktree of /repo (outside /repo and /verif)
  1. the demo passes on the unchanged tree,
  2. the patch applies, the library's test-suite result is identical to the baseline (92 pass, test_BCELoss fails),
  3. the demo fails with the patch.
Only then the change is kept as /verif/seeded/<PID>-m<i>/{patch.diff, demo.py, meta.json}.
"""
import json, os, shutil, subprocess, sys, re

ROOT = os.path.dirname(os.path.dirname(os.path.abspath(__file__)))


def sh(cmd, **kw):
    p = subprocess.run(cmd, shell=True, stdout=subprocess.PIPE, stderr=subprocess.STDOUT, text=True, **kw)
    return p.returncode, "\n".join(l for l in p.stdout.splitlines() if "conda.cli" not in l)


def tests(wt):
    rc, out = sh("cd %s && PYTHONPATH=%s timeout 1200 /venv/bin/python -m pytest -q -p no:cacheprovider --timeout=900 --continue-on-collection-errors 2>&1 | tail -15" % (wt, wt))
    m = re.search(r"(\d+) failed, (\d+) passed", out)
    failed = re.findall(r"FAILED (\S+)", out)
    if m:
        return int(m.group(1)), int(m.group(2)), failed
    m = re.search(r"(\d+) passed", out)      # since fix b277d5c the whole suite passes (93)
    return (0, int(m.group(1)), failed) if m else (None, None, out[-300:])


def main():
    pid = sys.argv[1]
    outdir = sys.argv[2] if len(sys.argv) > 2 else "/tmp/seed2/%s_out" % pid
    wt = "/var/tmp/vt/imp-%s" % pid
    sh("git -C /repo worktree remove --force %s" % wt)
    rc, out = sh("git -C /repo worktree add --detach %s HEAD" % wt)
    assert rc == 0, out
    try:
        for f in sorted(os.listdir(outdir)):
            m = re.match(r"(m\d+)\.patch\.diff$", f)
            if not m:
                continue
            tag = m.group(1)
            patch = os.path.join(outdir, f)
            demo = os.path.join(outdir, tag + ".demo.py")
            metaf = os.path.join(outdir, tag + ".meta.json")
            if not os.path.exists(demo):
                print(pid, tag, "SKIP: no demo"); continue
            env = dict(os.environ, SG_PATH=wt, PYTHONPATH=wt)
            rc0, o0 = sh("timeout 600 /venv/bin/python %s" % demo, env=env)
            rc, o = sh("git -C %s apply %s" % (wt, patch))
            if rc != 0:
                print(pid, tag, "SKIP: patch does not apply", o[-200:]); sh("git -C %s checkout -- ." % wt); continue
            rc1, o1 = sh("timeout 600 /venv/bin/python %s" % demo, env=env)
            nf, npass, failed = tests(wt)
            sh("git -C %s checkout -- . && git -C %s clean -fdq" % (wt, wt))
            ok = rc0 == 0 and rc1 != 0 and ((nf, npass) == (0, 93) or ((nf, npass) == (1, 92) and failed == ["tests/test_losses.py::test_BCELoss"]))
            print(pid, tag, "CONFIRMED" if ok else "REJECTED", "demo clean rc=%s patched rc=%s tests=%s/%s %s" % (rc0, rc1, nf, npass, failed))
            if not ok:
                continue
            dst = os.path.join(ROOT, "seeded", "%s-%s%s" % (pid, os.environ.get("SEED_ROUND", ""), tag))
            os.makedirs(dst, exist_ok=True)
            shutil.copy(patch, os.path.join(dst, "patch.diff"))
            shutil.copy(demo, os.path.join(dst, "demo.py"))
            meta = json.load(open(metaf)) if os.path.exists(metaf) else {}
            meta.update({"property": pid, "confirmed_by": "tools/import_seed.py",
                         "what_i_ran": ["demo on unchanged tree: exit %d" % rc0, "demo with patch: exit %d" % rc1,
                                        "full test-suite with patch: %d failed (test_BCELoss, as on the baseline), %d passed" % (nf, npass)],
                         "demo_output_with_patch": o1[-400:]})
            json.dump(meta, open(os.path.join(dst, "meta.json"), "w"), indent=1)
    finally:
        sh("git -C /repo worktree remove --force %s" % wt)
        shutil.rmtree(wt, ignore_errors=True)


if __name__ == "__main__":
    main()
