#!/venv/bin/python
"""Mutation experiments of work package F2 (vector kernels).  Usage: tools/f2_experiments.py [name ...]
For every mutation: reset the scratch checkout /var/tmp/wp/F2-repo, apply it, run the relevant tests of the repo
(are they still green?), run ./check KVC02 / KVC09 / KVC14 with VERIF_REPO pointing at it, print one summary line."""
import json, os, re, subprocess, sys

ROOT = os.path.dirname(os.path.dirname(os.path.abspath(__file__)))
SCR = "/var/tmp/wp/F2-repo"
CPU = "synapgrad/cpu_ops.py"
NNF = "synapgrad/nn/functional.py"

MUT = [
    ("baseline", None),
    ("revert-bc0540a softmax bwd", ("revert", "bc0540a")),
    ("revert-f54d702 log_softmax bwd", ("revert", "f54d702")),
    ("revert-1e60b89 bn eval", ("revert", "1e60b89")),
    ("revert-7c8f331 cross-entropy fwd", ("revert", "7c8f331")),
    ("M1 softmax bwd sum over all axes", ("edit", CPU, "a_grad = softmax_a * (grad - (grad * softmax_a).sum(axis=axis, keepdims=True))",
                                           "a_grad = softmax_a * (grad - (grad * softmax_a).sum(axis=-1, keepdims=True))")),
    ("M2 softmax fwd without max shift", ("edit", CPU, "shiftx = a - a.max(axis=axis, keepdims=True) ", "shiftx = a - 0.0")),
    ("M3 softmax fwd exp_sums over last axis", ("edit", CPU, "exp_sums = exps.sum(axis=axis, keepdims=True)", "exp_sums = exps.sum(axis=-1, keepdims=True)")),
    ("M4 bn bwd davg/(n-1)", ("edit", CPU, "+ (dL_davg / n)", "+ (dL_davg / (n - 1))")),
    ("M5 bn dL_dgamma without x_norm", ("edit", CPU, "dL_dgamma = (grad * x_norm).sum(normed_dims)", "dL_dgamma = (grad * 1.0).sum(normed_dims)")),
    ("M6 bn training normalises with running var", ("edit", CPU, "var = running_var if running_var is not None and not training else x.var(axis=normed_dims)",
                                                    "var = running_var if running_var is not None else x.var(axis=normed_dims)")),
    ("M7 cross-entropy bwd without -1", ("edit", CPU, "    dlogits[range(n), y_true] -= 1\n", "    dlogits[range(n), y_true] -= 0\n")),
    ("M8 nll bwd sign", ("edit", CPU, "loss_grad[range(len(y_pred)), y_true] = -1.0", "loss_grad[range(len(y_pred)), y_true] = 1.0")),
    ("M9 log_softmax bwd sum over last axis", ("edit", CPU, "a_grad = grad - softmax * grad.sum(axis=axis, keepdims=True)", "a_grad = grad - softmax * grad.sum(axis=-1, keepdims=True)")),
    ("M10 bn wrapper x._grad = x_grad", ("edit", NNF, "            x._grad += x_grad\n        if weight is not None and weight.requires_grad:", "            x._grad = x_grad\n        if weight is not None and weight.requires_grad:")),
    ("M11 bn eval bwd drops eps", ("edit", CPU, "        dL_dxi = dL_dxi_hat / np.sqrt(variance + eps)\n", "        dL_dxi = dL_dxi_hat / np.sqrt(variance)\n")),
    ("M12 softmax wrapper hands x.data to bwd", ("edit", NNF, "a_grad = cpu_ops.softmax_backward(grad_output.data, out.data, dim)", "a_grad = cpu_ops.softmax_backward(grad_output.data, x.data, dim)")),
    ("M13 bn bwd dvar factor -0.5 -> 0.5", ("edit", CPU, "dL_dvar = (-0.5 * dL_dxi_hat", "dL_dvar = (0.5 * dL_dxi_hat")),
    ("M15 softmax fwd max over last axis", ("edit", CPU, "shiftx = a - a.max(axis=axis, keepdims=True) ", "shiftx = a - a.max(axis=-1, keepdims=True)")),
    ("M16 log_softmax fwd sum over last axis", ("edit", CPU, "lse = max_val + np.log(exp.sum(axis=axis, keepdims=True))", "lse = max_val + np.log(exp.sum(axis=-1, keepdims=True))")),
    ("M17 bn running var without n/(n-1)", ("edit", CPU, "unbiased_var = var * (n / (n - 1))", "unbiased_var = var * 1.0")),
    ("M18 bn bwd dL_dbeta from dL_dxi_hat", ("edit", CPU, "        dL_dbeta = grad.sum(normed_dims)", "        dL_dbeta = dL_dxi_hat.sum(normed_dims)")),
    ("H1 rename locals in softmax_forward", ("edits", CPU, [("shiftx", "shifted_values"), ("exps", "ee")])),
    ("H2 reorder gamma/beta blocks in bn bwd", ("edit", CPU,
        "    dL_dxi_hat = grad\n    dL_dgamma = None\n    if gamma is not None:\n        dL_dxi_hat = grad * gamma.reshape(keepdims_shape)\n        dL_dgamma = (grad * x_norm).sum(normed_dims)\n        \n    dL_dbeta = None\n    if beta is not None:\n        dL_dbeta = grad.sum(normed_dims)\n",
        "    dL_dbeta = None\n    if beta is not None:\n        dL_dbeta = grad.sum(normed_dims)\n    dL_dxi_hat = grad\n    dL_dgamma = None\n    if gamma is not None:\n        dL_dxi_hat = grad * gamma.reshape(keepdims_shape)\n        dL_dgamma = (grad * x_norm).sum(normed_dims)\n")),
    ("H3 log_softmax fwd: inline lse, rename", ("edit", CPU, "    lse = max_val + np.log(exp.sum(axis=axis, keepdims=True))\n    log_softmax = a - lse\n    return log_softmax",
                                                "    total = exp.sum(axis=axis, keepdims=True)\n    return a - (max_val + np.log(total))")),
]


LOS = "synapgrad/nn/losses.py"
MUT6 = [
    ("baseline", None),
    ("F1 softmax fwd divides by exp_sums + epsilon", ("edit", CPU, "return exps / exp_sums", "return exps / (exp_sums + epsilon)")),
    ("F2 bn fwd normalises with the unbiased variance", ("edit", CPU, "else x.var(axis=normed_dims)", "else x.var(axis=normed_dims, ddof=1)")),
    ("F3 Loss.__call__ swaps sum and mean", ("edits", LOS, [("reduction = loss.sum()", "reduction = loss.TMP()"), ("reduction = loss.mean()", "reduction = loss.sum()"), ("reduction = loss.TMP()", "reduction = loss.mean()")])),
    ("F4 nll fwd without the minus", ("edit", CPU, "loss = -y_pred[range(len(y_pred)), y_true].reshape((-1, 1))", "loss = y_pred[range(len(y_pred)), y_true].reshape((-1, 1))")),
    ("F5 bn std = sqrt(var) + eps", ("edit", CPU, "std = np.sqrt(var + eps)", "std = np.sqrt(var) + eps")),
    ("F6 log_softmax lse without max_val", ("edit", CPU, "lse = max_val + np.log(exp.sum(axis=axis, keepdims=True))", "lse = np.log(exp.sum(axis=axis, keepdims=True))")),
    ("F7 bn running var update with the biased variance", ("edit", CPU, "unbiased_var = var * (n / (n - 1))", "unbiased_var = var * 1.0")),
    ("F8 CrossEntropyLoss.forward calls F.nll_loss", ("edit", LOS, "return F.cross_entropy(y_pred, y_true)", "return F.nll_loss(y_pred, y_true)")),
    ("F9 bn affine: beta applied before gamma", ("edits", CPU, [("        x_norm *= gamma.reshape(keepdims_shape)", "        x_norm *= gamma.reshape(keepdims_shape) if beta is None else 1.0"),])),
    ("G1 rename `loss` in Loss.__call__", ("edits", LOS, [("loss = super().__call__(y_pred, y_true)", "value = super().__call__(y_pred, y_true)"), ("loss.sum()", "value.sum()"), ("loss.mean()", "value.mean()"), ("reduction = loss ", "reduction = value ")])),
]


def sh(cmd, cwd=None, env=None, timeout=1800):
    e = dict(os.environ)
    if env:
        e.update(env)
    p = subprocess.run(cmd, shell=True, cwd=cwd, env=e, stdout=subprocess.PIPE, stderr=subprocess.STDOUT, text=True, timeout=timeout)
    return p.returncode, "\n".join(l for l in p.stdout.splitlines() if "conda.cli" not in l)


def apply(m):
    sh("git revert --quit; git reset -q --hard HEAD && git clean -fdq", cwd=SCR)
    if m is None:
        return
    if m[0] == "revert":
        rc, out = sh("git revert --no-commit %s" % m[1], cwd=SCR)
        assert rc == 0, out
        return
    path = os.path.join(SCR, m[1])
    s = open(path).read()
    pairs = m[2] if m[0] == "edits" else [(m[2], m[3])]
    for old, new in pairs:
        assert s.count(old) >= 1, (m, old)
        if m[0] == "edit":
            assert s.count(old) == 1, (old, s.count(old))
        elif len(pairs) > 1 and s.count(old) != 1 and m[1] == LOS:
            assert s.count(old) >= 1, old
        s = s.replace(old, new)
    open(path, "w").write(s)


def tests():
    rc, out = sh("/venv/bin/python -m pytest -q -p no:cacheprovider tests/test_activations.py tests/test_losses.py "
                 "tests/test_layers.py::test_batchnorm1d tests/test_layers.py::test_batchnorm2d tests/test_engine.py::test_engine_batchnorm 2>&1 | tail -4",
                 cwd=SCR)
    failed = re.findall(r"FAILED (\S+)", out)
    failed = [f for f in failed if "test_BCELoss" not in f]        # fails on the unchanged tree as well
    return "green" if not failed else "RED(%s)" % ",".join(f.split("::")[-1] for f in failed)


def check(pid):
    rc, out = sh("./check %s" % pid, cwd=ROOT, env={"VERIF_REPO": SCR})
    vio = re.findall(r"VIOLATION property=\S+ replay=(\S+)( no-failing-input-found)?", out)
    desc = ""
    if vio:
        path = os.path.join(ROOT, vio[0][0])
        d = json.load(open(path))
        if d.get("kind") == "failing-input":
            inp = json.dumps(d.get("input"), default=str)
            desc = "WITNESS %s [%s] in=%s exp=%s obs=%s" % (d["site"], d["class"], inp[:230], json.dumps(d["expected"], default=str)[:90], json.dumps(d["observed"], default=str)[:110])
        else:
            desc = "NO-INPUT"
        br = d.get("broken") or []
        desc += " | broken: " + "; ".join("%s:%s" % (b.get("kind"), (b.get("detail") or "")[:160].replace("\n", " ")) for b in br[:2])
    return rc, len(vio), desc


def main():
    sel = sys.argv[1:]
    muts, pids = MUT, ("KVC02", "KVC09", "KVC14", "KVC13")
    if sel and sel[0] == "--c06":
        sel, muts, pids = sel[1:], MUT6, ("KVC06",)
    for name, m in muts:
        if sel and not any(s in name for s in sel):
            continue
        apply(m)
        t = tests()
        line = "%-42s tests=%s" % (name, t)
        print(line, flush=True)
        for pid in pids:
            rc, nv, desc = check(pid)
            print("    %s exit=%d violations=%d %s" % (pid, rc, nv, desc), flush=True)
    apply(None)
    sh("./check KVC02; ./check KVC09; ./check KVC14; ./check KVC13", cwd=ROOT)      # regenerate Gen/ from /repo


if __name__ == "__main__":
    main()
