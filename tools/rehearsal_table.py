#!/venv/bin/python
"""Render the latest rehearsal result of every (change, property) pair found in work/rehearsal_*.json as markdown."""
import glob, json, os
ROOT = os.path.dirname(os.path.dirname(os.path.abspath(__file__)))
latest = {}
for f in sorted(glob.glob(os.path.join(ROOT, "work", "rehearsal_*.json")), key=os.path.getmtime):
    for label, pid, kind, detail in json.load(open(f)):
        latest[(label, pid)] = kind
metas = {}
for d in sorted(os.listdir(os.path.join(ROOT, "seeded"))):
    m = os.path.join(ROOT, "seeded", d, "meta.json")
    if os.path.exists(m):
        metas["seeded/" + d] = json.load(open(m))
print("| change | property | what it is / what it needs | result of `./check` |")
print("|---|---|---|---|")
for (label, pid), kind in sorted(latest.items(), key=lambda kv: (kv[0][1], kv[0][0])):
    m = metas.get(label, {})
    what = (m.get("summary", "") + (" — needs: " + m["needs"] if m.get("needs") else "")).replace("|", "/").replace("\n", " ")
    if label.startswith("revert"):
        what = "re-introduces the defect repaired by that `fix:` commit"
    res = {"caught": "VIOLATION with a concrete failing input", "caught-no-input": "VIOLATION … no-failing-input-found (broken proof/tie named in the replay)",
           "MISSED": "**missed**"}.get(kind, kind)
    print("| %s | %s | %s | %s |" % (label, pid, what[:260], res))
