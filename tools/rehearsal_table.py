#!/venv/bin/python
"""Render the latest rehearsal result of every (change, property) pair found in work/rehearsal_*.json as markdown.

  tools/rehearsal_table.py            full table on stdout
  tools/rehearsal_table.py --design   rewrite the block between the REHEARSAL-TABLE markers of DESIGN.md (compact) and
                                      notes/rehearsal_table.md (full)
"""
import glob, json, os, sys
ROOT = os.path.dirname(os.path.dirname(os.path.abspath(__file__)))
latest = {}
for f in sorted(glob.glob(os.path.join(ROOT, "work", "rehearsal_*.json")), key=os.path.getmtime):
    for label, pid, kind, detail in json.load(open(f)):
        latest[(label, pid)] = kind
metas = {}
for d in sorted(os.listdir(os.path.join(ROOT, "seeded"))):
    m = os.path.join(ROOT, "seeded", d, "meta.json")
    if os.path.exists(m):
        metas["seeded/" + d] = json.load(open(m))
RES = {"caught": "input", "caught-no-input": "no input", "MISSED": "**missed**"}
CONFLICT = ("`git revert` conflicts with a later `fix:` commit on the same lines (4c76974 is superseded by 80b2308, 9cb1aff by b5fcd5e, "
            "cf0d89d is the base of 448cee7); d4325f2 and 46473b8 are covered by the hand-written `seeded/fixrev-*` patches")


def rows(width):
    out = []
    for (label, pid), kind in sorted(latest.items(), key=lambda kv: (kv[0][1], kv[0][0])):
        m = metas.get(label, {}) or metas.get("seeded/" + label.split("/")[0], {})
        what = (m.get("summary", "") + (" — needs: " + m["needs"] if m.get("needs") else "")).replace("|", "/").replace("\n", " ")
        if label.startswith("revert"):
            what = "re-introduces the defect repaired by that `fix:` commit"
        res = RES.get(kind, "not applicable: " + CONFLICT if kind == "prepare-failed" else kind)
        if width and len(what) > width:
            what = what[:width].rsplit(" ", 1)[0] + " …"
        out.append("| %s | %s | %s | %s |" % (label, pid, what, res))
    return out


def table(width):
    n = {}
    for k in latest.values():
        n[k] = n.get(k, 0) + 1
    head = ["%d (change, property) pairs: %d caught with a concrete failing input, %d caught as no-failing-input-found, %d missed, %d not applicable." % (
        len(latest), n.get("caught", 0), n.get("caught-no-input", 0), n.get("MISSED", 0), n.get("prepare-failed", 0)), "",
        "| change | property | what it is / what it needs | result of `./check` |", "|---|---|---|---|"]
    return "\n".join(head + rows(width)) + "\n"


if "--design" in sys.argv:
    p = os.path.join(ROOT, "DESIGN.md")
    s = open(p).read()
    a = s.index("<!-- REHEARSAL-TABLE-BEGIN -->") + len("<!-- REHEARSAL-TABLE-BEGIN -->\n")
    b = s.index("<!-- REHEARSAL-TABLE-END -->")
    open(p, "w").write(s[:a] + table(150) + s[b:])
    open(os.path.join(ROOT, "notes", "rehearsal_table.md"), "w").write("# Mutation rehearsal: every seeded change and fix revert, full descriptions\n\n" + table(0))
else:
    print(table(0))
