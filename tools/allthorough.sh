#!/bin/bash
# run every registered thorough check once; print one line per check
cd "$(dirname "$0")/.."
SEED=${1:-20260930}
for p in C01 C02 C03 C04 C05 C06 C07 C08 C09 C10 C11 C12 C13 C14 C15 C16 C17 C18 C19 C20; do
  s=$(date +%s)
  VERIF_SEED=$SEED ./check $p --tier thorough > work/allthorough_${SEED}_$p.log 2>&1
  rc=$?
  echo "thorough seed=$SEED $p rc=$rc $(( $(date +%s) - s ))s $(grep -c '^VIOLATION' work/allthorough_${SEED}_$p.log) violations $(grep -c '^KNOWN-FINDING' work/allthorough_${SEED}_$p.log) known"
done
