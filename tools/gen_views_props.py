import sys
sys.path.insert(0, __import__('os').path.dirname(__file__))
from gen_views_props_lib import emit
intro = """(* C05 (views part, work package E1) - forward results of the shape-changing / view / indexing ops match the
   NumPy / PyTorch / Python semantics they mirror; the legal argument combinations are exactly the accepted ones.
   Only statements; proofs live in Proofs/ViewsSpecProofs.v and Proofs/ViewsIndexSpecProofs.v.
   Models: NumPy/Views.v, NumPy/Indexing.v (what the code does).  Spec: NumPy/Spec.v (what the mirrored semantics says;
   written independently: dims wrapped with `mod`, results characterised by properties).

   Every `<op>_accepts_iff_legal` / `<op>_matches_spec` below is the full-strength statement: all ranks (0-d included),
   all shapes (zero-size dims included), all argument values.  Which reference each op follows for 0-d operands:
   flatten and squeeze wrap dims like PyTorch (a 0-d tensor has the dims 0/-1; the code says so itself), movedim /
   transpose / unfold follow NumPy's axis rule (a 0-d array has no axis); reshape follows ndarray.reshape (at most
   one negative entry = the unknown dimension).  See notes/E1_views.md for the reclassified items.                 *)"""
items = [
 (None, "---- reshape"),
 ("reshape_accepts_iff_legal", "accepted iff at most one negative entry and the known entries multiply to the size (none) or divide it with a positive product (one)"),
 ("reshape_matches_spec", "accepted => the explicit entries are kept, the size is kept, the elements keep their row-major order"),
 (None, "---- flatten: every start/end incl. negatives, every shape incl. 0-d and zero-size dims"),
 ("flatten_accepts_iff_legal", "accepted iff both dims are in [-max(n,1), max(n,1)) and start <= end after wrapping"),
 ("flatten_matches_spec", "result shape = prefix ++ [product of dims start..end] ++ suffix (0-d: (1,)), element order unchanged"),
 (None, "---- squeeze: dim None | int | tuple, dims that are not 1 silently skipped"),
 ("squeeze_accepts_iff_legal", "accepted iff every dim is in [-max(n,1), max(n,1)) and no dim is repeated after wrapping"),
 ("squeeze_matches_spec", "exactly the named axes of size 1 disappear, element order unchanged"),
 (None, "---- unsqueeze: int | tuple (positions in the result)"),
 ("unsqueeze_accepts_iff_legal", "accepted iff every dim is in [-(n+k), n+k) and they are distinct after wrapping"),
 ("unsqueeze_matches_spec", "the result has 1 at the named positions, the other positions are the operand's dims in order; element order unchanged"),
 (None, "---- movedim: every (source, destination)"),
 ("movedim_accepts_iff_legal", "accepted iff both dims are in [-n, n)"),
 ("movedim_matches_spec", "output axis `destination` is input axis `source`, the other axes keep their relative order; out[j] = in[i] with i[sigma k] = j[k]"),
 (None, "---- transpose: every (dim0, dim1)"),
 ("transpose_accepts_iff_legal", "accepted iff both dims are in [-n, n)"),
 ("transpose_matches_spec", "the two axes are swapped, the others stay"),
 (None, "---- unfold: every (dimension, size, step)"),
 ("unfold_accepts_iff_legal", "accepted iff dimension in [-n,n), size >= 1, step >= 1, size <= shape[dimension]"),
 ("unfold_matches_spec", "shape: (L-size)/step+1 windows at `dimension`, window axis appended last; out[..., w, ..., k] = in[..., w*step+k, ...]"),
 (None, "---- indexing: slices per the Python language reference, x[k], x[[k1..km]]"),
 ("slice0_accepts_iff_legal", "x[a:b:c] is accepted iff c != 0"),
 ("slice0_matches_spec", "x[a:b:c] selects, in order, exactly the rows i, i+k, i+2k, ... of the language reference (negative / omitted / out-of-range bounds, negative steps)"),
 ("row_accepts_iff_legal", "x[k] accepted iff -d <= k < d"),
 ("row_matches_spec", "x[k] is row k mod d"),
 ("take0_matches_spec", "x[[k1..km]]: row t of the result is row k_t (repeats allowed)"),
 ("index_maps_into", "every accepted index expression of the modelled fragment (ints, slices, None, Ellipsis, integer arrays) reads within bounds"),
 (None, "---- iteration over the first dimension: __iter__ returns a fresh generator"),
 ("iter_independent", "whatever else happens (other iterators created or advanced, in any interleaving), the rows iterator k yields are c, c+1, ... in order, one per next(), until its bound"),
 ("iter_yields_rows", "len = shape[0]; a fresh iterator yields rows 0,1,...,shape[0]-1 whatever nested / simultaneous iterations do (row r is x[r]: row_matches_spec)"),
]
tail = """
(* ---- non-vacuity ---------------------------------------------------------------------------------------- *)
Example flatten_example :
  option_map g_out (fwd_flatten [2;3;4;5] 1 (-2)) = Some [2;12;5] /\\ legal_flatten [2;3;4;5] 1 (-2).
Proof. split. vm_compute. reflexivity. exists 1, 2. repeat split; auto. Qed.

(* the inputs of the repaired defects *)
Example flatten_0d_example : option_map g_out (fwd_flatten [] 0 (-1)) = Some [1].
Proof. vm_compute. reflexivity. Qed.
Example flatten_zero_size_example : option_map g_out (fwd_flatten [0;3;2] 1 2) = Some [0;6].
Proof. vm_compute. reflexivity. Qed.
Example squeeze_repaired_examples :
  fwd_squeeze [] (SqInt 5) = None /\\ fwd_squeeze [2] (SqTuple [0;0]%Z) = None /\\
  option_map g_out (fwd_squeeze [] (SqTuple [0%Z])) = Some [] /\\ option_map g_out (fwd_squeeze [] (SqInt (-1))) = Some [].
Proof. vm_compute. repeat split; reflexivity. Qed.

Example squeeze_example :
  option_map g_out (fwd_squeeze [1;3;1;2] (SqTuple [0; 1; -2]%Z)) = Some [3;2] /\\ legal_squeeze [1;3;1;2] (SqTuple [0; 1; -2]%Z).
Proof.
  split. vm_compute. reflexivity. split. intros z [<-|[<-|[<-|[]]]]; discriminate.
  cbn. repeat constructor; simpl; intuition discriminate.
Qed.

Example slice_example :
  spec_slice_positions 7 (Some (-2)%Z) None (Some (-3)%Z) = Some [5; 2] /\\
  option_map (fun op => (g_out op, probe op)) (fwd_index [7] [ISlice (Some (-2)%Z) None (Some (-3)%Z)]) = Some ([2], [Some 5; Some 2]).
Proof. split; vm_compute; reflexivity. Qed.

(* nested iteration: for a in x: for b in x  on a tensor with 3 rows; outer iterator 0, inner iterators 1,2,3 *)
Example nested_iteration_example :
  let inner k := [NewIter; Next k; Next k; Next k; Next k] in
  let evs := [NewIter; Next 0] ++ inner 1 ++ [Next 0] ++ inner 2 ++ [Next 0] ++ inner 3 ++ [Next 0] in
  yields 0 evs (irun [3;2] [] evs) = [0;1;2] /\\ yields 1 evs (irun [3;2] [] evs) = [0;1;2] /\\
  yields 3 evs (irun [3;2] [] evs) = [0;1;2] /\\ length (filter (fun o => match o with ORow _ => true | _ => false end) (irun [3;2] [] evs)) = 12.
Proof. vm_compute. repeat split; reflexivity. Qed.
"""
emit('/var/tmp/wp/E1/coq/Props/C05_views.v', intro, items, tail)

intro14 = """(* C14 (views part, work package E1) - flatten = reshape, movedim between adjacent dims = transpose.
   Equalities of the gather_ops of the models (shape and index map), forward and backward.            *)"""
items14 = [
 ("flatten_is_reshape", "x.flatten(s,e) is x.reshape(result shape): the same gather_op; the backward kernels are the same function (grad.reshape(x.shape))"),
 ("flatten_is_reshape_to_spec_shape", "... and the result shape is the spec's prefix ++ [product] ++ suffix (0-d: (1,))"),
 ("movedim_adjacent_is_transpose", "|s - d| = 1 (after normalisation): movedim(s,d) and transpose(s,d) are the same gather_op, and so are their backward kernels (moveaxis(g,d,s) = swapaxes(g,s,d))"),
 ("mv_adjacent", "the underlying fact on axis maps"),
]
tail14 = """
Example movedim_adjacent_example :
  fwd_movedim [2;3;4] (-1) 1 = fwd_transpose [2;3;4] (-1) 1 /\\
  option_map g_out (fwd_movedim [2;3;4] (-1) 1) = Some [2;4;3].
Proof.
  split. apply (movedim_adjacent_is_transpose [2;3;4] (-1) 1 2 1); auto. vm_compute. reflexivity.
Qed.
"""
emit('/var/tmp/wp/E1/coq/Props/C14_views.v', intro14, items14, tail14)
