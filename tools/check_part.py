#!/venv/bin/python
"""tools/check_part.py <PID> <module> [--tier quick|thorough]: run one part module's run_part(ctx) as if it were the whole check of <PID>
(used to develop checks/ops_*.py before checks/c02.py / c14.py are assembled). Evidence goes to evidence/<PID>.json as usual."""
import argparse, importlib, os, sys
ROOT = os.path.dirname(os.path.dirname(os.path.abspath(__file__)))
os.chdir(ROOT); sys.path.insert(0, ROOT)
os.environ.setdefault("PYTHONHASHSEED", "0"); os.environ.setdefault("OMP_NUM_THREADS", "1")
from lib import common
ap = argparse.ArgumentParser(); ap.add_argument("pid"); ap.add_argument("module"); ap.add_argument("--tier", default="quick")
a = ap.parse_args()
mod = importlib.import_module("checks.%s" % a.module)
ctx = common.Ctx(a.pid.upper(), a.tier, int(os.environ.get("VERIF_SEED", "20260930")))
mod.run_part(ctx)
sys.exit(ctx.finish())
