#!/bin/bash
# run the repository's baseline test command on a given tree (default /repo), print summary
T=${1:-/repo}
cd $T && /venv/bin/python -m pytest -ra -q -p no:cacheprovider --timeout=900 --continue-on-collection-errors -x -q 2>&1 | tail -5
