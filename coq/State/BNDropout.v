(* Model of the mode-dependent layers (property C13), over exact rationals [Q]:

     synapgrad/nn/layers.py   Dropout.forward (152-160), BatchNorm.__init__/forward (519-580)
     synapgrad/nn/functional.py  batch_norm: the write-back `running_mean.data = new_running_mean` (981-982)
     synapgrad/cpu_ops.py     batch_norm_forward (539-562)
     synapgrad/nn/modules.py  Module.train / Module.eval (22-34)

   Hand-written; tied to the code by the C13 correspondence (checks/c13.py: random call histories on real
   nn.BatchNorm1d/2d and nn.Dropout objects, compared with this model inside Coq).  No proofs here.

   A batch is given per feature (axis 1 of the input): [x : list (list Q)], the c-th element being the list of
   all samples of feature c (all other axes flattened, `normed_dims` = every axis but 1).  Every statistic of
   batch_norm_forward is computed per feature, so nothing else of the array layout matters.

   What is *not* modelled: sqrt.  The normalised output (x-mean)/sqrt(var+eps) is represented by the exact
   pair (x - mean, var + eps); the affine step and the division by a square root are applied symbolically by
   [finish] to a caller-supplied root (used by the correspondence with a 40-digit rational root).
   Floating-point rounding is not modelled either.                                                        *)
From Coq Require Import List Bool Arith ZArith QArith Qabs.
Import ListNotations.
Open Scope Q_scope.

(* ---------------------------------------------------------------- vectors *)
Fixpoint map2 {A B C} (f : A -> B -> C) (l1 : list A) (l2 : list B) : list C :=
  match l1, l2 with
  | a :: t1, b :: t2 => f a b :: map2 f t1 t2
  | _, _ => []
  end.

Definition qsum (l : list Q) : Q := fold_right Qplus 0 l.
Definition qnat (n : nat) : Q := inject_Z (Z.of_nat n).

(* ndarray.mean / ndarray.var (ddof = 0: the biased variance) over the normalised axes *)
Definition mean (l : list Q) : Q := qsum l / qnat (length l).
Definition sqdev (l : list Q) : list Q := let m := mean l in map (fun x => (x - m) * (x - m)) l.
Definition var_b (l : list Q) : Q := qsum (sqdev l) / qnat (length l).

Definition batch := list (list Q).
(* n = x.size / x.shape[1] : samples per feature *)
Definition nsamp (x : batch) : nat := match x with [] => 0%nat | f :: _ => length f end.
Definition wf_batch (C n : nat) (x : batch) : Prop := length x = C /\ Forall (fun f => length f = n) x.
Definition wf_batchb (C n : nat) (x : batch) : bool :=
  Nat.eqb (length x) C && forallb (fun f => Nat.eqb (length f) n) x.

(* ---------------------------------------------------------------- BatchNorm *)
Record opts := { momentum : option Q; affine : bool; track : bool; eps : Q }.

Record bn := { rmean : option (list Q);       (* self.running_mean (None iff not tracked)  *)
               rvar  : option (list Q);       (* self.running_var                          *)
               nbt   : nat;                   (* self.num_batches_tracked                  *)
               training : bool }.             (* Module.training                           *)

(* BatchNorm.__init__ (a Module starts in training mode) *)
Definition fresh (o : opts) (C : nat) : bn :=
  {| rmean := if track o then Some (repeat 0 C) else None;
     rvar  := if track o then Some (repeat 1 C) else None;
     nbt := 0; training := true |}.

Definition set_training (b : bool) (s : bn) : bn :=
  {| rmean := rmean s; rvar := rvar s; nbt := nbt s; training := b |}.
Definition bump (s : bn) : bn :=
  {| rmean := rmean s; rvar := rvar s; nbt := S (nbt s); training := training s |}.
Definition is_none {A} (x : option A) : bool := match x with None => true | Some _ => false end.

(* what cpu_ops.batch_norm_forward hands back, sqrt-free *)
Record fwd_out := { centered : list (list Q);      (* x - mean, per feature                *)
                    denom2   : list Q;             (* var + eps, per feature               *)
                    used_mean : list Q;            (* `mean` (returned for the backward)   *)
                    used_var  : list Q }.          (* `var`                                *)

Definition normalise (x : batch) (m v : list Q) (e : Q) : fwd_out :=
  {| centered := map2 (fun xs mu => map (fun xi => xi - mu) xs) x m;
     denom2 := map (fun vi => vi + e) v;
     used_mean := m; used_var := v |}.

Definition batch_means (x : batch) : list Q := map mean x.
Definition batch_vars  (x : batch) : list Q := map var_b x.

(* cpu_ops.batch_norm_forward(x, gamma, beta, running_mean, running_var, training, momentum, eps)
   without the gamma/beta step.  Returns None for the ZeroDivisionError of `n / (n - 1)` (n is a Python
   float, so the division raises instead of producing inf).  Otherwise (output, new running_mean, new running_var). *)
Definition upd (f : Q) (stat running : list Q) : list Q :=
  map2 (fun st ro => st * f + ro * (1 - f)) stat running.

Definition bnf (x : batch) (rm rv : option (list Q)) (train : bool) (f e : Q)
  : option (fwd_out * option (list Q) * option (list Q)) :=
  let n := nsamp x in
  let m := match rm with Some r => if negb train then r else batch_means x | None => batch_means x end in
  let v := match rv with Some r => if negb train then r else batch_vars x | None => batch_vars x end in
  let out := normalise x m v e in
  let rm' := match rm with Some r => if train then Some (upd f m r) else Some r | None => None end in
  match rv with
  | Some r =>
      if train then
        if Nat.eqb n 1 then None
        else let unbiased := map (fun vi => vi * (qnat n / (qnat n - 1))) v in
             Some (out, rm', Some (upd f unbiased r))
      else Some (out, rm', Some r)
  | None => Some (out, rm', None)
  end.

Inductive result :=
| Done (s : bn) (out : fwd_out)
| Raised (s : bn).                (* ZeroDivisionError; [s] is the layer state left behind *)

(* BatchNorm.forward + functional.batch_norm's write-back *)
Definition forward (o : opts) (s : bn) (x : batch) : result :=
  let f0 := match momentum o with None => 0 | Some m => m end in
  let '(s1, f) :=
    if training s && track o
    then (bump s, match momentum o with
                  | None => 1 / qnat (S (nbt s))          (* cumulative moving average *)
                  | Some m => m end)
    else (s, f0) in
  let bn_training := if training s then true else is_none (rmean s1) && is_none (rvar s1) in
  let prm := if negb (training s) || track o then rmean s1 else None in
  let prv := if negb (training s) || track o then rvar s1 else None in
  match bnf x prm prv bn_training f (eps o) with
  | None => Raised s1
  | Some (out, nrm, nrv) =>
      Done {| rmean := match nrm with Some r => Some r | None => rmean s1 end;
              rvar  := match nrv with Some r => Some r | None => rvar s1 end;
              nbt := nbt s1; training := training s1 |} out
  end.

Definition state_of (r : result) : bn := match r with Done s _ => s | Raised s => s end.

(* ---- call histories ---- *)
Inductive ev := Train | Eval | Forward (x : batch).

Inductive obs := ONone | OOut (o : fwd_out) | ORaise.

Definition step (o : opts) (s : bn) (e : ev) : bn * obs :=
  match e with
  | Train => (set_training true s, ONone)
  | Eval => (set_training false s, ONone)
  | Forward x => match forward o s x with
                 | Done s' out => (s', OOut out)
                 | Raised s' => (s', ORaise)
                 end
  end.

Fixpoint run (o : opts) (s : bn) (h : list ev) : bn :=
  match h with [] => s | e :: t => run o (fst (step o s e)) t end.

(* the observation of the correspondence: state and output after every event *)
Fixpoint trace (o : opts) (s : bn) (h : list ev) : list (bn * obs) :=
  match h with
  | [] => []
  | e :: t => let r := step o s e in r :: trace o (fst r) t
  end.

(* the batches forwarded while the layer is in training mode, in order ([m] = mode at the start) *)
Fixpoint train_batches (m : bool) (h : list ev) : list batch :=
  match h with
  | [] => []
  | Train :: t => train_batches true t
  | Eval :: t => train_batches false t
  | Forward x :: t => if m then x :: train_batches m t else train_batches m t
  end.

Fixpoint final_mode (m : bool) (h : list ev) : bool :=
  match h with
  | [] => m
  | Train :: t => final_mode true t
  | Eval :: t => final_mode false t
  | Forward _ :: t => final_mode m t
  end.

(* the symbolic last step: x_norm = (x - mean) / std [* gamma] [+ beta], with [root] standing for std *)
Definition finish (root : list Q) (gamma beta : option (list Q)) (out : fwd_out) : list (list Q) :=
  let y := map2 (fun ds s => map (fun d => d / s) ds) (centered out) root in
  let y := match gamma with Some g => map2 (fun ds gi => map (fun d => d * gi) ds) y g | None => y end in
  match beta with Some b => map2 (fun ds bi => map (fun d => d + bi) ds) y b | None => y end.

(* ---------------------------------------------------------------- Dropout *)
(* [r] is the array drawn by np.random.rand of x.shape (flattened): the oracle input.
   random_data = np.where(r <= p, 0, 1); if p < 1: random_data = random_data / (1 - p)                     *)
Definition raw_mask (p : Q) (r : list Q) : list Q :=
  map (fun ri => if Qle_bool ri p then 0 else 1) r.

Definition lt1 (p : Q) : bool := negb (Qle_bool 1 p).     (* p < 1 *)

Definition mask_tensor (p : Q) (r : list Q) : list Q :=
  if lt1 p then map (fun m => m / (1 - p)) (raw_mask p r) else raw_mask p r.

(* Dropout.forward: eval returns x itself; training returns x * random_t *)
Definition dropout (p : Q) (train : bool) (r x : list Q) : list Q :=
  if negb train then x else map2 Qmult x (mask_tensor p r).

(* backward of `x * random_t` w.r.t. x (random_t is a constant leaf): x.grad = g * random_t *)
Definition dropout_bwd (p : Q) (r g : list Q) : list Q := map2 Qmult g (mask_tensor p r).
