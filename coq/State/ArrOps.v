(* Array back-ends for the generated optimizer step functions (Gen/GenOptim.v) and the hand model
   State/Optim.v.  Model file: definitions only.

   The translator maps NumPy elementwise array arithmetic to the operations of an [arr_ops] record.
   Python scalars that only involve hyper-parameters, literals and integer counters are computed in Q
   and enter array expressions through [vconst] (NumPy broadcasting of a scalar).
   Two instances are used:
     * State/ArrOpsR.v  : V := nat -> R  (element index |-> value), all operations pointwise — proofs;
     * [q_ops] below    : V := scalar | list of Q, broadcasting as NumPy does, a 40-digit rational
                          square root, array quotients rounded to 60 digits — running the model against
                          the real optimizers.                                                      *)
From Coq Require Import List Bool Arith ZArith QArith String.
Import ListNotations.

Record arr_ops := mkOps {
  V : Type;
  vconst : Q -> V;              (* a Python scalar used in array arithmetic (broadcast)        *)
  vzeros_like : V -> V;         (* np.zeros_like                                                *)
  vadd : V -> V -> V;
  vsub : V -> V -> V;
  vmul : V -> V -> V;
  vdiv : V -> V -> V;
  vneg : V -> V;
  vsqrt : V -> V;               (* np.sqrt                                                      *)
  vpown : V -> nat -> V         (* x ** 2.0 : literal non-negative integral exponent            *)
}.

(* scalar ** int (self.beta1 ** self.steps[i]) on rational hyper-parameters *)
Fixpoint qpow (q : Q) (n : nat) : Q :=
  match n with O => 1 | S k => q * qpow q k end.

(* What a step does to one array-valued optimizer slot (self.<slot>[i]).  [aliases_grad] = the object
   stored is the parameter's gradient buffer itself (the bare name bound to p._grad), as opposed to a
   fresh array (result of arithmetic or of .copy()). *)
Inductive upd (A : Type) : Type :=
| Keep
| Store (v : A) (aliases_grad : bool).
Arguments Keep {A}.
Arguments Store {A} v aliases_grad.

(* write summary of a step body: every assignment statement, its target and its kind *)
Inductive wkind := WAssign | WAugAdd | WAugSub | WAugOther.
Inductive wtarget :=
| TLocal (name : string)        (* a local variable                                  *)
| TSlot (name : string)         (* self.<name>[i], i the loop index                  *)
| TPData                        (* p.data, p the loop variable                       *)
| TPOther (attr : string).      (* any other attribute of p                          *)

Definition is_none {A} (o : option A) : bool := match o with None => true | Some _ => false end.
Definition is_some {A} (o : option A) : bool := match o with None => false | Some _ => true end.

(* ------------------------------------------------------------------------------------------ *)
(* The executable instance over Q.                                                             *)
Inductive qval := QS (q : Q) | QA (l : list Q).

Fixpoint zipq (f : Q -> Q -> Q) (l m : list Q) : list Q :=
  match l, m with
  | x :: l', y :: m' => Qred (f x y) :: zipq f l' m'
  | _, _ => []
  end.

Definition qbin (f : Q -> Q -> Q) (a b : qval) : qval :=
  match a, b with
  | QS x, QS y => QS (Qred (f x y))
  | QS x, QA m => QA (map (fun y => Qred (f x y)) m)
  | QA l, QS y => QA (map (fun x => Qred (f x y)) l)
  | QA l, QA m => QA (zipq f l m)
  end.

Definition qun (f : Q -> Q) (a : qval) : qval :=
  match a with QS x => QS (Qred (f x)) | QA l => QA (map (fun x => Qred (f x)) l) end.

(* floor(sqrt(x) * 10^40) / 10^40 for x >= 0 (0 for x < 0, where NumPy gives nan: outside the model) *)
Definition sqrt_scale : Z := (10 ^ 40)%Z.
Definition qsqrt40 (x : Q) : Q :=
  let n := Qnum x in
  let d := Zpos (Qden x) in
  Qred (Qmake (Z.sqrt (n * d * sqrt_scale * sqrt_scale)) (Qden x * Z.to_pos sqrt_scale)).

(* quotients of the running instance are rounded down to 60 decimal digits: keeps the rationals of Adam/AdamW runs
   (which are compared with float64 at relative 1e-9 anyway) small.  SGD uses no array division and stays exact. *)
Definition div_scale : Z := (10 ^ 60)%Z.
Definition qround60 (x : Q) : Q :=
  Qred (Qmake ((Qnum x * div_scale) / Zpos (Qden x)) (Z.to_pos div_scale)).
Definition qdiv60 (a b : Q) : Q := qround60 (a / b).

Fixpoint qpown (x : Q) (n : nat) : Q := match n with O => 1 | S k => x * qpown x k end.

Definition q_ops : arr_ops :=
  {| V := qval;
     vconst := fun q => QS q;
     vzeros_like := fun v => match v with QS _ => QS 0 | QA l => QA (map (fun _ => 0) l) end;
     vadd := qbin Qplus; vsub := qbin Qminus; vmul := qbin Qmult; vdiv := qbin qdiv60;
     vneg := qun Qopp; vsqrt := qun qsqrt40;
     vpown := fun v n => qun (fun x => qpown x n) v |}.

(* canonical element list of a value of the Q instance for a parameter of [n] elements *)
Definition q_elems (n : nat) (v : qval) : list Q :=
  match v with QS q => repeat q n | QA l => l end.

(* ------------------------------------------------------------------------------------------ *)
(* Histories: what the user does with the parameters and the optimizer. *)
Inductive ev (A : Type) : Type :=
| Backward (gs : list (option A))   (* loss.backward(): parameter k receives the gradient contribution gs[k]
                                       (None: it is not part of the graph of this loss)                       *)
| ZeroGrad                          (* optimizer.zero_grad()                                                  *)
| Step                              (* optimizer.step()                                                       *)
| Freeze (i : nat)                  (* parameter i: requires_grad = False                                     *)
| Unfreeze (i : nat).               (* parameter i: requires_grad = True                                      *)
Arguments Backward {A} gs.
Arguments ZeroGrad {A}.
Arguments Step {A}.
Arguments Freeze {A} i.
Arguments Unfreeze {A} i.

Fixpoint upd_nth {A} (n : nat) (f : A -> A) (l : list A) : list A :=
  match l, n with
  | [], _ => []
  | x :: t, O => f x :: t
  | x :: t, S m => x :: upd_nth m f t
  end.
