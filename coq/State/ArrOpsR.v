(* The array back-end used in the proofs: an array is a function from the (flat) element index to a
   real number; every operation is pointwise, scalars broadcast (constant functions).
   Model file: definitions only. *)
From Coq Require Import Reals QArith Qreals.
From SG Require Import State.ArrOps.

Definition vec := nat -> R.

Definition fun_ops : arr_ops :=
  {| V := vec;
     vconst := fun q _ => Q2R q;
     vzeros_like := fun _ _ => 0%R;
     vadd := fun a b k => (a k + b k)%R;
     vsub := fun a b k => (a k - b k)%R;
     vmul := fun a b k => (a k * b k)%R;
     vdiv := fun a b k => (a k / b k)%R;
     vneg := fun a k => (- a k)%R;
     vsqrt := fun a k => sqrt (a k);
     vpown := fun a n k => (a k ^ n)%R |}.
