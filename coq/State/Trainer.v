(* Model of synapgrad/nn/utils/train.py (property C20): Trainer.fit / __train / __validate / test as
   generators of the event trace, the history dictionary bookkeeping, loss averaging and Evaluator.

   Hand-written; tied to the code by the C20 correspondence (checks/c20.py: mock model / optimizer /
   criterion / loaders / evaluator / engine objects record the trace of the real Trainer.fit, compared with
   this model inside Coq, together with the returned history).  No proofs here.                            *)
From Coq Require Import List Bool Arith ZArith QArith String.
Import ListNotations.
Open Scope Q_scope.

(* ------------------------------------------------------------------------------------------ events *)
Inductive ev :=
| TrainMode | EvalMode                           (* self.model.train() / self.model.eval()                    *)
| KbarInit (epoch : nat) | KbarUpdate (i : nat) | KbarAdd      (* pkbar.Kbar(...), kbar.update(i), kbar.add(1) *)
| OnTrainEpochCb | OnValEpochCb                  (* on_train_epoch(model, loader) / on_validation_epoch(...)  *)
| Forward                                        (* self.model( *inputs )                                     *)
| Criterion                                      (* self.criterion(outputs, labels)                           *)
| EvalStep (val : bool)                          (* self.evaluator.step(labels, outputs[, prefix='val'])      *)
| EvalCompute (val : bool)                       (* self.evaluator.compute([prefix='val'])                    *)
| ZeroGrad | Backward | Step                     (* optimizer.zero_grad(); train_loss.backward(); optimizer.step() *)
| NoGradNew | NoGradEnter | NoGradExit.          (* self.engine.no_grad(), its __enter__ and __exit__         *)

Record cfg := { nb : nat;                        (* number of batches the train loader yields                 *)
                val : option nat;                (* validation loader: number of batches                      *)
                has_eval : bool;                 (* self.evaluator != None                                    *)
                cb_train : bool;                 (* on_train_epoch is not None                                *)
                cb_val : bool }.                 (* on_validation_epoch is not None                           *)

Definition opt_ev (b : bool) (e : ev) : list ev := if b then [e] else [].

(* one iteration of the loop of __train (train.py:172-186) *)
Definition train_batch (c : cfg) (i : nat) : list ev :=
  [Forward; Criterion] ++ opt_ev (has_eval c) (EvalStep false) ++ [ZeroGrad; Backward; Step; KbarUpdate i].

(* __train (168-191).  The boolean is false when the call raises: with an empty loader `i` is unbound at
   `epoch_train_loss / (i + 1)` (UnboundLocalError). *)
Definition train_part (c : cfg) : list ev * bool :=
  let body := TrainMode :: flat_map (train_batch c) (seq 0 (nb c)) in
  if Nat.eqb (nb c) 0 then (body, false)
  else (body ++ opt_ev (has_eval c) (EvalCompute false), true).

Definition val_batch (c : cfg) : list ev :=
  [Forward; Criterion] ++ opt_ev (has_eval c) (EvalStep true).

(* __validate (193-210); an exception inside the with block still runs no_grad.__exit__ *)
Definition validate_part (c : cfg) (nbv : nat) : list ev * bool :=
  let body := [EvalMode; NoGradNew; NoGradEnter] ++ flat_map (fun _ => val_batch c) (seq 0 nbv) in
  if Nat.eqb nbv 0 then (body ++ [NoGradExit], false)
  else (body ++ opt_ev (has_eval c) (EvalCompute true) ++ [NoGradExit], true).

(* one iteration of the epoch loop of fit (149-164) *)
Definition epoch_part (c : cfg) (e : nat) : list ev * bool :=
  let pre := [TrainMode; KbarInit e] ++ opt_ev (cb_train c) OnTrainEpochCb in
  let (t, ok) := train_part c in
  if negb ok then (pre ++ t, false) else
  match val c with
  | None => (pre ++ t ++ [KbarAdd], true)
  | Some nbv =>
      let (v, okv) := validate_part c nbv in
      let all := pre ++ t ++ opt_ev (cb_val c) OnValEpochCb ++ v in
      if okv then (all ++ [KbarAdd], true) else (all, false)
  end.

(* for epoch in range(e, e + epochs) *)
Fixpoint fit_from (c : cfg) (e epochs : nat) : list ev * bool :=
  match epochs with
  | O => ([], true)
  | S k => let (t, ok) := epoch_part c e in
           if ok then let (r, ok') := fit_from c (S e) k in (t ++ r, ok') else (t, false)
  end.

Definition fit (c : cfg) (epochs : nat) : list ev * bool := fit_from c 0 epochs.

(* Trainer.test (232-250) over a loader of nbt batches *)
Definition test_trace (nbt : nat) : list ev :=
  [EvalMode; NoGradNew; NoGradEnter] ++ repeat Forward nbt ++ [NoGradExit].

(* ------------------------------------------------------------------------- modes along a trace *)
(* model.training, tensor.gradient__, the `prev` stack of the no_grad objects entered since the start and
   their number *)
Record mst := { mtrain : bool; mgrad : bool; msaved : list bool; mdepth : nat }.

Definition mstep (s : mst) (e : ev) : mst :=
  match e with
  | TrainMode => {| mtrain := true; mgrad := mgrad s; msaved := msaved s; mdepth := mdepth s |}
  | EvalMode => {| mtrain := false; mgrad := mgrad s; msaved := msaved s; mdepth := mdepth s |}
  | NoGradEnter => {| mtrain := mtrain s; mgrad := false; msaved := mgrad s :: msaved s; mdepth := S (mdepth s) |}
  | NoGradExit => match msaved s with
                  | b :: r => {| mtrain := mtrain s; mgrad := b; msaved := r; mdepth := pred (mdepth s) |}
                  | [] => s
                  end
  | _ => s
  end.

Definition mrun (s : mst) (t : list ev) : mst := fold_left mstep t s.

(* the trace of a call in which the last event of [pre] raises: the prefix, then the __exit__ of the no_grad block
   that is open at that point (the `with` statement runs it while the exception propagates) *)
Definition unwind (m : mst) (pre : list ev) : list ev :=
  pre ++ (if Nat.eqb (mdepth (mrun m pre)) 0 then [] else [NoGradExit]).

(* the observation of the correspondence: (model.training, grad mode) in force when each event happens *)
Fixpoint annot (s : mst) (t : list ev) : list (ev * (bool * bool)) :=
  match t with
  | [] => []
  | e :: r => (e, (mtrain s, mgrad s)) :: annot (mstep s e) r
  end.

(* ------------------------------------------------------------------------------------- Evaluator *)
Inductive emode := Binary | MultiClass | Categorical.

(* np.argmax: index of the first maximal element *)
Fixpoint argmax (l : list Q) : nat :=
  match l with
  | [] => 0%nat
  | x :: t => match t with
              | [] => 0%nat
              | _ => let j := argmax t in if Qle_bool (nth j t 0) x then 0%nat else S j
              end
  end.

(* a batch as the evaluator sees it: rows of model outputs (one number per row in BINARY mode), integer
   labels (BINARY / MULTI_CLASS) or one-hot rows (CATEGORICAL) *)
Record ebatch := { outs : list (list Q); labz : list Z; labrows : list (list Q) }.

Definition decode_pred (m : emode) (row : list Q) : Z :=
  match m with
  | Binary => match row with o :: _ => if Qle_bool o (1 # 2) then 0%Z else 1%Z | [] => 0%Z end   (* outputs > 0.5 *)
  | _ => Z.of_nat (argmax row)
  end.

Definition batch_pred (m : emode) (b : ebatch) : list Z := map (decode_pred m) (outs b).
Definition batch_true (m : emode) (b : ebatch) : list Z :=
  match m with
  | Categorical => map (fun r => Z.of_nat (argmax r)) (labrows b)
  | _ => labz b
  end.

Record evaluator := { acc_on : bool;                                             (* accuracy=True            *)
                      emode_of : emode;
                      ecb : option (list Z -> list Z -> list (string * Q)) }.    (* epoch_callback(y_true, y_pred) *)

(* Evaluator state: (self.y_true, self.y_pred) *)
Definition estate := (list Z * list Z)%type.

(* Evaluator.step squeezes labels and outputs (`labels.squeeze()`, `outputs.squeeze()`): for a batch of ONE
   sample this also removes the batch axis, and np.concatenate (BINARY: 0-d arrays) or np.argmax(axis=1)
   (MULTI_CLASS / CATEGORICAL: 1-d array) raises.  [eval_step] below describes the other batches only. *)
Definition eval_step_defined (b : ebatch) : bool := negb (Nat.eqb (List.length (outs b)) 1).

Definition eval_step (E : evaluator) (st : estate) (b : ebatch) : estate :=
  (fst st ++ batch_true (emode_of E) b, snd st ++ batch_pred (emode_of E) b).

(* basic_accuracy_callback: (y_true == y_pred).sum() / len(y_true) *)
Fixpoint count_eq (yt yp : list Z) : nat :=
  match yt, yp with
  | a :: t1, b :: t2 => (if Z.eqb a b then 1 else 0)%nat + count_eq t1 t2
  | _, _ => 0%nat
  end.
Definition qnat (n : nat) : Q := inject_Z (Z.of_nat n).
Definition accuracy (yt yp : list Z) : Q := qnat (count_eq yt yp) / qnat (List.length yt).

Definition add_prefix (p : option string) (ms : list (string * Q)) : list (string * Q) :=
  match p with
  | Some pre => map (fun kv => (append pre (append "_" (fst kv)), snd kv)) ms
  | None => ms
  end.

(* Evaluator.compute(prefix): metrics over everything accumulated since the last compute, then reset *)
Definition eval_compute (E : evaluator) (p : option string) (st : estate) : list (string * Q) * estate :=
  let ms := (if acc_on E then [("accuracy"%string, accuracy (fst st) (snd st))] else [])
            ++ match ecb E with Some f => f (fst st) (snd st) | None => [] end in
  (add_prefix p ms, ([], [])).

(* ------------------------------------------------------------------------------------- history *)
Definition hist := list (string * list Q).      (* a dict in insertion order *)

(* `if dictionary.get(k, False): dictionary[k].append(v)  else: dictionary[k] = [v]` *)
Fixpoint record_one (k : string) (v : Q) (h : hist) : hist :=
  match h with
  | [] => [(k, [v])]
  | (k', l) :: t => if String.eqb k k'
                    then (k', match l with [] => [v] | _ => l ++ [v] end) :: t
                    else (k', l) :: record_one k v t
  end.

Definition record_metrics (h : hist) (ms : list (string * Q)) : hist :=
  fold_left (fun h kv => record_one (fst kv) (snd kv) h) ms h.

Fixpoint lookup (k : string) (h : hist) : option (list Q) :=
  match h with
  | [] => None
  | (k', l) :: t => if String.eqb k k' then Some l else lookup k t
  end.

(* epoch_train_loss = 0; += loss.item() per batch; / (i + 1) with i the last index of enumerate *)
Definition epoch_loss (losses : list Q) (last_i : nat) : Q :=
  fold_left Qplus losses 0 / qnat (last_i + 1).

(* what the run consumes: per-epoch, per-batch losses (criterion values) and evaluator batches *)
Record run_data := { tloss : nat -> nat -> Q; vloss : nat -> nat -> Q;
                     tbatch : nat -> nat -> ebatch; vbatch : nat -> nat -> ebatch }.

Definition eval_epoch (E : option evaluator) (p : option string) (st : estate) (bs : list ebatch)
  : list (string * Q) * estate :=
  match E with
  | None => ([], st)
  | Some E => eval_compute E p (fold_left (eval_step E) bs st)
  end.

(* the list returned by __train / __validate in epoch e (for loaders of nb >= 1 / nbv >= 1 batches) *)
Definition train_metrics (E : option evaluator) (d : run_data) (n e : nat) (st : estate) : list (string * Q) * estate :=
  let (ms, st') := eval_epoch E None st (map (tbatch d e) (seq 0 n)) in
  (("loss"%string, epoch_loss (map (tloss d e) (seq 0 n)) (n - 1)) :: ms, st').

Definition val_metrics (E : option evaluator) (d : run_data) (nv e : nat) (st : estate) : list (string * Q) * estate :=
  let (ms, st') := eval_epoch E (Some "val"%string) st (map (vbatch d e) (seq 0 nv)) in
  (("val_loss"%string, epoch_loss (map (vloss d e) (seq 0 nv)) (nv - 1)) :: ms, st').

Definition epoch_history (E : option evaluator) (d : run_data) (n : nat) (v : option nat) (e : nat)
           (hs : hist * estate) : hist * estate :=
  let (h, st) := hs in
  let (tm, st1) := train_metrics E d n e st in
  let h1 := record_metrics h tm in
  match v with
  | None => (h1, st1)
  | Some nv => let (vm, st2) := val_metrics E d nv e st1 in (record_metrics h1 vm, st2)
  end.

(* self.history after fit(train_loader, epochs, validation_loader); the evaluator starts empty *)
Definition fit_history (E : option evaluator) (d : run_data) (n : nat) (v : option nat) (epochs : nat) : hist :=
  fst (fold_left (fun hs e => epoch_history E d n v e hs) (seq 0 epochs) ([], ([], []))).
