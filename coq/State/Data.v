(* Model of synapgrad/nn/utils/data.py — split_dataset, one_hot_encode, DataLoader.
   Hand-written model on lists; tied to the code by the C18 correspondence (checks/c18.py).
   No proofs here (Proofs/DataProofs.v).

   Conventions
   * a data set is a list of samples X and a list of labels y (any types);
   * [None] models "the code raises" (IndexError on a missing sample, ZeroDivisionError for batch size 0,
     StopIteration for an exhausted loader);
   * the split sizes enter as naturals: the code computes  split = int(np.floor(test_split * data_size))
     with a *float* product; the check computes that number the same way (math.floor(float(f)*n)), compares
     it with the implementation's set sizes and passes it to the model.  [floor_size] is the rule on exact
     rationals (theorems about its range are in DataProofs.v);
   * np.random.shuffle(indices) is an arbitrary rearrangement of [0..n-1] given as an oracle input [perm]. *)
From Coq Require Import List Bool Arith ZArith QArith Qround.
Import ListNotations.
Local Open Scope nat_scope.

(* ---------------------------------------------------------------- split_dataset (data.py:6-44) *)

(* the floor rule on exact rationals:  int(floor(f * n)) *)
Definition floor_size (f : Q) (n : nat) : Z := Qfloor (f * inject_Z (Z.of_nat n))%Q.

(* indices = list(range(data_size)); if shuffle: np.random.shuffle(indices) *)
Definition indices (n : nat) (perm : option (list nat)) : list nat :=
  match perm with None => seq 0 n | Some p => p end.

(* get_split_indices: (train, test, val) from the index list and the two sizes
     train_val, test = indices[split:], indices[:split]
     train, val      = train_val[val_split:], train_val[:val_split]     (val only if val_split is not None) *)
Definition split_indices (idx : list nat) (k_test : nat) (k_val : option nat)
  : list nat * list nat * option (list nat) :=
  let test := firstn k_test idx in
  let train_val := skipn k_test idx in
  match k_val with
  | Some kv => (skipn kv train_val, test, Some (firstn kv train_val))
  | None => (train_val, test, None)
  end.

(* [ X[ind] for ind in idx ]  — None if some index is out of range (IndexError) *)
Fixpoint pick {A} (X : list A) (idx : list nat) : option (list A) :=
  match idx with
  | [] => Some []
  | i :: t => match nth_error X i, pick X t with
              | Some x, Some r => Some (x :: r)
              | _, _ => None
              end
  end.

Definition pick2 {A B} (X : list A) (y : list B) (idx : list nat) : option (list A * list B) :=
  match pick X idx, pick y idx with
  | Some a, Some b => Some (a, b)
  | _, _ => None
  end.

Record split_result (A B : Type) := {
  s_train : list A * list B;
  s_test  : list A * list B;
  s_val   : option (list A * list B) }.
Arguments s_train {A B}. Arguments s_test {A B}. Arguments s_val {A B}.

(* split_dataset(X, y, test_split, val_split, shuffle); data_size = len(X).  The final check_sum assertion
   of the code compares lengths that are equal by construction (proved: split_sizes). *)
Definition split_dataset {A B} (X : list A) (y : list B) (k_test : nat) (k_val : option nat)
           (perm : option (list nat)) : option (split_result A B) :=
  let '(tr, te, va) := split_indices (indices (length X) perm) k_test k_val in
  match pick2 X y tr, pick2 X y te with
  | Some dtr, Some dte =>
      match va with
      | None => Some {| s_train := dtr; s_test := dte; s_val := None |}
      | Some v => match pick2 X y v with
                  | Some dv => Some {| s_train := dtr; s_test := dte; s_val := Some dv |}
                  | None => None
                  end
      end
  | _, _ => None
  end.

(* Argument forms of `shuffle`.  The code tests `if shuffle:` — Python truthiness — so every falsy value (False,
   np.bool_(False), 0) keeps the original order and every truthy one (True, np.bool_(True), a non-zero int) shuffles with
   NumPy's global generator (the permutation is the oracle input; it is ignored when the argument is falsy). *)
Inductive shuffle_arg := SBool (b : bool) | SNpBool (b : bool) | SInt (z : Z).

Definition truthy (a : shuffle_arg) : bool :=
  match a with SBool b => b | SNpBool b => b | SInt z => negb (z =? 0)%Z end.

Definition split_dataset_a {A B} (X : list A) (y : list B) (k_test : nat) (k_val : option nat)
           (a : shuffle_arg) (perm : list nat) : option (split_result A B) :=
  split_dataset X y k_test k_val (if truthy a then Some perm else None).

(* ---------------------------------------------------------------- one_hot_encode (data.py:47-56) *)

(* np.unique on integer labels: sorted, distinct (insertion into a strictly increasing list) *)
Fixpoint insert_uniq (x : Z) (l : list Z) : list Z :=
  match l with
  | [] => [x]
  | h :: t => if (x <? h)%Z then x :: l else if (x =? h)%Z then l else h :: insert_uniq x t
  end.

Definition uniques (y : list Z) : list Z := fold_right insert_uniq [] y.

(* list.index(label): position of the first occurrence, None = ValueError *)
Fixpoint index_of (x : Z) (l : list Z) : option nat :=
  match l with
  | [] => None
  | h :: t => if (x =? h)%Z then Some 0 else option_map S (index_of x t)
  end.

(* zeros = [0]*k ; zeros[i] = 1 *)
Fixpoint unit_row (k i : nat) : list nat :=
  match k with
  | 0 => []
  | S k' => match i with 0 => 1 :: repeat 0 k' | S i' => 0 :: unit_row k' i' end
  end.

Fixpoint collect {A} (l : list (option A)) : option (list A) :=
  match l with
  | [] => Some []
  | Some x :: t => option_map (cons x) (collect t)
  | None :: _ => None
  end.

Definition one_hot (y : list Z) : option (list (list nat)) :=
  let u := uniques y in
  collect (map (fun label => option_map (unit_row (length u)) (index_of label u)) y).

(* Label containers.  `for label in y` iterates the first axis, np.unique flattens: a container of shape (n,)
   (list or ndarray) IS the list of its n labels; a container of shape (n,1) — a column ndarray, or a nested list
   [[l0],[l1],...], which is what split_dataset hands back for (n,1) targets — is read row by row, row i = [y_i], and
   denotes the same list of n labels (each `label` is then a 1-element array/list, for which `uniques.index(label)`
   still finds the label).  A row of any other width makes `uniques.index` raise (ambiguous truth value): None. *)
Inductive labels := Flat (y : list Z) | Column (rows : list (list Z)).

Definition labels_of (c : labels) : option (list Z) :=
  match c with
  | Flat y => Some y
  | Column rows => collect (map (fun r => match r with [x] => Some x | _ => None end) rows)
  end.

Definition one_hot_c (c : labels) : option (list (list nat)) :=
  match labels_of c with Some y => one_hot y | None => None end.

(* ---------------------------------------------------------------- DataLoader (data.py:66-100) *)
Section Loader.
  Variables A B : Type.
  Definition batch := (list A * list B)%type.

  Record loader := {
    LX : list A;
    Ly : list B;
    bsize : nat;                         (* self.batach_size *)
    transform : option (batch -> batch)  (* None or a callable (data_loader, X_batch, y_batch) -> batch *)
  }.

  (* state: the shared cursor self.step, and (ghost) the list of raw batches handed to the transform so far *)
  Record lstate := { cursor : nat; tlog : list batch }.

  Definition linit : lstate := {| cursor := 0; tlog := [] |}.   (* __init__: self.step = 0 *)

  (* __len__ : len(self.y) // self.batach_size ; None = ZeroDivisionError *)
  Definition llen (L : loader) : option nat :=
    match bsize L with 0 => None | S _ => Some (length (Ly L) / bsize L) end.

  (* Python slice l[start:end] for 0 <= start <= end (clipped at the end of the list) *)
  Definition slice {T} (l : list T) (start stop : nat) : list T := firstn (stop - start) (skipn start l).

  Definition raw_batch (L : loader) (idx : nat) : batch :=
    let start := idx * bsize L in
    let stop := idx * bsize L + bsize L in
    (slice (LX L) start stop, slice (Ly L) start stop).

  (* __getitem__(idx): the batch, and the transform log *)
  Definition getitem (L : loader) (idx : nat) (s : lstate) : batch * lstate :=
    let rb := raw_batch L idx in
    match transform L with
    | None => (rb, s)
    | Some f => (f rb, {| cursor := cursor s; tlog := tlog s ++ [rb] |})
    end.

  Inductive lev :=
  | Iter                 (* iter(loader): __iter__ resets the cursor and returns the loader itself *)
  | Next (handle : nat)  (* next(it) on the handle-th iterator obtained so far: every handle IS the loader *)
  | Len                  (* len(loader) *)
  | Get (idx : nat).     (* loader[idx] *)

  Inductive lout :=
  | OIter | OBatch (b : batch) | OStop | OLen (n : nat) | ORaise.

  Definition lstep (L : loader) (s : lstate) (e : lev) : lout * lstate :=
    match e with
    | Iter => (OIter, {| cursor := 0; tlog := tlog s |})
    | Next _ =>
        match llen L with
        | None => (ORaise, s)
        | Some n =>
            if cursor s <? n then
              let '(b, s1) := getitem L (cursor s) s in
              (OBatch b, {| cursor := S (cursor s1); tlog := tlog s1 |})
            else (OStop, s)
        end
    | Len => match llen L with None => (ORaise, s) | Some n => (OLen n, s) end
    | Get idx => let '(b, s1) := getitem L idx s in (OBatch b, s1)
    end.

  Fixpoint lrun (L : loader) (s : lstate) (t : list lev) : list lout * lstate :=
    match t with
    | [] => ([], s)
    | e :: t' => let '(o, s1) := lstep L s e in
                 let '(os, s2) := lrun L s1 t' in (o :: os, s2)
    end.

  (* `for b in loader: ...` : iter, then next until StopIteration; fuel bounds the number of next calls.
     Returns the batches produced (None if the loop did not stop within the fuel or raised). *)
  Fixpoint drain (L : loader) (fuel : nat) (s : lstate) : option (list batch) * lstate :=
    match fuel with
    | 0 => (None, s)
    | S f => match lstep L s (Next 0) with
             | (OBatch b, s1) => let '(r, s2) := drain L f s1 in (option_map (cons b) r, s2)
             | (OStop, s1) => (Some [], s1)
             | (_, s1) => (None, s1)
             end
    end.

  Definition for_loop (L : loader) (s : lstate) : option (list batch) * lstate :=
    let '(_, s1) := lstep L s Iter in
    drain L (S (length (Ly L))) s1.

  (* the batches the property speaks of *)
  Definition window {T} (l : list T) (i b : nat) : list T := firstn b (skipn (i * b) l).
  Definition apply_tr (L : loader) (b : batch) : batch :=
    match transform L with None => b | Some f => f b end.
  Definition spec_batches (L : loader) : list batch :=
    map (fun i => apply_tr L (window (LX L) i (bsize L), window (Ly L) i (bsize L)))
        (seq 0 (length (Ly L) / bsize L)).
End Loader.

Arguments LX {A B}. Arguments Ly {A B}. Arguments bsize {A B}. Arguments transform {A B}.
Arguments cursor {A B}. Arguments tlog {A B}.
Arguments linit {A B}. Arguments llen {A B}. Arguments raw_batch {A B}. Arguments getitem {A B}.

Arguments OIter {A B}. Arguments OBatch {A B}. Arguments OStop {A B}. Arguments OLen {A B}. Arguments ORaise {A B}.
Arguments lstep {A B}. Arguments lrun {A B}. Arguments drain {A B}. Arguments for_loop {A B}.
Arguments spec_batches {A B}. Arguments apply_tr {A B}.
