(* Hand model of the objects an optimizer works on (synapgrad/tensor.py: _grad, zero_, backward's
   accumulation into leaves, the requires_grad flag; synapgrad/optim/optimizers.py: Optimizer.zero_grad,
   the loop of step over self.parameters, the per-parameter state lists) driven over histories.
   The per-parameter update itself is NOT written here: it is the generated Gen/GenOptim.v.
   Tied to the code by the C08 correspondence (checks/c08.py).  Model file: definitions only.

   Array identity.  Every parameter owns a private heap of gradient arrays ([heap], append-only); p._grad is a
   location [gcur] in it.  backward accumulates IN PLACE into that location (creating a zero array first if
   p._grad is None); Tensor.zero_() REBINDS p._grad to a fresh zero array (a new location).  An array stored in
   an optimizer slot is either its own storage ([Own v]) or the gradient buffer object itself ([Ref l]) —
   decided by the flag the translator computed for that store; a [Ref] slot is read through the heap and
   therefore changes when backward accumulates into the buffer later.
   The loop body of step only touches p (the loop variable) and self.<slot>[i] (translator whitelist), so
   parameters are independent of each other: the state is a list of per-parameter records. *)
From Coq Require Import List Bool Arith QArith.
Import ListNotations.
From SG Require Import State.ArrOps Gen.GenOptim.

Section Machine.
Variable O : arr_ops.
Notation V := (V O).

Inductive sref := Own (v : V) | Ref (l : nat).

(* value of a stored slot.  The default is only reached for a dangling location, which no run produces
   (Proofs/OptimProofs.v: every stored slot is [Own] in all reachable states). *)
Definition deref (heap : list V) (r : sref) : V :=
  match r with Own v => v | Ref l => nth l heap (vconst O 0) end.

Definition store (gcur : option nat) (v : V) (aliases_grad : bool) : sref :=
  match aliases_grad, gcur with
  | true, Some l => Ref l
  | _, _ => Own v
  end.

Definition apply_upd (gcur : option nat) (old : sref) (u : upd V) : sref :=
  match u with Keep => old | Store v al => store gcur v al end.

Definition apply_upd_opt (gcur : option nat) (old : option sref) (u : upd V) : option sref :=
  match u with Keep => old | Store v al => Some (store gcur v al) end.

(* the value of p._grad *)
Definition grad_of (gcur : option nat) (heap : list V) : option V :=
  match gcur with Some l => nth_error heap l | None => None end.

Variable St : Type.                      (* optimizer state kept for one parameter (stored form) *)
(* update of one parameter by the loop body: self.t (already incremented), p.requires_grad, p._grad (location
   and heap), the parameter's slots, p.data  |->  None (skipped) or new slots and new p.data *)
Variable pstep : nat -> bool -> option nat -> list V -> St -> V -> option (St * V).

Record param := mkParam {
  data : V;                  (* contents of p.data (the ndarray object never changes: only -=/+= are applied) *)
  req : bool;                (* p.requires_grad                                                              *)
  given : bool;              (* is p in optimizer.parameters ?                                               *)
  heap : list V;             (* gradient arrays that were ever bound to p._grad                              *)
  gcur : option nat;         (* p._grad : None or a location in heap                                         *)
  slots : St }.

Record ost := mkOst { tcount : nat; ps : list param }.

Definition grad_val (p : param) : option V := grad_of (gcur p) (heap p).

Definition set_req (b : bool) (p : param) : param :=
  mkParam (data p) b (given p) (heap p) (gcur p) (slots p).

(* leaf accumulation of backward: `if child._grad is None: child.zero_()` then `_grad += g` (in place) *)
Definition accumulate (p : param) (g : V) : param :=
  if req p then
    match gcur p with
    | Some l => mkParam (data p) (req p) (given p) (upd_nth l (fun b => vadd O b g) (heap p)) (Some l) (slots p)
    | None => mkParam (data p) (req p) (given p) (heap p ++ [vadd O (vzeros_like O (data p)) g]) (Some (length (heap p))) (slots p)
    end
  else p.

Definition backward1 (p : param) (g : option V) : param :=
  match g with Some g => accumulate p g | None => p end.

Fixpoint backward (l : list param) (gs : list (option V)) : list param :=
  match l, gs with
  | p :: l', g :: gs' => backward1 p g :: backward l' gs'
  | _, _ => l
  end.

(* Tensor.zero_(): self.grad = Tensor(np.zeros_like(self.data)) — a new array object *)
Definition zero1 (p : param) : param :=
  mkParam (data p) (req p) (given p) (heap p ++ [vzeros_like O (data p)]) (Some (length (heap p))) (slots p).

Definition step1 (t : nat) (p : param) : param :=
  if given p then
    match pstep t (req p) (gcur p) (heap p) (slots p) (data p) with
    | Some (s', d') => mkParam d' (req p) (given p) (heap p) (gcur p) s'
    | None => p
    end
  else p.

Definition do_ev (s : ost) (e : ev V) : ost :=
  match e with
  | Backward gs => mkOst (tcount s) (backward (ps s) gs)
  | ZeroGrad => mkOst (tcount s) (map (fun p => if given p then zero1 p else p) (ps s))
  | Step => mkOst (S (tcount s)) (map (step1 (S (tcount s))) (ps s))
  | Freeze i => mkOst (tcount s) (upd_nth i (set_req false) (ps s))
  | Unfreeze i => mkOst (tcount s) (upd_nth i (set_req true) (ps s))
  end.

Definition run (s : ost) (h : list (ev V)) : ost := fold_left do_ev h s.

(* a freshly created tensor / optimizer: no gradient, initial slots *)
Definition new_param (sinit : St) (d : V) (r g : bool) : param := mkParam d r g [] None sinit.
Definition init (sinit : St) (l : list (V * bool * bool)) : ost :=
  mkOst 0 (map (fun '(d, r, g) => new_param sinit d r g) l).

End Machine.

Arguments Own {O} v.
Arguments Ref {O} l.
Arguments data {O St} p.
Arguments req {O St} p.
Arguments given {O St} p.
Arguments heap {O St} p.
Arguments gcur {O St} p.
Arguments slots {O St} p.
Arguments tcount {O St} o.
Arguments ps {O St} o.
Arguments mkParam {O St}.
Arguments mkOst {O St}.

(* ---------------------------------------------------------------------------------------------- *)
(* The three optimizers: adapters between the stored slots (with array identity) and the generated step. *)
Section Optimizers.
Variable O : arr_ops.
Notation V := (V O).

(* SGD: self.momentum_buffer[i] : None | array *)
Definition sgd_slots := option (sref O).
Definition sgd_sinit : sgd_slots := option_map Own (sgd_init_momentum_buffer O).
Definition sgd_pstep (h : sgd_hyper) (t : nat) (r : bool) (gcur : option nat) (heap : list V) (s : sgd_slots) (d : V)
  : option (sgd_slots * V) :=
  match sgd_step O h t r (grad_of O gcur heap) (option_map (deref O heap) s) d with
  | None => None
  | Some (d', u) => Some (apply_upd_opt O gcur s u, d')
  end.

(* Adam / AdamW: self.m1[i], self.m2[i] : arrays (initially the Python int 0), self.steps[i] : int *)
Definition adam_slots := (sref O * sref O * nat)%type.
Definition adam_sinit : adam_slots := (Own (adam_init_m1 O), Own (adam_init_m2 O), adam_init_steps).
Definition adam_pstep (h : adam_hyper) (t : nat) (r : bool) (gcur : option nat) (heap : list V) (s : adam_slots) (d : V)
  : option (adam_slots * V) :=
  let '(m1, m2, n) := s in
  match adam_step O h t r (grad_of O gcur heap) (deref O heap m1) (deref O heap m2) n d with
  | None => None
  | Some (d', u1, u2, n') => Some ((apply_upd O gcur m1 u1, apply_upd O gcur m2 u2, n'), d')
  end.

Definition adamw_sinit : adam_slots := (Own (adamw_init_m1 O), Own (adamw_init_m2 O), adamw_init_steps).
Definition adamw_pstep (h : adamw_hyper) (t : nat) (r : bool) (gcur : option nat) (heap : list V) (s : adam_slots) (d : V)
  : option (adam_slots * V) :=
  let '(m1, m2, n) := s in
  match adamw_step O h t r (grad_of O gcur heap) (deref O heap m1) (deref O heap m2) n d with
  | None => None
  | Some (d', u1, u2, n') => Some ((apply_upd O gcur m1 u1, apply_upd O gcur m2 u2, n'), d')
  end.

(* what can be observed of the slots: their values (read through the heap) and whether they are the
   gradient buffer object *)
Definition is_ref (r : sref O) : bool := match r with Own _ => false | Ref _ => true end.
Definition sgd_obs (heap : list V) (s : sgd_slots) : option V := option_map (deref O heap) s.
Definition adam_obs (heap : list V) (s : adam_slots) : V * V * nat :=
  let '(m1, m2, n) := s in (deref O heap m1, deref O heap m2, n).

End Optimizers.
