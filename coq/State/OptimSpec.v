(* Specification for C08, written from the PyTorch documentation pages the docstrings of
   synapgrad/optim/optimizers.py cite (torch.optim.SGD / Adam / AdamW, "Algorithm" boxes) and from the
   property text — NOT from the code.  Real numbers; a parameter is a function from the element index to R
   (the algorithms act on every element alike).  Definitions only.

   The spec has no notion of array identity: it only says which gradient each step consumes —
   the sum of all gradients that backward produced for the parameter since the last zero_grad (several
   backward calls per step add up; a step without an intervening zero_grad re-uses the accumulated
   gradient) — and it says that a step leaves alone every tensor that is not a parameter of the
   optimizer, that does not require grad, or that has never received a gradient. *)
From Coq Require Import Reals QArith Qreals List Bool.
Import ListNotations.
From SG Require Import State.ArrOps State.ArrOpsR.
Local Open Scope R_scope.

(* ---- torch.optim.SGD ------------------------------------------------------------------------ *)
(* gamma (lr), mu (momentum), tau (dampening), lambda (weight decay), nesterov, maximize *)
Record sgd_conf := { c_lr : Q; c_mu : Q; c_tau : Q; c_lambda : Q; c_nesterov : bool; c_maximize : bool }.

(* state: the momentum buffer b (absent before the parameter's first update: "if t > 1 ... else b <- g") *)
Definition sgd_update (c : sgd_conf) (b : option vec) (theta g : vec) : option vec * vec :=
  (* g_t <- grad ; if lambda <> 0 : g_t <- g_t + lambda * theta *)
  let g1 : vec := if Qeq_bool (c_lambda c) 0 then g else fun k => g k + Q2R (c_lambda c) * theta k in
  (* if mu <> 0 : b <- mu b + (1 - tau) g_t (first time: b <- g_t) ; g_t <- g_t + mu b (nesterov) | b *)
  let bg : option vec * vec :=
    if Qeq_bool (c_mu c) 0 then (b, g1)
    else
      let b1 : vec := match b with
                      | None => g1
                      | Some b0 => fun k => Q2R (c_mu c) * b0 k + (1 - Q2R (c_tau c)) * g1 k
                      end in
      (Some b1, if c_nesterov c then (fun k => g1 k + Q2R (c_mu c) * b1 k) else b1) in
  (* theta <- theta + gamma g_t (maximize) | theta - gamma g_t *)
  (fst bg, if c_maximize c then (fun k => theta k + Q2R (c_lr c) * snd bg k)
           else (fun k => theta k - Q2R (c_lr c) * snd bg k)).

(* ---- torch.optim.Adam / AdamW (amsgrad = False) ---------------------------------------------- *)
Record adam_conf := { a_lr : Q; a_beta1 : Q; a_beta2 : Q; a_eps : Q; a_lambda : Q; a_maximize : bool }.

Definition adam_state := (vec * vec * nat)%type.        (* m, v, number of updates t of this parameter *)
Definition adam_state0 : adam_state := (fun _ => 0, fun _ => 0, O).

Definition adam_core (c : adam_conf) (m v : vec) (t : nat) (theta g1 : vec) : adam_state * vec :=
  let t' := S t in
  let m' : vec := fun k => Q2R (a_beta1 c) * m k + (1 - Q2R (a_beta1 c)) * g1 k in
  let v' : vec := fun k => Q2R (a_beta2 c) * v k + (1 - Q2R (a_beta2 c)) * (g1 k * g1 k) in
  let mhat : vec := fun k => m' k / (1 - Q2R (a_beta1 c) ^ t') in
  let vhat : vec := fun k => v' k / (1 - Q2R (a_beta2 c) ^ t') in
  ((m', v', t'), fun k => theta k - Q2R (a_lr c) * mhat k / (sqrt (vhat k) + Q2R (a_eps c))).

Definition adam_update (c : adam_conf) (s : adam_state) (theta g : vec) : adam_state * vec :=
  let '(m, v, t) := s in
  let g0 : vec := if a_maximize c then (fun k => - g k) else g in
  let g1 : vec := if Qeq_bool (a_lambda c) 0 then g0 else fun k => g0 k + Q2R (a_lambda c) * theta k in
  adam_core c m v t theta g1.

Definition adamw_update (c : adam_conf) (s : adam_state) (theta g : vec) : adam_state * vec :=
  let '(m, v, t) := s in
  let g0 : vec := if a_maximize c then (fun k => - g k) else g in
  let theta1 : vec := fun k => theta k - Q2R (a_lr c) * Q2R (a_lambda c) * theta k in
  adam_core c m v t theta1 g0.

(* ---- histories ------------------------------------------------------------------------------- *)
Section SpecMachine.
Variable SS : Type.                                       (* optimizer state of one parameter *)
Variable update : SS -> vec -> vec -> SS * vec.          (* state, theta, gradient -> state', theta' *)

Record sparam := mkSparam {
  sdata : vec;
  sreq : bool;                 (* requires grad *)
  sgiven : bool;               (* is a parameter of the optimizer *)
  sacc : option vec;           (* gradient accumulated since the last zero_grad; None: never received one *)
  sstate : SS }.

Definition s_backward1 (p : sparam) (g : option vec) : sparam :=
  match g with
  | Some g =>
      if sreq p then
        mkSparam (sdata p) (sreq p) (sgiven p)
                 (Some (fun k => match sacc p with Some a => a k | None => 0 end + g k)) (sstate p)
      else p
  | None => p
  end.

Fixpoint s_backward (l : list sparam) (gs : list (option vec)) : list sparam :=
  match l, gs with
  | p :: l', g :: gs' => s_backward1 p g :: s_backward l' gs'
  | _, _ => l
  end.

Definition s_zero (p : sparam) : sparam :=
  if sgiven p then mkSparam (sdata p) (sreq p) (sgiven p) (Some (fun _ => 0)) (sstate p) else p.

Definition s_step (p : sparam) : sparam :=
  if sgiven p && sreq p then
    match sacc p with
    | Some g => let r := update (sstate p) (sdata p) g in
                mkSparam (snd r) (sreq p) (sgiven p) (sacc p) (fst r)
    | None => p
    end
  else p.

Definition s_set_req (b : bool) (p : sparam) : sparam :=
  mkSparam (sdata p) b (sgiven p) (sacc p) (sstate p).

Definition s_ev (l : list sparam) (e : ev vec) : list sparam :=
  match e with
  | Backward gs => s_backward l gs
  | ZeroGrad => map s_zero l
  | Step => map s_step l
  | Freeze i => upd_nth i (s_set_req false) l
  | Unfreeze i => upd_nth i (s_set_req true) l
  end.

Definition s_run (l : list sparam) (h : list (ev vec)) : list sparam := fold_left s_ev h l.

Definition s_init (s0 : SS) (l : list (vec * bool * bool)) : list sparam :=
  map (fun '(d, r, g) => mkSparam d r g None s0) l.

End SpecMachine.

Arguments sdata {SS} s.
Arguments sreq {SS} s.
Arguments sgiven {SS} s.
Arguments sacc {SS} s.
Arguments sstate {SS} s.
Arguments mkSparam {SS}.
