(* Model of mode propagation through a module tree (synapgrad/nn/modules.py:22-34, Module.train / Module.eval:
   `self.training = b; for m in self.submodules(): m.train()/eval()`) for property C13: the BatchNorm / Dropout
   layer under test sits at a path [lp] below a root (nn.Sequential or a custom Module holding it as attribute);
   train()/eval() may be called on ANY node, forwards go through the root.

   A tree node carries its `training` flag and its registered submodules in registration order; a path is the list
   of child indices from the root.  Hand-written; tied to the code by the C13 correspondence (checks/c13.py).
   No proofs here.                                                                                              *)
From Coq Require Import List Bool Arith QArith.
Import ListNotations.
From SG Require Import State.BNDropout.

Inductive tree := Node (flag : bool) (kids : list tree).
Definition path := list nat.

(* m.train() / m.eval(): the flag of m and, recursively, of every submodule *)
Fixpoint set_all (b : bool) (t : tree) : tree :=
  match t with Node _ ks => Node b (map (set_all b) ks) end.

Fixpoint upd_kid {A} (n : nat) (f : A -> A) (l : list A) : list A :=
  match l, n with
  | [], _ => []
  | x :: r, O => f x :: r
  | x :: r, S m => x :: upd_kid m f r
  end.

(* the call on the node at path p (a path that does not exist changes nothing) *)
Fixpoint set_at (p : path) (b : bool) (t : tree) : tree :=
  match p with
  | [] => set_all b t
  | i :: q => match t with Node f ks => Node f (upd_kid i (set_at q b) ks) end
  end.

(* node.training *)
Fixpoint flag_at (t : tree) (p : path) : option bool :=
  match p, t with
  | [], Node f _ => Some f
  | i :: q, Node _ ks => match nth_error ks i with Some c => flag_at c q | None => None end
  end.

Fixpoint is_prefix (p q : path) : bool :=
  match p, q with
  | [], _ => true
  | a :: p', b :: q' => Nat.eqb a b && is_prefix p' q'
  | _ :: _, [] => false
  end.

(* a sequence of train()/eval() calls: (path of the node, requested mode) *)
Definition switches := list (path * bool).
Definition apply_switches (t : tree) (sw : switches) : tree :=
  fold_left (fun t pb => set_at (fst pb) (snd pb) t) sw t.

(* the mode requested by the last call on the layer or one of its ancestors ([f] if there is none) *)
Definition last_switch (lp : path) (f : bool) (sw : switches) : bool :=
  fold_left (fun m pb => if is_prefix (fst pb) lp then snd pb else m) sw f.

(* ---- BatchNorm inside a tree ---- *)
Inductive tev := Switch (p : path) (b : bool) | TForward (x : batch).

(* the layer object is the node at [lp]: its `training` attribute is that node's flag *)
Definition sync (lp : path) (t : tree) (s : bn) : bn :=
  match flag_at t lp with Some f => set_training f s | None => s end.

Definition tree_step (o : opts) (lp : path) (st : tree * bn) (e : tev) : (tree * bn) * obs :=
  match e with
  | Switch p b => let t' := set_at p b (fst st) in ((t', sync lp t' (snd st)), ONone)
  | TForward x => match forward o (snd st) x with
                  | Done s' out => ((fst st, s'), OOut out)
                  | Raised s' => ((fst st, s'), ORaise)
                  end
  end.

Fixpoint trun (o : opts) (lp : path) (st : tree * bn) (h : list tev) : tree * bn :=
  match h with [] => st | e :: r => trun o lp (fst (tree_step o lp st e)) r end.

(* observation of the correspondence: the layer's state and the outcome after every event *)
Fixpoint ttrace (o : opts) (lp : path) (st : tree * bn) (h : list tev) : list (bn * obs) :=
  match h with
  | [] => []
  | e :: r => let q := tree_step o lp st e in (snd (fst q), snd q) :: ttrace o lp (fst q) r
  end.

(* the history as the layer alone sees it: calls on the layer or an ancestor become Train/Eval, the others vanish *)
Definition project (lp : path) (h : list tev) : list ev :=
  flat_map (fun e => match e with
                     | Switch p b => if is_prefix p lp then [if b then Train else Eval] else []
                     | TForward x => [Forward x]
                     end) h.

(* Dropout inside a tree, after a sequence of switches *)
Definition tree_dropout (p : Q) (t : tree) (lp : path) (sw : switches) (r x : list Q) : option (list Q) :=
  match flag_at (apply_switches t sw) lp with
  | Some f => Some (dropout p f r x)
  | None => None
  end.

(* ---- one Dropout object called several times ---------------------------------------------------------------
   Every training-mode forward builds a NEW mask tensor (`Tensor(random_data.astype(x.dtype))`) that becomes an
   operand of that call's graph node; a later forward of the same layer object must not disturb it.  A session:
   mode switches on any node of the tree, forwards through the root (call number = position among the forwards),
   and backward of an earlier call's output with an upstream gradient, in any order.
   [dnodes]: per forward call, the mask tensor recorded in its graph (None: eval mode, the output IS the input). *)
Inductive dev :=
| DSwitch (p : path) (b : bool)
| DFwd (r x : list Q)
| DBwd (k : nat) (g : list Q).          (* out_k.backward(g): what lands in x_k.grad *)

Record dstate := { dtree : tree; dnodes : list (option (list Q)) }.

Inductive dobs := DNone | DOut (y : list Q) | DGrad (gx : list Q) | DErr.

Definition dstep (p : Q) (lp : path) (s : dstate) (e : dev) : dstate * dobs :=
  match e with
  | DSwitch q b => ({| dtree := set_at q b (dtree s); dnodes := dnodes s |}, DNone)
  | DFwd r x =>
      match flag_at (dtree s) lp with
      | Some true => ({| dtree := dtree s; dnodes := dnodes s ++ [Some (mask_tensor p r)] |},
                      DOut (map2 Qmult x (mask_tensor p r)))
      | Some false => ({| dtree := dtree s; dnodes := dnodes s ++ [None] |}, DOut x)
      | None => (s, DErr)
      end
  | DBwd k g =>
      match nth_error (dnodes s) k with
      | Some (Some m) => (s, DGrad (map2 Qmult g m))
      | Some None => (s, DGrad g)
      | None => (s, DErr)
      end
  end.

Fixpoint drun (p : Q) (lp : path) (s : dstate) (h : list dev) : dstate :=
  match h with [] => s | e :: t => drun p lp (fst (dstep p lp s e)) t end.

Fixpoint dtrace (p : Q) (lp : path) (s : dstate) (h : list dev) : list dobs :=
  match h with
  | [] => []
  | e :: t => let q := dstep p lp s e in snd q :: dtrace p lp (fst q) t
  end.
