(* Specification for C15, written from the property text and the PyTorch documentation of torch.nn.init
   (not from the code).  Real numbers.  Definitions only. *)
From Coq Require Import List ZArith Reals String.
Import ListNotations.
Local Open Scope R_scope.

(* PyTorch's fan definition: for a weight of rank >= 2,
   fan_in = shape[1] * prod(shape[2:]),  fan_out = shape[0] * prod(shape[2:]);  undefined below rank 2 *)
Definition spec_fans (shape : list Z) : option (Z * Z) :=
  match shape with
  | s0 :: s1 :: rest => Some ((s1 * fold_right Z.mul 1 rest)%Z, (s0 * fold_right Z.mul 1 rest)%Z)
  | _ => None
  end.

(* PyTorch's gain table (torch.nn.init.calculate_gain) *)
Inductive nonlin := NLinear | NConv1d | NConv2d | NSigmoid | NTanh | NRelu | NLeakyRelu | NSelu.

Definition nonlin_name (n : nonlin) : string :=
  match n with
  | NLinear => "linear" | NConv1d => "conv1d" | NConv2d => "conv2d" | NSigmoid => "sigmoid"
  | NTanh => "tanh" | NRelu => "relu" | NLeakyRelu => "leaky_relu" | NSelu => "selu"
  end%string.

(* slope: the negative slope given by the caller, None = not given (default 0.01) *)
Definition spec_gain (n : nonlin) (slope : option R) : R :=
  match n with
  | NLinear | NConv1d | NConv2d | NSigmoid => 1
  | NTanh => 5 / 3
  | NRelu => sqrt 2
  | NLeakyRelu => let s := match slope with Some s => s | None => 1 / 100 end in sqrt (2 / (1 + s * s))
  | NSelu => 3 / 4
  end.

(* documented scales *)
Definition xavier_uniform_bound (gain fan_in fan_out : R) : R := gain * sqrt (6 / (fan_in + fan_out)).
Definition xavier_normal_sd (gain fan_in fan_out : R) : R := gain * sqrt (2 / (fan_in + fan_out)).
Definition kaiming_uniform_bound (gain fan : R) : R := gain * sqrt (3 / fan).
Definition kaiming_normal_sd (gain fan : R) : R := gain / sqrt fan.
Definition layer_bound (fan_in : R) : R := 1 / sqrt fan_in.

Inductive fan_mode := FanIn | FanOut.
Definition mode_name (m : fan_mode) : string := match m with FanIn => "fan_in" | FanOut => "fan_out" end%string.
Definition mode_fan (m : fan_mode) (f : Z * Z) : Z := match m with FanIn => fst f | FanOut => snd f end.
