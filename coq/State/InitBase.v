(* Vocabulary of the generated initialiser definitions (Gen/GenInit.v).  Definitions only. *)
From Coq Require Import List Bool ZArith Reals String.
Import ListNotations.

(* the `param` argument of calculate_gain: None, a number (int or float, not bool), anything else *)
Inductive gparam := PNone | PNum (x : R) | PBad.

(* the call that ends a scaled initialiser: uniform_(tensor, low, high) / normal_(tensor, mean, std) *)
Inductive fill_call := Uniform (low high : R) | Normal (mean std : R).

Inductive ltarget := LWeight | LBias.

(* np.prod of a list of ints *)
Definition zprod (l : list Z) : Z := fold_right Z.mul 1%Z l.

(* fan[mode] for the pair returned by _calculate_fan_in_and_fan_out and mode in {0, 1} *)
Definition pick2 (p : Z * Z) (i : nat) : Z := match i with O => fst p | _ => snd p end.

(* list.index for `mode in fans_str` / fans_str.index(mode) *)
Fixpoint index_of (s : string) (l : list string) : option nat :=
  match l with
  | [] => None
  | x :: t => if String.eqb s x then Some O else option_map S (index_of s t)
  end.

(* effect summary of a plain filler *)
Record fill_effect := {
  fe_assigns : list string;     (* attributes of `tensor` that are assigned                   *)
  fe_source : string;           (* NumPy function producing the new array                     *)
  fe_args : list string;        (* its positional arguments (parameter names / tensor.shape)  *)
  fe_astype : string;           (* argument of .astype(...) applied to the new array ("" = none) *)
  fe_returns : string }.        (* what is returned                                           *)
