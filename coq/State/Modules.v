(* Model of synapgrad/nn/modules.py — Module registries, recursive collection, mode propagation, Sequential.
   Hand-written model; tied to the code by the C12 correspondence (checks/c12.py).  No proofs here
   (Proofs/ModulesProofs.v).

   A heap holds the modules and the parameters created so far (ids = creation order).
   * module  : _parameters and _submodules as ordered association lists with Python dict semantics
               (assigning an existing key replaces the value in place, a new key is appended, pop removes),
               and the flag `training`;
   * param   : number of elements, requires_grad, and the state of .grad (None / all zeros / something else).
   [None] models "the code raises" — or, for the fuelled traversals, "the code does not terminate" (a cycle
   in the submodule relation; excluded by hypothesis in the theorems and from generation in the check).
   Attribute names are strings; the names of the module's own bookkeeping attributes (_parameters, _submodules,
   _initialized, training) are not used as registry names (object.__setattr__ would overwrite the bookkeeping). *)
From Coq Require Import String DecimalString List Bool Arith.
Import ListNotations.
Local Open Scope nat_scope.

Definition name := string.

Record module := { m_params : list (name * nat); m_subs : list (name * nat); m_training : bool }.

Inductive gstate := GNone | GZero | GVal.   (* p._grad is None | all zeros (after zero_()) | some other array *)

Record param := { p_size : nat; p_req : bool; p_grad : gstate }.

Record heap := { mods : list module; pars : list param }.

Definition init : heap := {| mods := []; pars := [] |}.

(* ---- Python dict (insertion ordered) on association lists ---------------------------------------- *)
Fixpoint assoc_get {V} (k : name) (l : list (name * V)) : option V :=
  match l with
  | [] => None
  | (k', v) :: t => if String.eqb k k' then Some v else assoc_get k t
  end.

(* d[k] = v *)
Fixpoint assoc_set {V} (k : name) (v : V) (l : list (name * V)) : list (name * V) :=
  match l with
  | [] => [(k, v)]
  | (k', v') :: t => if String.eqb k k' then (k', v) :: t else (k', v') :: assoc_set k v t
  end.

(* d.pop(k, None) *)
Fixpoint assoc_pop {V} (k : name) (l : list (name * V)) : list (name * V) :=
  match l with
  | [] => []
  | (k', v') :: t => if String.eqb k k' then t else (k', v') :: assoc_pop k t
  end.

Fixpoint upd {A} (n : nat) (f : A -> A) (l : list A) : list A :=
  match l, n with
  | [], _ => []
  | x :: t, O => f x :: t
  | x :: t, S m => x :: upd m f t
  end.

Fixpoint sequence {A} (l : list (option A)) : option (list A) :=
  match l with
  | [] => Some []
  | Some x :: t => option_map (cons x) (sequence t)
  | None :: _ => None
  end.

Definition upd_mod (h : heap) (m : nat) (f : module -> module) : heap :=
  {| mods := upd m f (mods h); pars := pars h |}.
Definition upd_par (h : heap) (p : nat) (f : param -> param) : heap :=
  {| mods := mods h; pars := upd p f (pars h) |}.

Definition valid_mod (h : heap) (m : nat) : bool := m <? length (mods h).
Definition valid_par (h : heap) (p : nat) : bool := p <? length (pars h).

(* ---- registration (modules.py:53-94) ---------------------------------------------------------------- *)
(* register_module:  self._parameters.pop(name, None); self._submodules[name] = module *)
Definition register_module (h : heap) (m : nat) (k : name) (c : nat) : heap :=
  upd_mod h m (fun M => {| m_params := assoc_pop k (m_params M);
                           m_subs := assoc_set k c (m_subs M);
                           m_training := m_training M |}).

(* register_parameter:  self._submodules.pop(name, None); self._parameters[name] = parameter *)
Definition register_parameter (h : heap) (m : nat) (k : name) (p : nat) : heap :=
  upd_mod h m (fun M => {| m_params := assoc_set k p (m_params M);
                           m_subs := assoc_pop k (m_subs M);
                           m_training := m_training M |}).

(* __setattr__ with a value that is neither a Module nor a Parameter: both registries drop the name *)
Definition unregister (h : heap) (m : nat) (k : name) : heap :=
  upd_mod h m (fun M => {| m_params := assoc_pop k (m_params M);
                           m_subs := assoc_pop k (m_subs M);
                           m_training := m_training M |}).

Inductive value := VModule (m : nat) | VParam (p : nat) | VOther.

Definition valid_value (h : heap) (v : value) : bool :=
  match v with VModule c => valid_mod h c | VParam p => valid_par h p | VOther => true end.

(* ---- observers (modules.py:96-117) --------------------------------------------------------------------- *)
Definition submodules (h : heap) (m : nat) : option (list nat) :=
  option_map (fun M => map snd (m_subs M)) (nth_error (mods h) m).

(* seen = set(); [p for p in params if not (id(p) in seen or seen.add(id(p)))] *)
Fixpoint dedupe_acc (seen : list nat) (l : list nat) : list nat :=
  match l with
  | [] => []
  | x :: t => if existsb (Nat.eqb x) seen then dedupe_acc seen t else x :: dedupe_acc (x :: seen) t
  end.
Definition dedupe := dedupe_acc [].

(* parameters():  params = own values; for m in submodules: params += m.parameters(); dedupe by identity *)
Fixpoint parameters_f (fuel : nat) (h : heap) (m : nat) : option (list nat) :=
  match fuel with
  | 0 => None
  | S f =>
      match nth_error (mods h) m with
      | None => None
      | Some M =>
          option_map (fun ls => dedupe (map snd (m_params M) ++ concat ls))
                     (sequence (map (parameters_f f h) (map snd (m_subs M))))
      end
  end.

(* the same traversal without any dedupe: the pre-order listing the property speaks of *)
Fixpoint preorder_f (fuel : nat) (h : heap) (m : nat) : option (list nat) :=
  match fuel with
  | 0 => None
  | S f =>
      match nth_error (mods h) m with
      | None => None
      | Some M =>
          option_map (fun ls => map snd (m_params M) ++ concat ls)
                     (sequence (map (preorder_f f h) (map snd (m_subs M))))
      end
  end.

(* an acyclic heap has nesting depth < number of modules *)
Definition fuel_of (h : heap) : nat := S (length (mods h)).

Definition parameters (h : heap) (m : nat) : option (list nat) := parameters_f (fuel_of h) h m.
Definition preorder (h : heap) (m : nat) : option (list nat) := preorder_f (fuel_of h) h m.

(* num_params: one loop accumulating (all, trainable, non_trainable) *)
Definition count_step (h : heap) (acc : nat * nat * nat) (p : nat) : nat * nat * nat :=
  let '(a, t, n) := acc in
  match nth_error (pars h) p with
  | None => acc
  | Some P => if p_req P then (a + p_size P, t + p_size P, n) else (a + p_size P, t, n + p_size P)
  end.

Definition num_params3 (h : heap) (m : nat) : option (nat * nat * nat) :=
  option_map (fun l => fold_left (count_step h) l (0, 0, 0)) (parameters h m).

Inductive which := All | Trainable | NonTrainable.
(* num_params(trainable, non_trainable): `if trainable: ... elif non_trainable: ... else all` *)
Definition num_params (h : heap) (m : nat) (w : which) : option nat :=
  option_map (fun '(a, t, n) => match w with All => a | Trainable => t | NonTrainable => n end) (num_params3 h m).

(* ---- train / eval (modules.py:23-35):  self.training = b; for m in self.submodules(): m.train()/eval() *)
Definition set_training (h : heap) (m : nat) (b : bool) : heap :=
  upd_mod h m (fun M => {| m_params := m_params M; m_subs := m_subs M; m_training := b |}).

Fixpoint set_mode_f (fuel : nat) (b : bool) (h : heap) (m : nat) : option heap :=
  match fuel with
  | 0 => None
  | S f =>
      match nth_error (mods h) m with
      | None => None
      | Some M =>
          fold_left (fun acc c => match acc with None => None | Some h' => set_mode_f f b h' c end)
                    (map snd (m_subs M)) (Some (set_training h m b))
      end
  end.

(* ---- zero_grad / freeze / unfreeze (modules.py:40-50): loops over self.parameters() *)
Definition for_params (h : heap) (m : nat) (f : param -> param) : option heap :=
  option_map (fun l => fold_left (fun h' p => upd_par h' p f) l h) (parameters h m).

Definition zero_one (P : param) : param :=
  if p_req P then {| p_size := p_size P; p_req := p_req P; p_grad := GZero |} else P.
Definition set_req (b : bool) (P : param) : param :=
  {| p_size := p_size P; p_req := b; p_grad := p_grad P |}.

(* ---- Sequential (modules.py:140-156) ------------------------------------------------------------------ *)
Definition str_of_nat (i : nat) : string := NilEmpty.string_of_uint (Nat.to_uint i).   (* str(idx) *)

Definition new_module (h : heap) : heap :=
  {| mods := mods h ++ [{| m_params := []; m_subs := []; m_training := true |}]; pars := pars h |}.

(* for key, module in items: self.register_module(key, module)   on a fresh module *)
Definition new_sequential (h : heap) (items : list (name * nat)) : heap :=
  let m := length (mods h) in
  fold_left (fun h' kc => register_module h' m (fst kc) (snd kc)) items (new_module h).

Definition positional (ms : list nat) : list (name * nat) :=
  combine (map str_of_nat (seq 0 (length ms))) ms.

(* forward:  inp = x; for module in self.submodules(): out = module(inp); inp = out; return out
   — with no submodule `out` is unbound (UnboundLocalError): None *)
Definition seq_forward {X} (call : nat -> X -> X) (h : heap) (m : nat) (x : X) : option X :=
  match submodules h m with
  | None | Some [] => None
  | Some cs => Some (fold_left (fun acc c => call c acc) cs x)
  end.

(* ---- events ------------------------------------------------------------------------------------------------ *)
Inductive ev :=
| NewModule                                          (* nn.Module() (or any subclass calling super().__init__()) *)
| NewParam (size : nat) (req : bool)                 (* nn.Parameter(tensor of `size` elements, requires_grad) *)
| SetAttr (m : nat) (k : name) (v : value)           (* m.k = v *)
| RegisterModule (m : nat) (k : name) (v : value)    (* m.register_module(k, v): TypeError unless v is a Module *)
| RegisterParameter (m : nat) (k : name) (v : value) (* m.register_parameter(k, v): TypeError unless a Parameter *)
| NewSequential (ms : list nat)                      (* nn.Sequential(m0, m1, ...) *)
| NewSequentialDict (items : list (name * nat))      (* nn.Sequential(OrderedDict(items)) *)
| Train (m : nat) | Eval (m : nat)
| ZeroGrad (m : nat) | Freeze (m : nat) | Unfreeze (m : nat)
| SetGrad (p : nat)                                  (* harness stimulus: p._grad = a non-zero array *)
| SetReq (p : nat) (b : bool).                       (* p.requires_grad = b, by hand (not through a module) *)

Definition step (h : heap) (e : ev) : option heap :=
  match e with
  | NewModule => Some (new_module h)
  | NewParam sz r => Some {| mods := mods h; pars := pars h ++ [{| p_size := sz; p_req := r; p_grad := GNone |}] |}
  | SetAttr m k v =>
      if valid_mod h m && valid_value h v then
        Some (match v with
              | VModule c => register_module h m k c
              | VParam p => register_parameter h m k p
              | VOther => unregister h m k
              end)
      else None
  | RegisterModule m k v =>
      if valid_mod h m && valid_value h v then
        match v with VModule c => Some (register_module h m k c) | _ => None end
      else None
  | RegisterParameter m k v =>
      if valid_mod h m && valid_value h v then
        match v with VParam p => Some (register_parameter h m k p) | _ => None end
      else None
  | NewSequential ms =>
      if forallb (valid_mod h) ms then Some (new_sequential h (positional ms)) else None
  | NewSequentialDict items =>
      if forallb (valid_mod h) (map snd items) then Some (new_sequential h items) else None
  | Train m => set_mode_f (fuel_of h) true h m
  | Eval m => set_mode_f (fuel_of h) false h m
  | ZeroGrad m => for_params h m zero_one
  | Freeze m => for_params h m (set_req false)
  | Unfreeze m => for_params h m (set_req true)
  | SetGrad p =>
      if valid_par h p then
        Some (upd_par h p (fun P => {| p_size := p_size P; p_req := p_req P; p_grad := GVal |}))
      else None
  | SetReq p b => if valid_par h p then Some (upd_par h p (set_req b)) else None
  end.

Fixpoint run (h : heap) (t : list ev) : option heap :=
  match t with
  | [] => Some h
  | e :: t' => match step h e with None => None | Some h' => run h' t' end
  end.

(* ---- what the correspondence observes ---------------------------------------------------------------------- *)
Record mod_obs := {
  o_parameters : option (list nat);       (* ids of m.parameters() *)
  o_submodules : list nat;                (* ids of m.submodules() *)
  o_training : bool;
  o_param_names : list name;              (* list(m._parameters) *)
  o_sub_names : list name;                (* list(m._submodules) *)
  o_counts : option (nat * nat * nat) }.  (* num_params(), num_params(trainable=True), num_params(non_trainable=True) *)

Definition observe_mod (h : heap) (m : nat) (M : module) : mod_obs :=
  {| o_parameters := parameters h m;
     o_submodules := map snd (m_subs M);
     o_training := m_training M;
     o_param_names := map fst (m_params M);
     o_sub_names := map fst (m_subs M);
     o_counts := match num_params h m All, num_params h m Trainable, num_params h m NonTrainable with
                 | Some a, Some t, Some n => Some (a, t, n) | _, _, _ => None end |}.

Fixpoint mapi_from {A B} (i : nat) (f : nat -> A -> B) (l : list A) : list B :=
  match l with [] => [] | x :: t => f i x :: mapi_from (S i) f t end.

Definition observe (h : heap) : list mod_obs * list (bool * gstate) :=
  (mapi_from 0 (observe_mod h) (mods h), map (fun P => (p_req P, p_grad P)) (pars h)).

(* the outcome of a whole event sequence: the observation of the final heap, or None if some event raised *)
Definition outcome (t : list ev) : option (list mod_obs * list (bool * gstate)) :=
  option_map observe (run init t).
