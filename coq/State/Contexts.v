(* Model of synapgrad/tensor.py:22-51 — the two module-level mode flags and the context-manager
   classes no_grad / retain_grads.  Hand-written model; tied to the code by the C07 correspondence
   (checks/c07.py: every event sequence up to a bound, exactly, against the real objects).

   An object is (kind, saved) where [saved] is the list object.prev (a per-entry stack: __enter__
   appends the mode in force, __exit__ pops it and restores it).                                  *)
From Coq Require Import List Bool Arith Lia.
Import ListNotations.

Inductive kind := KNoGrad | KRetain.

Definition kind_eqb (a b : kind) : bool :=
  match a, b with KNoGrad, KNoGrad => true | KRetain, KRetain => true | _, _ => false end.

Record obj := { okind : kind; saved : list bool }.

Record st := { gmode : bool;            (* tensor.gradient__      *)
               rmode : bool;            (* tensor.retain_grads__  *)
               objs  : list obj }.

Definition init : st := {| gmode := true; rmode := false; objs := [] |}.

Inductive ev :=
| New   (k : kind)                (* o = no_grad() / retain_grads()                       *)
| Enter (o : nat)                 (* o.__enter__()                                         *)
| Exit  (o : nat) (exc : bool)    (* o.__exit__(...) on normal exit (false) or exception   *)
| Call.                           (* any other library call made while the contexts are in this state: creating a
                                     tensor, applying an operation, backward() - completed or refused *)

Definition flag (k : kind) (s : st) : bool :=
  match k with KNoGrad => gmode s | KRetain => rmode s end.

Definition set_flag (k : kind) (b : bool) (s : st) : st :=
  match k with
  | KNoGrad => {| gmode := b; rmode := rmode s; objs := objs s |}
  | KRetain => {| gmode := gmode s; rmode := b; objs := objs s |}
  end.

Definition entered_value (k : kind) : bool :=
  match k with KNoGrad => false | KRetain => true end.

Fixpoint upd {A} (n : nat) (f : A -> A) (l : list A) : list A :=
  match l, n with
  | [], _ => []
  | x :: t, O => f x :: t
  | x :: t, S m => x :: upd m f t
  end.

Definition set_objs (l : list obj) (s : st) : st :=
  {| gmode := gmode s; rmode := rmode s; objs := l |}.

(* One event.  Events naming an object that does not exist, and an Exit of an object whose stack is
   empty (IndexError in the code), are errors: [None]. *)
Definition step (s : st) (e : ev) : option st :=
  match e with
  | New k => Some (set_objs (objs s ++ [{| okind := k; saved := [] |}]) s)
  | Enter o =>
      match nth_error (objs s) o with
      | None => None
      | Some ob =>
          let k := okind ob in
          let s1 := set_objs (upd o (fun ob => {| okind := okind ob; saved := flag k s :: saved ob |}) (objs s)) s in
          Some (set_flag k (entered_value k) s1)
      end
  | Exit o _ =>
      match nth_error (objs s) o with
      | None => None
      | Some ob =>
          match saved ob with
          | [] => None
          | b :: rest =>
              let s1 := set_objs (upd o (fun ob => {| okind := okind ob; saved := rest |}) (objs s)) s in
              Some (set_flag (okind ob) b s1)
          end
      end
  | Call => Some s
  end.

Fixpoint run (s : st) (t : list ev) : option st :=
  match t with
  | [] => Some s
  | e :: t' => match step s e with None => None | Some s' => run s' t' end
  end.

(* Observation used by the correspondence: the two flags after every event (None = the code raised). *)
Fixpoint trace (s : st) (t : list ev) : list (option (bool * bool)) :=
  match t with
  | [] => []
  | e :: t' => match step s e with
               | None => [None]
               | Some s' => Some (gmode s', rmode s') :: trace s' t'
               end
  end.

(* ---- tensor creation / flag resolution (tensor.py:186-189, 240-250, 287-292, 354-355) ---------- *)
Inductive outcome (A : Type) := Ok (a : A) | Raises.
Arguments Ok {A} _. Arguments Raises {A}.

(* Tensor(data, requires_grad=requested) for data of floating / non-floating dtype in mode [gm] *)
Definition create (requested gm is_float : bool) : outcome bool :=
  let req := requested && gm in
  if req && negb is_float then Raises else Ok req.

(* op result: requested = any(operand flags) *)
Definition op_result (operands : list bool) (gm : bool) (is_float : bool) : outcome bool :=
  create (existsb (fun b => b) operands) gm is_float.

(* the requires_grad setter on a tensor with (req, has_fn) *)
Definition set_requires (req has_fn is_float value : bool) : outcome bool :=
  let is_leaf := negb req || negb has_fn in
  if negb is_leaf then Raises
  else if value && negb is_float then Raises else Ok value.

Definition backward_allowed (req : bool) : bool := req.
Definition retain_grad_allowed (req : bool) : bool := req.
