(* Executable comparison helpers used by the generated correspondence files under Corr. *)
From Coq Require Import List Bool Arith ZArith QArith.
Import ListNotations.

Fixpoint list_eqb {A} (eqb : A -> A -> bool) (l1 l2 : list A) : bool :=
  match l1, l2 with
  | [], [] => true
  | x :: t1, y :: t2 => eqb x y && list_eqb eqb t1 t2
  | _, _ => false
  end.

Definition option_eqb {A} (eqb : A -> A -> bool) (a b : option A) : bool :=
  match a, b with
  | None, None => true
  | Some x, Some y => eqb x y
  | _, _ => false
  end.

Definition pair_eqb {A B} (ea : A -> A -> bool) (eb : B -> B -> bool) (p q : A * B) : bool :=
  ea (fst p) (fst q) && eb (snd p) (snd q).

Definition Qeqb (a b : Q) : bool := Qeq_bool a b.

(* indices (0-based) of the cases on which the model output differs from the recorded implementation output *)
Fixpoint mismatches_from {A B C} (n : nat) (f : A -> B) (eqb : B -> C -> bool) (cases : list (A * C)) : list nat :=
  match cases with
  | [] => []
  | (a, b) :: t => if eqb (f a) b then mismatches_from (S n) f eqb t else n :: mismatches_from (S n) f eqb t
  end.

Definition mismatches {A B C} := @mismatches_from A B C 0.

Lemma list_eqb_refl {A} (eqb : A -> A -> bool) :
  (forall x, eqb x x = true) -> forall l, list_eqb eqb l l = true.
Proof. intros H l; induction l; simpl; auto. rewrite H, IHl. reflexivity. Qed.
