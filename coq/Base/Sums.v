(* Commutative-semiring scalars and finite sums over index lists (shared by the gather/scatter adjoint
   theorems of C01, C02, C14, C16). *)
From Coq Require Import List Arith Lia Bool Permutation.
Import ListNotations.

Class Scalar (A:Type) := { s0:A; sadd:A->A->A; smul:A->A->A }.
Class ScalarLaws (A:Type) `{Scalar A} := {
  sadd_comm : forall a b, sadd a b = sadd b a;
  sadd_assoc : forall a b c, sadd a (sadd b c) = sadd (sadd a b) c;
  sadd_0_l : forall a, sadd s0 a = a;
  smul_0_l : forall a, smul s0 a = s0;
  smul_0_r : forall a, smul a s0 = s0;
  smul_add_l : forall a b c, smul (sadd a b) c = sadd (smul a c) (smul b c);
  smul_add_r : forall a b c, smul a (sadd b c) = sadd (smul a b) (smul a c) }.

Section Sums.
Context {A:Type} `{ScalarLaws A}.

Definition lsum (l:list A) : A := fold_right sadd s0 l.
Lemma sadd_0_r a : sadd a s0 = a. Proof. rewrite sadd_comm. apply sadd_0_l. Qed.

Lemma lsum_app l l' : lsum (l ++ l') = sadd (lsum l) (lsum l').
Proof. induction l; simpl. now rewrite sadd_0_l. now rewrite IHl, sadd_assoc. Qed.

Lemma lsum_perm l l' : Permutation l l' -> lsum l = lsum l'.
Proof.
  induction 1; simpl; auto.
  - now rewrite IHPermutation.
  - rewrite !sadd_assoc. f_equal. apply sadd_comm.
  - congruence.
Qed.

(* sums over an index list *)
Definition isum {I} (l:list I) (f:I->A) : A := lsum (map f l).

Lemma isum_ext {I} (l:list I) f f' : (forall i, In i l -> f i = f' i) -> isum l f = isum l f'.
Proof. unfold isum. induction l; simpl; intros E; auto. rewrite E by (left; auto). rewrite IHl; auto. Qed.

Lemma isum_zero {I} (l:list I) : isum l (fun _ => s0) = s0.
Proof. unfold isum. induction l; simpl; auto. now rewrite IHl, sadd_0_l. Qed.

Lemma isum_add {I} (l:list I) f f' : isum l (fun i => sadd (f i) (f' i)) = sadd (isum l f) (isum l f').
Proof.
  unfold isum. induction l; simpl. now rewrite sadd_0_l.
  rewrite IHl. rewrite !sadd_assoc. f_equal. rewrite <- !sadd_assoc. f_equal. apply sadd_comm.
Qed.

Lemma isum_mul_r {I} (l:list I) f c : isum l (fun i => smul (f i) c) = smul (isum l f) c.
Proof. unfold isum. induction l; simpl. now rewrite smul_0_l. now rewrite IHl, smul_add_l. Qed.

Lemma isum_mul_l {I} (l:list I) f c : isum l (fun i => smul c (f i)) = smul c (isum l f).
Proof. unfold isum. induction l; simpl. now rewrite smul_0_r. now rewrite IHl, smul_add_r. Qed.

Lemma isum_exchange {I J} (li:list I) (lj:list J) (f:I->J->A) :
  isum li (fun i => isum lj (fun j => f i j)) = isum lj (fun j => isum li (fun i => f i j)).
Proof.
  induction li as [|a li IH]; simpl.
  - unfold isum at 1. simpl. symmetry. apply isum_zero.
  - unfold isum at 1. simpl. fold (isum li (fun i => isum lj (fun j => f i j))). rewrite IH.
    rewrite <- isum_add. apply isum_ext. intros j _. reflexivity.
Qed.

(* picking the unique hit of an indicator *)
Lemma isum_pick {I} (eqb:I->I->bool) (eqb_spec: forall a b, eqb a b = true <-> a = b)
      (l:list I) (i0:I) (x:I->A) :
  NoDup l -> In i0 l -> isum l (fun i => if eqb i0 i then x i else s0) = x i0.
Proof.
  unfold isum. induction l as [|a l IH]; intros ND Hin; simpl. destruct Hin.
  inversion ND as [|a' l' Hnotin ND']; subst.
  destruct Hin as [->|Hin].
  - assert (E: eqb i0 i0 = true) by (apply eqb_spec; auto). rewrite E.
    assert (Z: lsum (map (fun i => if eqb i0 i then x i else s0) l) = s0).
    { clear IH ND ND'. induction l as [|b l IHl]; simpl; auto.
      destruct (eqb i0 b) eqn:Eb. apply eqb_spec in Eb. subst. exfalso. apply Hnotin. left; auto.
      rewrite sadd_0_l. apply IHl. intro Hc. apply Hnotin. right; auto. }
    rewrite Z. apply sadd_0_r.
  - destruct (eqb i0 a) eqn:Ea. apply eqb_spec in Ea. subst. contradiction.
    rewrite sadd_0_l. apply IH; auto.
Qed.

Lemma isum_nopick {I} (eqb:I->I->bool) (eqb_spec: forall a b, eqb a b = true <-> a = b)
      (l:list I) (i0:I) (x:I->A) :
  ~ In i0 l -> isum l (fun i => if eqb i0 i then x i else s0) = s0.
Proof.
  unfold isum. induction l as [|b l IHl]; simpl; auto. intros Hn.
  destruct (eqb i0 b) eqn:Eb. apply eqb_spec in Eb. subst. exfalso. apply Hn. left; auto.
  rewrite sadd_0_l. apply IHl. intro Hc. apply Hn. right; auto.
Qed.
End Sums.

From Coq Require Import ZArith QArith.
#[global] Instance ScalarZ : Scalar Z := {| s0 := 0%Z; sadd := Z.add; smul := Z.mul |}.
#[global] Instance ScalarLawsZ : ScalarLaws Z.
Proof. constructor; intros; cbn; lia. Qed.
