(* Extra scalar structure used by the arithmetic / reduction / bilinear models (work package E2).
   Base/Sums.v gives a semiring without commutativity of the product; the bilinear VJP statements
   need a commutative, associative product; reflected operators need negation and an inverse;
   mean needs division by a count; max/min need a total order.  Each is its own class so that a
   theorem only assumes what it uses.  Executable instances: Z (sdivn = Z.div, exact on the
   divisible data the correspondence generates) and Q (only run, never used in a theorem). *)
From Coq Require Import List Arith ZArith QArith Lia Bool.
From SG Require Import Base.Sums.

Class ScalarMulLaws (A:Type) `{Scalar A} := {
  smul_comm : forall a b, smul a b = smul b a;
  smul_assoc : forall a b c, smul a (smul b c) = smul (smul a b) c }.

(* one, negation, multiplicative inverse (x ** -1 as NumPy computes it) *)
Class ScalarRing (A:Type) `{Scalar A} := { s1 : A; sopp : A -> A; sinv : A -> A }.
Class ScalarRingLaws (A:Type) `{ScalarRing A} := {
  smul_1_r : forall a, smul a s1 = a;
  sopp_mul_1 : forall a, smul a (sopp s1) = sopp a }.

(* division by a count *)
Class ScalarDiv (A:Type) `{Scalar A} := { sdivn : A -> nat -> A }.
Class ScalarDivLaws (A:Type) `{ScalarDiv A} := {
  sdivn_0 : forall n, sdivn s0 n = s0;
  sdivn_add : forall a b n, sdivn (sadd a b) n = sadd (sdivn a n) (sdivn b n);
  sdivn_mul_l : forall a b n, smul (sdivn a n) b = sdivn (smul a b) n;
  sdivn_mul_r : forall a b n, smul a (sdivn b n) = sdivn (smul a b) n }.

(* total order, as a boolean <= *)
Class ScalarOrd (A:Type) := { sleb : A -> A -> bool }.
Class ScalarOrdLaws (A:Type) `{ScalarOrd A} := {
  sleb_refl : forall a, sleb a a = true;
  sleb_trans : forall a b c, sleb a b = true -> sleb b c = true -> sleb a c = true;
  sleb_total : forall a b, sleb a b = true \/ sleb b a = true;
  sleb_antisym : forall a b, sleb a b = true -> sleb b a = true -> a = b }.

#[global] Instance ScalarMulLawsZ : ScalarMulLaws Z.
Proof. constructor; intros; cbn; lia. Qed.
#[global] Instance ScalarRingZ : ScalarRing Z := {| s1 := 1%Z; sopp := Z.opp; sinv := fun z => (1 / z)%Z |}.
#[global] Instance ScalarRingLawsZ : ScalarRingLaws Z.
Proof. constructor; intros; cbn; lia. Qed.
#[global] Instance ScalarDivZ : ScalarDiv Z := {| sdivn := fun a n => (a / Z.of_nat n)%Z |}.
#[global] Instance ScalarOrdZ : ScalarOrd Z := {| sleb := Z.leb |}.
#[global] Instance ScalarOrdLawsZ : ScalarOrdLaws Z.
Proof. constructor; cbn; intros; lia. Qed.

(* Q: executable only (Leibniz laws do not hold for unreduced fractions) *)
Definition ScalarQ : Scalar Q := {| s0 := 0%Q; sadd := Qplus; smul := Qmult |}.
Definition ScalarRingQ : @ScalarRing Q ScalarQ := {| s1 := 1%Q; sopp := Qopp; sinv := Qinv |}.
