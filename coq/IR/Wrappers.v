(* Wrapper summaries: what every op wrapper of functional.py / nn/functional.py does around its kernels.
   The summaries themselves are generated (Gen/GenWrappers.v); this file gives them meaning.

   Operand names: "x" a required tensor operand, optional operands are present iff not None,
   "*x" stands for every element of a list operand (concat/stack).                                  *)
From Coq Require Import List String Bool Arith.
Import ListNotations.
Open Scope string_scope.
From SG Require Import Engine.Graph.

Inductive acc_op := AccAdd | AccSub | AccAssign | AccOther.

Record acc := mkAcc {
  a_target    : string;     (* operand whose _grad is written                                        *)
  a_op        : acc_op;     (* += , -= , = , anything else                                           *)
  a_guard_own : bool        (* guarded by exactly `<target>.requires_grad` (optionally `<target> and` / `is not None and`) *)
}.

Record wsum := mkW {
  w_name      : string;
  w_kids_req  : list string;     (* children always present, in order                                 *)
  w_kids_opt  : list string;     (* children present iff the operand is given                          *)
  w_kids_list : list string;     (* "*x": all elements of a list operand are children                  *)
  w_req_any   : bool;            (* requires_grad = any(child.requires_grad for all children)          *)
  w_attach_ok : bool;            (* grad_fn attached exactly under `if out.requires_grad`              *)
  w_reads_out : bool;            (* the closure reads out.grad (the result's own buffer)               *)
  w_accs      : list acc;
  w_labels    : list string;     (* integer labels / targets of asymmetric losses: no gradient expected *)
  w_multi     : bool             (* several results (unbind), each with its own closure argument       *)
}.

Definition str_eqb (a b : string) : bool := if string_dec a b then true else false.
Definition smem (x : string) (l : list string) : bool := existsb (str_eqb x) l.

Definition all_kids (w : wsum) : list string := w_kids_req w ++ w_kids_opt w ++ w_kids_list w.

Fixpoint nodupb (l : list string) : bool :=
  match l with [] => true | x :: t => negb (smem x t) && nodupb t end.

Definition acc_ok (a : acc) : bool :=
  a_guard_own a && match a_op a with AccAdd => true | AccSub => true | _ => false end.

(* every differentiable child receives exactly one guarded accumulation, nothing else is written *)
Definition wrapper_ok (w : wsum) : bool :=
  let targets := map a_target (w_accs w) in
  let expected := filter (fun k => negb (smem k (w_labels w))) (all_kids w) in
  w_req_any w && w_attach_ok w && w_reads_out w &&
  forallb acc_ok (w_accs w) &&
  nodupb targets &&
  forallb (fun k => smem k targets) expected &&
  forallb (fun t => smem t expected) targets &&
  negb (match all_kids w with [] => true | _ => false end).

(* ---- meaning for the engine model --------------------------------------------------------------
   The tensor constructor resolves `requires_grad = requested && gradient_mode` and (since the fix)
   keeps children only when that is true; the wrapper attaches the closure iff the result requires grad.
   For a wrapper satisfying [wrapper_ok], the node recorded for a result is therefore:               *)
Definition node_of_call (kid_ids : list nat) (kid_reqs : list bool) (mode : bool) : node :=
  let r := existsb (fun b => b) kid_reqs && mode in
  mkNode (if r then kid_ids else []) r r false.

Lemma node_of_call_ok kid_ids kid_reqs mode : node_ok (node_of_call kid_ids kid_reqs mode).
Proof.
  unfold node_ok, node_of_call; simpl. split.
  - auto.
  - intro H. rewrite H. reflexivity.
Qed.

Lemma node_of_call_req kid_ids kid_reqs mode :
  req (node_of_call kid_ids kid_reqs mode) = true <-> (mode = true /\ exists b, In b kid_reqs /\ b = true).
Proof.
  unfold node_of_call; simpl. rewrite andb_true_iff, existsb_exists. split.
  - intros [[b [Hin Hb]] Hm]. split; auto. exists b; auto.
  - intros [Hm [b [Hin Hb]]]. split; auto. exists b; auto.
Qed.

Lemma node_of_call_fn_iff_req kid_ids kid_reqs mode :
  has_fn (node_of_call kid_ids kid_reqs mode) = req (node_of_call kid_ids kid_reqs mode).
Proof. reflexivity. Qed.
