(* Source census of the synapgrad package (property C19, reproducibility).

   The rows themselves are generated (Gen/GenCensus.v, by lib/py2coq/gen_census.py from the AST of every .py file under
   synapgrad/); this file gives them meaning: record types, enumerations and the boolean checkers that the theorems of
   Props/C19.v decide by computation.  The connection boolean checker <-> Prop statement is in Proofs/CensusProofs.v.

   File names are relative to synapgrad/ ("tensor.py", "nn/modules.py", "visual/graph.py"); function names are qualified
   ("Tensor.backward", "split_dataset.get_split_indices", "<module>").                                                   *)
From Coq Require Import List String Bool Arith.
Import ListNotations.
Open Scope string_scope.

(* ---- (a) sources of randomness / non-determinism ------------------------------------------------------------------- *)
Inductive draw_class :=
| GlobalNumpy      (* np.random.<fn>, a function of NumPy's global (legacy) generator: rand, randn, normal, seed, ...    *)
| GlobalPython     (* random.<fn>, a function of Python's global generator                                              *)
| LocalGenerator   (* default_rng / RandomState / Generator / bit generators / random.Random / SystemRandom             *)
| OsEntropy        (* os.urandom, secrets.*, uuid.*                                                                     *)
| Clock            (* time.*, datetime.now/utcnow/today                                                                 *)
| AddressOrHash.   (* id( , hash( , .__hash__(                                                                          *)

Inductive hash_use :=
| DedupKey         (* the value is only the left operand of `in`/`not in` against, or the argument of .add/.discard/.remove
                      of, a local set variable (named in d_set)                                                         *)
| Label            (* converted to a string for display                                                                 *)
| Value            (* anything else: may flow into data or ordering                                                     *)
| NotHash.         (* the row is not an AddressOrHash row                                                               *)

Record draw := mkDraw {
  d_file : string; d_line : nat; d_func : string;
  d_callee : string;      (* source text of the callee, e.g. "np.random.rand"                                            *)
  d_fn : string;          (* the member after alias resolution: "rand", "seed", "id"                                     *)
  d_class : draw_class;
  d_use : hash_use;
  d_set : string;         (* for DedupKey: the set variable ...                                                          *)
  d_owner : string;       (* ... and the function whose local it is                                                      *)
  d_live : bool;          (* false: the statement syntactically follows a return/raise in its block (dead code)          *)
  d_called : bool         (* false: a bare reference (the function object is passed around), treated like a call          *)
}.

(* ---- (b) sets ------------------------------------------------------------------------------------------------------- *)
Inductive set_ctor := CtorDisplay | CtorCall | CtorComp | CtorFrozen | CtorDerived | CtorFromCall.
Record set_new := mkSetNew { sn_file : string; sn_line : nat; sn_func : string; sn_var : string; sn_ctor : set_ctor }.

Inductive use_kind :=
| Membership       (* x in s, x not in s, s.__contains__(x)                                                              *)
| Add              (* s.add / update / discard / remove / clear / |= ...  (mutation, no element is read out)             *)
| Size             (* len(s), bool(s), truth test                                                                        *)
| Iterate          (* for .. in s, comprehension over s, list/tuple/sorted/min/max/sum/iter(s), s.pop(), *s, np.array(s) *)
| Escape           (* returned, yielded, stored in an attribute or a container, passed to a call, formatted              *)
| OtherUse.        (* anything the census does not recognise (set algebra, comparison, aliasing into a pattern, ...)     *)

Record set_use := mkSetUse {
  su_file : string; su_line : nat;
  su_func : string;       (* function in which the use occurs                                                            *)
  su_var : string;        (* the variable ("<anon>" for a set expression used in place)                                  *)
  su_owner : string;      (* function whose local variable it is (uses in closures are attributed to the owner)          *)
  su_kind : use_kind;
  su_text : string
}.

Inductive dict_ctor := DictDisplay | DictComp | DictCall | OrderedDictCall | DefaultDictCall | CounterCall.
Inductive key_kind := KeyStr | KeyEmpty | KeyUnknown.
Record dict_new := mkDictNew { dn_file : string; dn_line : nat; dn_func : string; dn_ctor : dict_ctor; dn_keys : key_kind }.

(* ---- (c) manual_seed -------------------------------------------------------------------------------------------------- *)
Inductive seed_callee := SeedNumpy (* np.random.seed *) | SeedPython (* random.seed *) | SeedOtherCall | SeedOtherStmt.
Inductive seed_arg := ArgParam (* exactly one positional argument: the function's own, never rebound, parameter *) | ArgOther.
Record seed_stmt := mkSeedStmt { ss_callee : seed_callee; ss_arg : seed_arg; ss_line : nat; ss_text : string }.

(* ---- (d) (e) (f) (g) ---------------------------------------------------------------------------------------------------- *)
Record hash_def := mkHashDef { hd_file : string; hd_line : nat; hd_class : string; hd_method : string }.
(* what a sorted( ) call orders.  ElemsNumeric: its single argument is a comprehension / display / range whose element expression
   is syntactically a number (int arithmetic, len/int/float, .ndim/.shape[i], or a name guarded by an order comparison with a
   number in the always-evaluated test of a conditional expression) — see `numeric_expr` in lib/py2coq/gen_census.py for the
   rules and what they assume.  ElemsUnknown: anything else (in particular every .sort( ) call).                                   *)
Inductive sort_elems := ElemsNumeric | ElemsUnknown.
Record sort_call := mkSort { so_file : string; so_line : nat; so_func : string; so_callee : string; so_has_key : bool;
                             so_elems : sort_elems; so_what : string }.
Record site := mkSite { s_file : string; s_line : nat; s_func : string; s_text : string }.

(* (h) a call of synapgrad.empty (documented as uninitialised).  eu_initialised is computed by the translator (class EmptyAnalysis
   of lib/py2coq/gen_census.py, guard-context rule): true only if the call sits in a constructor, its result is stored in the
   attribute eu_attr of self, and an nn.init function that provably replaces .data completely is applied to that attribute after
   the allocation, in the constructor or in a method it calls, under guards that are all facts of the allocation's own guard
   context.  Anything the translator cannot establish is false (fail-safe, like Escape for sets).  eu_how: the event found, or
   why none counts.                                                                                                              *)
Record empty_use := mkEmptyUse { eu_file : string; eu_line : nat; eu_func : string; eu_attr : string; eu_initialised : bool; eu_how : string }.

(* ======================================================================================================================== *)
(* boolean checkers                                                                                                         *)
Definition str_eqb (a b : string) : bool := if string_dec a b then true else false.

Definition class_eqb (a b : draw_class) : bool :=
  match a, b with
  | GlobalNumpy, GlobalNumpy | GlobalPython, GlobalPython | LocalGenerator, LocalGenerator
  | OsEntropy, OsEntropy | Clock, Clock | AddressOrHash, AddressOrHash => true
  | _, _ => false
  end.

Definition seedc_eqb (a b : seed_callee) : bool :=
  match a, b with
  | SeedNumpy, SeedNumpy | SeedPython, SeedPython | SeedOtherCall, SeedOtherCall | SeedOtherStmt, SeedOtherStmt => true
  | _, _ => false
  end.

(* the excluded module: synapgrad/visual/* (Graphviz drawing, not on the numeric path) *)
Definition is_visual (f : string) : bool := prefix "visual/" f.

(* a draw that is not an address/hash row goes through one of the two global generators *)
Definition draw_ok (d : draw) : bool :=
  match d_class d with
  | GlobalNumpy | GlobalPython | AddressOrHash => true
  | LocalGenerator | OsEntropy | Clock => false
  end.

(* re-seeding / state-setting functions of the global generators *)
Definition is_reseed (d : draw) : bool :=
  match d_class d with
  | GlobalNumpy | GlobalPython =>
      str_eqb (d_fn d) "seed" || str_eqb (d_fn d) "set_state" || str_eqb (d_fn d) "setstate"
  | _ => false
  end.
Definition reseed_ok (d : draw) : bool :=
  negb (is_reseed d) || (str_eqb (d_file d) "utils.py" && str_eqb (d_func d) "manual_seed").

Definition seed_stmt_is (c : seed_callee) (s : seed_stmt) : bool :=
  seedc_eqb (ss_callee s) c && match ss_arg s with ArgParam => true | ArgOther => false end.

(* the body is the two seeding calls on the parameter, in either order, and nothing else *)
Definition seed_body_ok (b : list seed_stmt) : bool :=
  match b with
  | [x; y] => (seed_stmt_is SeedNumpy x && seed_stmt_is SeedPython y) || (seed_stmt_is SeedPython x && seed_stmt_is SeedNumpy y)
  | _ => false
  end.

Definition seeds (b : list seed_stmt) (c : seed_callee) : bool := existsb (seed_stmt_is c) b.

(* every generator family that is drawn from is seeded by the body *)
Definition family_seeded (b : list seed_stmt) (d : draw) : bool :=
  match d_class d with
  | GlobalNumpy => seeds b SeedNumpy
  | GlobalPython => seeds b SeedPython
  | _ => true
  end.

Definition use_kind_ok (k : use_kind) : bool :=
  match k with Membership | Add | Size => true | Iterate | Escape | OtherUse => false end.
Definition set_use_ok (u : set_use) : bool := is_visual (su_file u) || use_kind_ok (su_kind u).

Definition same_var (file owner var : string) (u : set_use) : bool :=
  str_eqb (su_file u) file && str_eqb (su_owner u) owner && str_eqb (su_var u) var.

(* the named variable has at least one recorded use and all of them are membership / add / size *)
Definition var_membership_only (uses : list set_use) (file owner var : string) : bool :=
  existsb (same_var file owner var) uses &&
  forallb (fun u => negb (same_var file owner var u) || use_kind_ok (su_kind u)) uses.

(* an id()/hash() row outside visual/: only a de-duplication key of a local set that itself is membership-only *)
Definition hash_row_ok (uses : list set_use) (d : draw) : bool :=
  match d_class d with
  | AddressOrHash =>
      is_visual (d_file d) ||
      match d_use d with
      | DedupKey => var_membership_only uses (d_file d) (d_owner d) (d_set d)
      | _ => false
      end
  | _ => true
  end.

(* a sort is harmless when an explicit key decides the order (a key that is id/hash is an AddressOrHash row with use Value and is
   rejected by hash_row_ok), or when what it orders are numbers *)
Definition sort_ok (s : sort_call) : bool :=
  so_has_key s || match so_elems s with ElemsNumeric => true | ElemsUnknown => false end.

Definition uninit_ok (s : site) : bool := str_eqb (s_file s) "tensor.py" && str_eqb (s_func s) "empty".

Definition visual_import_ok (s : site) : bool :=
  (str_eqb (s_file s) "__init__.py" && str_eqb (s_func s) "<module>") ||
  (str_eqb (s_file s) "tensor.py" && str_eqb (s_func s) "Tensor.draw_graph").

(* non-vacuity helpers: a draw row of the given file / function / member exists and is live *)
Definition has_draw (ds : list draw) (file func fn : string) : bool :=
  existsb (fun d => str_eqb (d_file d) file && str_eqb (d_func d) func && str_eqb (d_fn d) fn && d_live d && d_called d) ds.
